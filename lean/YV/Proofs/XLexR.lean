/-
  Proofs.XLexR — the XPath lexer reads back what was written, for the operator fragment: a text given as lexemes
  (numerals, literals, operator signs and names, parentheses, commas, function names) separated by white space is
  turned into exactly the tokens of those lexemes — the operator names and '*' being told apart from names by the
  preceding token (XPath 1.0 §3.7), function names by the '(' that follows.
-/
import YV.Model.XLex
namespace YV.XL
open YV YV.X

/-- what `Next()` will deliver from this state on: the rune held in `peek`, then the rest of the line -/
def strm (s : LexSt) : List Rune := (if s.peek = 0 then [] else [s.peek]) ++ s.line.map (·.cp)

/-- an ordinary rune: not the NUL that stands for EOF, not the marker of invalid UTF-8 -/
def okR (c : Rune) : Prop := c ≠ 0 ∧ c ≠ ERR

theorem next_cons_strm (s : LexSt) (c : Rune) (t : List Rune) (h : strm s = c :: t) (hc : c ≠ 0) :
    (next s).1 = c ∧ strm (next s).2 = t ∧ (next s).2.peek = 0 ∧ (next s).2.prec = s.prec ∧ (next s).2.err = s.err := by
  unfold strm at h
  by_cases hp : s.peek = 0
  · simp only [hp, ↓reduceIte, List.nil_append] at h
    cases hl : s.line with
    | nil => simp [hl] at h
    | cons r rest =>
      simp only [hl, List.map_cons, List.cons.injEq] at h
      obtain ⟨h1, h2⟩ := h
      have hr : r.cp ≠ 0 := by rw [h1]; exact hc
      have hn : next s = (r.cp, { s with line := rest }) := by
        unfold next; simp [hp, hl, hr]
      rw [hn]
      exact ⟨h1, by simp [strm, hp, h2], hp, rfl, rfl⟩
  · simp only [hp, ↓reduceIte, List.singleton_append, List.cons.injEq] at h
    obtain ⟨h1, h2⟩ := h
    have hn : next s = (s.peek, { s with peek := 0, peekW := 0 }) := by
      unfold next; simp [hp]
    rw [hn]
    exact ⟨h1, by simp [strm, h2], rfl, rfl, rfl⟩

theorem next_nil_strm (s : LexSt) (h : strm s = []) : next s = (EOF, s) := by
  unfold strm at h
  have hp : s.peek = 0 := by
    by_cases hp : s.peek = 0
    · exact hp
    · simp [hp] at h
  have hl : s.line = [] := by
    simp only [hp, ↓reduceIte, List.nil_append, List.map_eq_nil_iff] at h; exact h
  simp [next, hp, hl]

theorem strm_setPeek (s : LexSt) (c : Rune) (hp : s.peek = 0) (hc : c ≠ 0) : strm (setPeek s c) = c :: strm s := by
  simp [strm, setPeek, hp, hc]

theorem strm_setPeek_zero (s : LexSt) (hp : s.peek = 0) : strm (setPeek s 0) = strm s := by
  simp [strm, setPeek, hp]

theorem strm_len (s : LexSt) : (strm s).length ≤ s.line.length + 1 := by
  unfold strm; split <;> simp

theorem strm_err (s : LexSt) (e : Option String) : strm { s with err := e } = strm s := rfl
theorem strm_prec (s : LexSt) (p : Option Tok) : strm { s with prec := p } = strm s := rfl

/-- `ConstructToken` over a run of matching runes that ends at a non-matching one (or at the end of the text) -/
theorem ct_go (m : Rune → Bool) (nm : String) : ∀ (body : List Rune) (fuel : Nat) (acc : List Rune)
    (s : LexSt) (t : List Rune), (t = [] → m 0 = false) → body.length < fuel →
    (∀ x ∈ body, m x = true ∧ okR x) →
    (strm s = body ++ t) → (t = [] ∨ ∃ w r, t = w :: r ∧ m w = false ∧ w ≠ 0) →
    let res := constructToken.go m nm fuel acc s
    res.1 = acc.reverse ++ body ∧ strm res.2 = t ∧ res.2.prec = s.prec ∧ res.2.err = s.err := by
  intro body
  induction body with
  | nil =>
    intro fuel acc s t hm0' hf _ hs ht
    cases fuel with
    | zero => omega
    | succ fuel =>
      simp only [List.nil_append] at hs
      rcases ht with rfl | ⟨w, r, rfl, hw, hw0⟩
      · have hm0 := hm0' rfl
        rw [constructToken.go, next_nil_strm s hs]
        simp only [EOF, hm0, Bool.false_eq_true, ↓reduceIte, List.append_nil]
        have hp : s.peek = 0 := by
          unfold strm at hs; by_cases hp : s.peek = 0
          · exact hp
          · simp [hp] at hs
        exact ⟨by simp, by rw [strm_setPeek_zero s hp]; exact hs, rfl, rfl⟩
      · obtain ⟨h1, h2, h3, h4, h5⟩ := next_cons_strm s w r hs hw0
        rw [constructToken.go]
        cases hn : next s with
        | mk c s1 =>
          rw [hn] at h1 h2 h3 h4 h5
          simp only at h1 h2 h3 h4 h5
          subst h1
          simp only [hw, Bool.false_eq_true, ↓reduceIte, List.append_nil]
          exact ⟨by simp, by rw [strm_setPeek s1 c h3 hw0, h2], h4, h5⟩
  | cons b body ih =>
    intro fuel acc s t hm0' hf hb hs ht
    cases fuel with
    | zero => omega
    | succ fuel =>
      have hbb := hb b (by simp)
      obtain ⟨h1, h2, h3, h4, h5⟩ := next_cons_strm s b (body ++ t) (by simpa using hs) hbb.2.1
      rw [constructToken.go]
      cases hn : next s with
      | mk c s1 =>
        rw [hn] at h1 h2 h3 h4 h5
        simp only at h1 h2 h3 h4 h5
        subst h1
        simp only [hbb.1, ↓reduceIte, hbb.2.1, hbb.2.2, EOF]
        have := ih fuel (c :: acc) s1 t hm0' (by simp at hf; omega) (fun x hx => hb x (by simp [hx])) h2 ht
        simp only [List.reverse_cons, List.append_assoc, List.singleton_append] at this
        exact ⟨this.1, this.2.1, by rw [this.2.2.1, h4], by rw [this.2.2.2, h5]⟩

theorem ct_spec (c : Rune) (m : Rune → Bool) (nm : String) (body t : List Rune) (s : LexSt) (hm0 : t = [] → m 0 = false)
    (hb : ∀ x ∈ body, m x = true ∧ okR x) (hs : strm s = body ++ t)
    (ht : t = [] ∨ ∃ w r, t = w :: r ∧ m w = false ∧ w ≠ 0) :
    (constructToken c m nm s).1 = c :: body ∧ strm (constructToken c m nm s).2 = t ∧
      (constructToken c m nm s).2.prec = s.prec ∧ (constructToken c m nm s).2.err = s.err := by
  unfold constructToken
  have hl : body.length < s.line.length + 2 := by
    have := strm_len s
    rw [hs, List.length_append] at this
    omega
  have := ct_go m nm body (s.line.length + 2) [c] s t hm0 hl hb hs ht
  simpa using this

/-! ### white space in front of a token -/

theorem isWS_ne0 {c : Rune} (h : isWS c = true) : c ≠ 0 := by
  intro e; subst e; simp [isWS] at h

theorem skip_tok : ∀ (ws : List Rune) (f : Nat) (s : LexSt) (c : Rune) (t : List Rune), ws.length ≤ f →
    (∀ x ∈ ws, isWS x = true) → strm s = ws ++ c :: t → isWS c = false → c ≠ 0 →
    (lexCommon.skip f s).1 = c ∧ strm (lexCommon.skip f s).2 = t ∧ (lexCommon.skip f s).2.peek = 0 ∧
      (lexCommon.skip f s).2.prec = s.prec ∧ (lexCommon.skip f s).2.err = s.err := by
  intro ws
  induction ws with
  | nil =>
    intro f s c t _ _ hs hc hc0
    simp only [List.nil_append] at hs
    obtain ⟨h1, h2, h3, h4, h5⟩ := next_cons_strm s c t hs hc0
    cases f with
    | zero => rw [lexCommon.skip]; exact ⟨h1, h2, h3, h4, h5⟩
    | succ f =>
      rw [lexCommon.skip]
      cases hn : next s with
      | mk c' s1 =>
        rw [hn] at h1 h2 h3 h4 h5
        simp only at h1 h2 h3 h4 h5
        subst h1
        simp only [hc, Bool.false_eq_true, ↓reduceIte]
        exact ⟨by simp, h2, h3, h4, h5⟩
  | cons w ws ih =>
    intro f s c t hf hw hs hc hc0
    cases f with
    | zero => simp at hf
    | succ f =>
      have hww := hw w (by simp)
      obtain ⟨h1, h2, h3, h4, h5⟩ := next_cons_strm s w (ws ++ c :: t) (by simpa using hs) (isWS_ne0 hww)
      rw [lexCommon.skip]
      cases hn : next s with
      | mk c' s1 =>
        rw [hn] at h1 h2 h3 h4 h5
        simp only at h1 h2 h3 h4 h5
        subst h1
        simp only [hww, ↓reduceIte]
        have := ih f s1 c t (by simp at hf; omega) (fun x hx => hw x (by simp [hx])) h2 hc hc0
        exact ⟨this.1, this.2.1, this.2.2.1, by rw [this.2.2.2.1, h4], by rw [this.2.2.2.2, h5]⟩

theorem skip_eof : ∀ (ws : List Rune) (f : Nat) (s : LexSt), ws.length ≤ f →
    (∀ x ∈ ws, isWS x = true) → strm s = ws →
    (lexCommon.skip f s).1 = EOF ∧ strm (lexCommon.skip f s).2 = [] ∧
      (lexCommon.skip f s).2.prec = s.prec ∧ (lexCommon.skip f s).2.err = s.err := by
  intro ws
  induction ws with
  | nil =>
    intro f s _ _ hs
    have hn := next_nil_strm s hs
    cases f with
    | zero => rw [lexCommon.skip, hn]; exact ⟨rfl, hs, rfl, rfl⟩
    | succ f =>
      rw [lexCommon.skip, hn]
      simp only [EOF, isWS, Nat.reduceEqDiff, decide_false, Bool.or_self, Bool.false_eq_true, ↓reduceIte]
      exact ⟨by simp, hs, by simp, by simp⟩
  | cons w ws ih =>
    intro f s hf hw hs
    cases f with
    | zero => simp at hf
    | succ f =>
      have hww := hw w (by simp)
      obtain ⟨h1, h2, h3, h4, h5⟩ := next_cons_strm s w ws hs (isWS_ne0 hww)
      rw [lexCommon.skip]
      cases hn : next s with
      | mk c' s1 =>
        rw [hn] at h1 h2 h3 h4 h5
        simp only at h1 h2 h3 h4 h5
        subst h1
        simp only [hww, ↓reduceIte]
        have := ih f s1 (by simp at hf; omega) (fun x hx => hw x (by simp [hx])) h2
        exact ⟨this.1, this.2.1, by rw [this.2.2.1, h4], by rw [this.2.2.2, h5]⟩

/-! ### one token -/

/-- the outcome of lexing one token: the token, and a state whose stream is what follows -/
def Lexed (r : Tok × LexSt) (tok : Tok) (t : List Rune) (s0 : LexSt) : Prop :=
  r.1 = tok ∧ strm r.2 = t ∧ r.2.prec = s0.prec ∧ r.2.err = s0.err

/-- the characters that are tokens by themselves: + - ( ) , [ ] | @ -/
def symChar (c : Rune) : Bool :=
  c = 43 || c = 45 || c = 40 || c = 41 || c = 44 || c = 91 || c = 93 || c = 124 || c = 64

theorem symChar_cases {c : Rune} (h : symChar c = true) :
    c = 43 ∨ c = 45 ∨ c = 40 ∨ c = 41 ∨ c = 44 ∨ c = 91 ∨ c = 93 ∨ c = 124 ∨ c = 64 := by
  simp only [symChar, Bool.or_eq_true, decide_eq_true_eq] at h
  rcases h with (((((((h | h) | h) | h) | h) | h) | h) | h) | h <;> simp [h]

theorem lexTok_sym (strict : Bool) (pm : PfxMap) (c : Rune) (s : LexSt) (hc : symChar c = true) :
    lexTok strict .expr pm c s = (.ch c, s) := by
  rcases symChar_cases hc with rfl | rfl | rfl | rfl | rfl | rfl | rfl | rfl | rfl <;>
    simp [lexTok, chr, EOF, ERR, isDigitR]

/-- `*` where no operator may stand: the wildcard name test -/
theorem lexTok_wild (strict : Bool) (pm : PfxMap) (s : LexSt) (h : canBeOperator s.prec = false) :
    lexTok strict .expr pm (chr '*') s = (.nametest [] [chr '*'], s) := by
  simp [lexTok, chr, EOF, ERR, isDigitR, h]

theorem lexTok_star (strict : Bool) (pm : PfxMap) (s : LexSt) (h : canBeOperator s.prec = true) :
    lexTok strict .expr pm (chr '*') s = (.ch (chr '*'), s) := by
  simp [lexTok, chr, EOF, ERR, isDigitR, h]

theorem lexTok_eq (strict : Bool) (pm : PfxMap) (s : LexSt) : lexTok strict .expr pm (chr '=') s = (.eq, s) := by
  simp [lexTok, chr, EOF, ERR, isDigitR]

theorem ws_ne_eq {w : Rune} (h : isWS w = true) : w ≠ 61 := by
  intro e; subst e; simp [isWS] at h

/-- what follows a lexeme: the end of the text, or a rune that cannot continue it -/
def After (m : Rune → Bool) (t : List Rune) : Prop := t = [] ∨ ∃ w r, t = w :: r ∧ m w = false ∧ w ≠ 0

theorem strm_nil_peek (s : LexSt) (h : strm s = []) : s.peek = 0 := by
  unfold strm at h
  by_cases hp : s.peek = 0
  · exact hp
  · simp [hp] at h

/-- `<` / `>` not followed by `=` -/
theorem lexTok_ltgt (strict : Bool) (pm : PfxMap) (s : LexSt) (c : Rune) (tok : Tok) (t : List Rune)
    (hc : (c = chr '<' ∧ tok = .lt) ∨ (c = chr '>' ∧ tok = .gt)) (hs : strm s = t)
    (ht : After (fun x => decide (x = 61)) t) : Lexed (lexTok strict .expr pm c s) tok t s := by
  rcases ht with rfl | ⟨w, r, rfl, hw, hw0⟩
  · have hn := next_nil_strm s hs
    have hp := strm_nil_peek s hs
    rcases hc with ⟨rfl, rfl⟩ | ⟨rfl, rfl⟩ <;>
    · simp [lexTok, chr, EOF, ERR, isDigitR, hn, Lexed, setPeek]
      simpa [strm, hp] using hs
  · obtain ⟨h1, h2, h3, h4, h5⟩ := next_cons_strm s w r hs hw0
    have hne : w ≠ 61 := by simpa using hw
    cases hn : next s with
    | mk n s1 =>
      rw [hn] at h1 h2 h3 h4 h5; simp only at h1 h2 h3 h4 h5; subst h1
      have hr : s1.line.map (·.cp) = r := by simpa [strm, h3] using h2
      rcases hc with ⟨rfl, rfl⟩ | ⟨rfl, rfl⟩ <;>
      · simp only [lexTok, chr, EOF, ERR, isDigitR, hn, Char.reduceToNat]
        simp [hne, Lexed, h4, h5, setPeek, strm, hw0, hr]

/-- `<=`, `>=`, `!=` -/
theorem lexTok_two (strict : Bool) (pm : PfxMap) (s : LexSt) (c : Rune) (tok : Tok) (t : List Rune)
    (hc : (c = chr '<' ∧ tok = .le) ∨ (c = chr '>' ∧ tok = .ge) ∨ (c = chr '!' ∧ tok = .ne))
    (hs : strm s = chr '=' :: t) : Lexed (lexTok strict .expr pm c s) tok t s := by
  obtain ⟨h1, h2, h3, h4, h5⟩ := next_cons_strm s (chr '=') t hs (by simp [chr])
  cases hn : next s with
  | mk n s1 =>
    rw [hn] at h1 h2 h3 h4 h5; simp only at h1 h2 h3 h4 h5; subst h1
    rcases hc with ⟨rfl, rfl⟩ | ⟨rfl, rfl⟩ | ⟨rfl, rfl⟩ <;>
      simp [lexTok, chr, EOF, ERR, isDigitR, hn, Lexed, h2, h4, h5]

/-- `/` not followed by `/` -/
theorem lexTok_slash (strict : Bool) (pm : PfxMap) (s : LexSt) (t : List Rune) (hs : strm s = t)
    (ht : After (fun x => decide (x = 47)) t) : Lexed (lexTok strict .expr pm (chr '/') s) (.ch (chr '/')) t s := by
  rcases ht with rfl | ⟨w, r, rfl, hw, hw0⟩
  · have hn := next_nil_strm s hs
    have hp := strm_nil_peek s hs
    simp [lexTok, chr, EOF, ERR, isDigitR, hn, Lexed, setPeek]
    simpa [strm, hp] using hs
  · obtain ⟨h1, h2, h3, h4, h5⟩ := next_cons_strm s w r hs hw0
    have hne : w ≠ 47 := by simpa using hw
    cases hn : next s with
    | mk n s1 =>
      rw [hn] at h1 h2 h3 h4 h5; simp only at h1 h2 h3 h4 h5; subst h1
      have hr : s1.line.map (·.cp) = r := by simpa [strm, h3] using h2
      simp only [lexTok, chr, EOF, ERR, isDigitR, hn, Char.reduceToNat]
      simp [hne, Lexed, h4, h5, setPeek, strm, hw0, hr]

/-- `..` -/
theorem lexTok_dotdot (strict : Bool) (pm : PfxMap) (s : LexSt) (t : List Rune) (hs : strm s = 46 :: t) :
    Lexed (lexTok strict .expr pm (chr '.') s) .dotdot t s := by
  obtain ⟨h1, h2, h3, h4, h5⟩ := next_cons_strm s 46 t hs (by simp)
  cases hn : next s with
  | mk n s1 =>
    rw [hn] at h1 h2 h3 h4 h5; simp only at h1 h2 h3 h4 h5; subst h1
    simp [lexTok, chr, EOF, ERR, isDigitR, hn, Lexed, h2, h4, h5]

/-- `.` followed by neither `.` nor a digit -/
theorem lexTok_dot (strict : Bool) (pm : PfxMap) (s : LexSt) (t : List Rune) (hs : strm s = t)
    (ht : After (fun x => decide (x = 46) || isDigitR x) t) :
    Lexed (lexTok strict .expr pm (chr '.') s) (.ch (chr '.')) t s := by
  rcases ht with rfl | ⟨w, r, rfl, hw, hw0⟩
  · have hn := next_nil_strm s hs
    have hp := strm_nil_peek s hs
    simp [lexTok, chr, EOF, ERR, isDigitR, hn, Lexed, setPeek]
    simpa [strm, hp] using hs
  · obtain ⟨h1, h2, h3, h4, h5⟩ := next_cons_strm s w r hs hw0
    simp only [Bool.or_eq_false_iff, decide_eq_false_iff_not] at hw
    have hne : w ≠ 46 := hw.1
    have hnd : isDigitR w = false := hw.2
    cases hn : next s with
    | mk n s1 =>
      rw [hn] at h1 h2 h3 h4 h5; simp only at h1 h2 h3 h4 h5; subst h1
      have hr : s1.line.map (·.cp) = r := by simpa [strm, h3] using h2
      have hnd' : ¬(48 ≤ n ∧ n ≤ 57) := by simpa [isDigitR] using hnd
      simp only [lexTok, chr, EOF, ERR, hn, Char.reduceToNat]
      simp [hne, hnd', Lexed, h4, h5, setPeek, strm, hw0, hr, isDigitR]

theorem isNumChar_ws {w : Rune} (h : isWS w = true) : isNumChar w = false := by
  simp only [isWS, Bool.or_eq_true, decide_eq_true_eq] at h
  rcases h with ((h | h) | h) | h <;> subst h <;> simp [isNumChar, isDigitR]

theorem nameChar_ws {w : Rune} (h : isWS w = true) : nameCharCommon w = false := by
  simp only [isWS, Bool.or_eq_true, decide_eq_true_eq] at h
  rcases h with ((h | h) | h) | h <;> subst h <;> simp [nameCharCommon, nameStartCommon, isDigitR]

theorem after_ws (m : Rune → Bool) (hm : ∀ w, isWS w = true → m w = false) (w : Rune) (r : List Rune)
    (hw : isWS w = true) : After m (w :: r) := Or.inr ⟨w, r, rfl, hm w hw, isWS_ne0 hw⟩

/-- a numeral: a digit, then digits and points (what Go's ParseFloat makes of it decides) -/
theorem lexTok_num (strict : Bool) (pm : PfxMap) (c : Rune) (ds t : List Rune) (s : LexSt) (x : SF)
    (hc : isDigitR c = true) (hd : ∀ d ∈ ds, isDigitR d = true ∨ d = 46) (hs : strm s = ds ++ t) (ht : After isNumChar t)
    (hx : parseGoFloat (c :: ds) = some x) :
    Lexed (lexTok strict .expr pm c s) (.num x) t s := by
  have hdig : ∀ d, isDigitR d = true → isNumChar d = true ∧ okR d ∧ d ≠ 101 ∧ d ≠ 69 ∧ d ≠ 46 ∧ d ≠ 34 ∧ d ≠ 39 := by
    intro d h
    simp only [isDigitR, Bool.and_eq_true, decide_eq_true_eq] at h
    have h1 : (48 : Nat) ≤ d := h.1
    have h2 : d ≤ (57 : Nat) := h.2
    refine ⟨by simp [isNumChar, isDigitR, h.1, h.2], ⟨?_, ?_⟩, ?_, ?_, ?_, ?_, ?_⟩
    · intro e; subst e; simp at h1
    · intro e; subst e; simp [ERR] at h2
    all_goals (intro e; subst e; simp at h1 h2)
  have hbody : ∀ d, (isDigitR d = true ∨ d = 46) → isNumChar d = true ∧ okR d ∧ d ≠ 101 ∧ d ≠ 69 := by
    intro d h
    rcases h with h | rfl
    · exact ⟨(hdig d h).1, (hdig d h).2.1, (hdig d h).2.2.1, (hdig d h).2.2.2.1⟩
    · simp [isNumChar, okR, ERR]
  obtain ⟨b1, b2, b3, b4⟩ := ct_spec c isNumChar "NUM" ds t s (fun _ => by simp [isNumChar, isDigitR])
    (fun d hdd => ⟨(hbody d (hd d hdd)).1, (hbody d (hd d hdd)).2.1⟩) hs ht
  have hcd := hdig c hc
  have hnoe : ((c :: ds).any fun c => decide (c = 101) || decide (c = 69)) = false := by
    rw [List.any_eq_false]
    intro d hdd
    have hd' : isDigitR d = true ∨ d = 46 := by
      rcases List.mem_cons.mp hdd with rfl | h
      · exact Or.inl hc
      · exact hd d h
    have := hbody d hd'
    simp [this.2.2.1, this.2.2.2]
  have hc0 : c ≠ EOF := hcd.2.1.1
  have hcE : c ≠ ERR := hcd.2.1.2
  simp only [lexTok, hc0, hcE, ↓reduceIte, chr, Char.reduceToNat, hcd.2.2.2.2.1, hcd.2.2.2.2.2.1, hcd.2.2.2.2.2.2, decide_false,
    Bool.or_self, Bool.false_eq_true, hc, reduceCtorEq]
  cases hct : constructToken c isNumChar "NUM" s with
  | mk b s1 =>
    rw [hct] at b1 b2 b3 b4
    simp only at b1 b2 b3 b4
    subst b1
    simp only [hnoe, Bool.and_false, Bool.false_eq_true, ↓reduceIte, hx]
    exact ⟨rfl, b2, b3, b4⟩

/-- a numeral that begins with the point: `.5` -/
theorem lexTok_numdot (strict : Bool) (pm : PfxMap) (d : Rune) (ds t : List Rune) (s : LexSt) (x : SF)
    (hdg : isDigitR d = true) (hd : ∀ e ∈ ds, isDigitR e = true ∨ e = 46) (hs : strm s = d :: (ds ++ t))
    (ht : After isNumChar t) (hx : parseGoFloat (46 :: d :: ds) = some x) :
    Lexed (lexTok strict .expr pm 46 s) (.num x) t s := by
  have hdig : ∀ d, isDigitR d = true → isNumChar d = true ∧ okR d ∧ d ≠ 101 ∧ d ≠ 69 ∧ d ≠ 46 := by
    intro d h
    simp only [isDigitR, Bool.and_eq_true, decide_eq_true_eq] at h
    have h1 : (48 : Nat) ≤ d := h.1
    have h2 : d ≤ (57 : Nat) := h.2
    refine ⟨by simp [isNumChar, isDigitR, h.1, h.2], ⟨?_, ?_⟩, ?_, ?_, ?_⟩
    · intro e; subst e; simp at h1
    · intro e; subst e; simp [ERR] at h2
    all_goals (intro e; subst e; simp at h1 h2)
  have hbody : ∀ d, (isDigitR d = true ∨ d = 46) → isNumChar d = true ∧ okR d ∧ d ≠ 101 ∧ d ≠ 69 := by
    intro d h
    rcases h with h | rfl
    · exact ⟨(hdig d h).1, (hdig d h).2.1, (hdig d h).2.2.1, (hdig d h).2.2.2.1⟩
    · simp [isNumChar, okR, ERR]
  have hd0 := hdig d hdg
  obtain ⟨h1, h2, h3, h4, h5⟩ := next_cons_strm s d (ds ++ t) hs hd0.2.1.1
  cases hn : next s with
  | mk n s1 =>
    rw [hn] at h1 h2 h3 h4 h5; simp only at h1 h2 h3 h4 h5; subst h1
    have hsp : strm (setPeek s1 n) = (n :: ds) ++ t := by rw [strm_setPeek s1 n h3 hd0.2.1.1, h2]; rfl
    obtain ⟨b1, b2, b3, b4⟩ := ct_spec 46 isNumChar "NUM" (n :: ds) t (setPeek s1 n) (fun _ => by simp [isNumChar, isDigitR])
      (fun e he => by
        rcases List.mem_cons.mp he with rfl | h
        · exact ⟨hd0.1, hd0.2.1⟩
        · exact ⟨(hbody e (hd e h)).1, (hbody e (hd e h)).2.1⟩) hsp ht
    have hnoe : ((46 :: n :: ds).any fun c => decide (c = 101) || decide (c = 69)) = false := by
      rw [List.any_eq_false]
      intro e he
      have he' : isDigitR e = true ∨ e = 46 := by
        rcases List.mem_cons.mp he with rfl | h
        · exact Or.inr rfl
        · rcases List.mem_cons.mp h with rfl | h
          · exact Or.inl hdg
          · exact hd e h
      have := hbody e he'
      simp [this.2.2.1, this.2.2.2]
    simp only [lexTok, EOF, ERR, chr, Char.reduceToNat, hn, hd0.2.2.2.2, hdg, ↓reduceIte, reduceCtorEq,
      show (46 : Rune) ≠ 0 by simp, show (46 : Rune) ≠ 61441 by simp, show (46 : Rune) ≠ 34 by simp,
      show (46 : Rune) ≠ 39 by simp, decide_false, Bool.or_self, Bool.false_eq_true]
    cases hct : constructToken 46 isNumChar "NUM" (setPeek s1 n) with
    | mk b s2 =>
      rw [hct] at b1 b2 b3 b4
      simp only at b1 b2 b3 b4
      subst b1
      simp only [hnoe, Bool.and_false, Bool.false_eq_true, ↓reduceIte, hx]
      exact ⟨rfl, b2, by rw [b3]; exact h4, by rw [b4]; exact h5⟩

/-- a literal in either kind of quotes -/
theorem lexTok_lit (strict : Bool) (pm : PfxMap) (q : Rune) (hq : q = 34 ∨ q = 39) (body t : List Rune) (s : LexSt)
    (hb : ∀ x ∈ body, x ≠ q ∧ okR x) (hs : strm s = body ++ q :: t) (he : s.err = none) :
    Lexed (lexTok strict .expr pm q s) (.lit body) t s := by
  have hq0 : q ≠ 0 := by rcases hq with rfl | rfl <;> simp
  have hqE : q ≠ ERR := by rcases hq with rfl | rfl <;> simp [ERR]
  have hquote : (decide (q = chr '"') || decide (q = chr '\'')) = true := by
    rcases hq with rfl | rfl <;> simp [chr]
  simp only [lexTok, EOF, hq0, hqE, ↓reduceIte, hquote]
  cases body with
  | nil =>
    simp only [List.nil_append] at hs
    obtain ⟨h1, h2, h3, h4, h5⟩ := next_cons_strm s q t hs hq0
    cases hn : next s with
    | mk c1 s1 =>
      rw [hn] at h1 h2 h3 h4 h5; simp only at h1 h2 h3 h4 h5; subst h1
      simp only [hqE, ↓reduceIte, ne_eq, not_true_eq_false, h5, he, Option.isSome_none, Bool.false_eq_true]
      exact ⟨rfl, h2, h4, by rw [h5, he]⟩
  | cons b0 bs =>
    have hb0 := hb b0 (by simp)
    obtain ⟨h1, h2, h3, h4, h5⟩ := next_cons_strm s b0 (bs ++ q :: t) (by simpa using hs) hb0.2.1
    cases hn : next s with
    | mk c1 s1 =>
      rw [hn] at h1 h2 h3 h4 h5; simp only at h1 h2 h3 h4 h5; subst h1
      simp only [hb0.2.2, ↓reduceIte, ne_eq, hb0.1, not_false_eq_true]
      obtain ⟨c1', c2, c3, c4⟩ := ct_spec c1 (fun x => decide (x ≠ q)) "Literal" bs (q :: t) s1 (fun e => by cases e)
        (fun x hx => ⟨by simpa using (hb x (by simp [hx])).1, (hb x (by simp [hx])).2⟩) h2
        (Or.inr ⟨q, t, rfl, by simp, hq0⟩)
      cases hct : constructToken c1 (fun x => decide (x ≠ q)) "Literal" s1 with
      | mk b s2 =>
        rw [hct] at c1' c2 c3 c4; simp only at c1' c2 c3 c4; subst c1'
        obtain ⟨d1, d2, d3, d4, d5⟩ := next_cons_strm s2 q t c2 hq0
        cases hn2 : next s2 with
        | mk c3' s3 =>
          rw [hn2] at d1 d2 d3 d4 d5; simp only at d1 d2 d3 d4 d5
          have he3 : s3.err = none := by rw [d5, c4, h5, he]
          simp only [he3, Option.isSome_none, Bool.false_eq_true, ↓reduceIte]
          exact ⟨rfl, d2, by rw [d4, c3, h4], by rw [d5, c4, h5]⟩

/-! ### names: operator names and function names -/

theorem peekLine_ok (r : SrcRune) (rest : List SrcRune) (h : r.cp ≠ ERR) : peekLine (r :: rest) = (r.cp, rest) := by
  simp [peekLine, h]

/-- looking past white space for an opening parenthesis -/
theorem skip_cmp_paren : ∀ (ws : List SrcRune) (f : Nat) (lc : Rune) (l rest : List SrcRune) (p : SrcRune),
    ws.length ≤ f → (∀ r ∈ ws, isWS r.cp = true) → p.cp = 40 →
    ((isWS lc = true ∧ l = ws ++ p :: rest) ∨ (ws = [] ∧ lc = 40 ∧ l = rest)) →
    (let (c, l') := skipWSLine (f + 1) lc l; cmpRest [40] c l') = true := by
  intro ws
  induction ws with
  | nil =>
    intro f lc l rest p _ _ hp h
    rcases h with ⟨hlc, hl⟩ | ⟨_, hlc, hl⟩
    · subst hl
      have hpE : p.cp ≠ ERR := by rw [hp]; simp [ERR]
      simp only [List.nil_append, skipWSLine, hlc, ↓reduceIte, peekLine_ok p rest hpE]
      cases f with
      | zero => simp [skipWSLine, cmpRest, hp, EOF, ERR]
      | succ f => simp [skipWSLine, hp, isWS, cmpRest, EOF, ERR]
    · subst hlc
      simp [skipWSLine, isWS, cmpRest, EOF, ERR]
  | cons w ws ih =>
    intro f lc l rest p hf hw hp h
    rcases h with ⟨hlc, hl⟩ | ⟨h0, _, _⟩
    · subst hl
      have hww := hw w (by simp)
      have hwE : w.cp ≠ ERR := by intro e; rw [e] at hww; simp [isWS, ERR] at hww
      cases f with
      | zero => simp at hf
      | succ f =>
        rw [skipWSLine]
        simp only [hlc, ↓reduceIte, List.cons_append, peekLine_ok w _ hwE]
        exact ih f w.cp (ws ++ p :: rest) rest p (by simp at hf; omega) (fun r hr => hw r (by simp [hr])) hp
          (Or.inl ⟨hww, rfl⟩)
    · cases h0

theorem nnwsIs_paren_ws (s : LexSt) (w : Rune) (ws r : List Rune) (hw : isWS w = true) (hws : ∀ x ∈ ws, isWS x = true)
    (hs : strm s = w :: (ws ++ 40 :: r)) : nnwsIs [chr '('] s = true := by
  have hc : chr '(' = 40 := by simp [chr]
  rw [hc]
  unfold strm at hs
  unfold nnwsIs
  by_cases hp : s.peek = 0
  · -- the white space is still in the line
    simp only [hp, ↓reduceIte, List.nil_append] at hs
    simp only [hp, ne_eq, not_true_eq_false, decide_false, Bool.false_and, Bool.false_eq_true, ↓reduceIte]
    obtain ⟨l0, hl0⟩ : ∃ l0, s.line = l0 := ⟨_, rfl⟩
    -- split the line along the runes
    have hsplit : ∃ (w0 : SrcRune) (wl : List SrcRune) (p : SrcRune) (rest : List SrcRune),
        s.line = w0 :: (wl ++ p :: rest) ∧ w0.cp = w ∧ wl.map (·.cp) = ws ∧ p.cp = 40 := by
      cases hl : s.line with
      | nil => simp [hl] at hs
      | cons w0 tl =>
        simp only [hl, List.map_cons, List.cons.injEq] at hs
        obtain ⟨wl, pr, htl, hwl, hpr⟩ := List.map_eq_append_iff.mp hs.2
        cases pr with
        | nil => simp at hpr
        | cons p rest =>
          simp only [List.map_cons, List.cons.injEq] at hpr
          exact ⟨w0, wl, p, rest, by rw [htl], hs.1, hwl, hpr.1⟩
    obtain ⟨w0, wl, p, rest, hline, hw0, hwl, hp40⟩ := hsplit
    have hw0E : w0.cp ≠ ERR := by rw [hw0]; intro e; rw [e] at hw; simp [isWS, ERR] at hw
    rw [hline, peekLine_ok w0 _ hw0E]
    have hlen : (w0 :: (wl ++ p :: rest)).length + 1 = (wl.length + rest.length + 2) + 1 := by simp; omega
    rw [hlen]
    exact skip_cmp_paren wl _ w0.cp (wl ++ p :: rest) rest p (by omega)
      (fun x hx => hws x.cp (by rw [← hwl]; exact List.mem_map_of_mem hx)) hp40 (Or.inl ⟨by rw [hw0]; exact hw, rfl⟩)
  · -- the white space is held in `peek`
    simp only [hp, ↓reduceIte, List.singleton_append, List.cons.injEq] at hs
    have hpw : isWS s.peek = true := by rw [hs.1]; exact hw
    simp only [ne_eq, hp, not_false_eq_true, decide_true, hpw, Bool.not_true, Bool.and_false, Bool.false_eq_true, ↓reduceIte]
    obtain ⟨wl, pr, hline, hwl, hpr⟩ := List.map_eq_append_iff.mp hs.2
    cases pr with
    | nil => simp at hpr
    | cons p rest =>
      simp only [List.map_cons, List.cons.injEq] at hpr
      rw [hline]
      cases wl with
      | nil =>
        have hpE : p.cp ≠ ERR := by rw [hpr.1]; simp [ERR]
        simp only [List.nil_append, peekLine_ok p rest hpE]
        have := skip_cmp_paren [] ((p :: rest).length) p.cp rest rest p (by simp) (by simp) hpr.1 (Or.inr ⟨rfl, hpr.1, rfl⟩)
        simpa using this
      | cons w1 wl' =>
        have hw1 : isWS w1.cp = true := hws w1.cp (by rw [← hwl]; simp)
        have hw1E : w1.cp ≠ ERR := by intro e; rw [e] at hw1; simp [isWS, ERR] at hw1
        simp only [List.cons_append, peekLine_ok w1 _ hw1E]
        have hlen : (w1 :: (wl' ++ p :: rest)).length + 1 = (wl'.length + rest.length + 2) + 1 := by simp; omega
        rw [hlen]
        exact skip_cmp_paren wl' _ w1.cp (wl' ++ p :: rest) rest p (by omega)
          (fun x hx => hws x.cp (by rw [← hwl]; simp [List.mem_map_of_mem hx])) hpr.1 (Or.inl ⟨hw1, rfl⟩)

/-- `(` is the next thing that is not white space -/
theorem nnwsIs_paren (s : LexSt) (ws r : List Rune) (hws : ∀ x ∈ ws, isWS x = true)
    (hs : strm s = ws ++ 40 :: r) : nnwsIs [chr '('] s = true := by
  cases ws with
  | cons w ws' => exact nnwsIs_paren_ws s w ws' r (hws w (by simp)) (fun x hx => hws x (by simp [hx])) hs
  | nil =>
    have hc : chr '(' = 40 := by simp [chr]
    rw [hc]
    unfold strm at hs
    unfold nnwsIs
    by_cases hp : s.peek = 0
    · simp only [hp, ↓reduceIte, List.nil_append] at hs
      simp only [hp, ne_eq, not_true_eq_false, decide_false, Bool.false_and, Bool.false_eq_true, ↓reduceIte]
      cases hl : s.line with
      | nil => simp [hl] at hs
      | cons p rest =>
        simp only [hl, List.map_cons, List.cons.injEq] at hs
        have hpE : p.cp ≠ ERR := by rw [hs.1]; simp [ERR]
        simp only [peekLine_ok p rest hpE]
        have := skip_cmp_paren [] ((p :: rest).length) p.cp rest rest p (by simp) (by simp) hs.1 (Or.inr ⟨rfl, hs.1, rfl⟩)
        simpa using this
    · simp only [hp, ↓reduceIte, List.nil_append, List.singleton_append, List.cons.injEq] at hs
      simp [hs.1, isWS]

/-- the next rune that is not white space -/
def nextNW : List Rune → Option Rune
  | [] => none
  | c :: r => if isWS c then nextNW r else some c

theorem nextNW_ws (ws t : List Rune) (h : ∀ x ∈ ws, isWS x = true) : nextNW (ws ++ t) = nextNW t := by
  induction ws with
  | nil => rfl
  | cons w ws ih => simp [nextNW, h w (by simp), ih fun x hx => h x (by simp [hx])]

theorem cmpRest_ne (e0 : Rune) (es : List Rune) (lc : Rune) (l : List SrcRune) (h : lc ≠ e0) :
    cmpRest (e0 :: es) lc l = false := by
  simp only [cmpRest]
  split
  · rfl
  · simp only [ne_eq, ite_not]
    rw [if_neg (fun e => h e.symm)]

theorem skipWS_nonws (f : Nat) (lc : Rune) (l : List SrcRune) (h : isWS lc = false) : skipWSLine f lc l = (lc, l) := by
  cases f <;> simp [skipWSLine, h]

/-- looking past white space and finding something else than `e0` -/
theorem skip_cmp_ne (e0 : Rune) (es : List Rune) (he0 : e0 ≠ 0) (heE : e0 ≠ ERR) : ∀ (l : List SrcRune) (f : Nat) (lc : Rune),
    l.length ≤ f → nextNW (lc :: l.map (·.cp)) ≠ some e0 →
    (let (c, l') := skipWSLine (f + 1) lc l; cmpRest (e0 :: es) c l') = false := by
  intro l
  induction l with
  | nil =>
    intro f lc _ h
    by_cases hw : isWS lc = true
    · simp only [skipWSLine, hw, ↓reduceIte, peekLine]
      rw [skipWS_nonws f EOF [] (by simp [isWS, EOF])]
      exact cmpRest_ne e0 es EOF [] (fun e => he0 (by rw [← e]; rfl))
    · have hw' : isWS lc = false := by simpa using hw
      rw [skipWS_nonws _ lc [] hw']
      simp only [nextNW, hw', Bool.false_eq_true, ↓reduceIte, ne_eq, Option.some.injEq, List.map_nil] at h
      exact cmpRest_ne e0 es lc [] h
  | cons x xs ih =>
    intro f lc hf h
    by_cases hw : isWS lc = true
    · cases f with
      | zero => simp at hf
      | succ f =>
        have hnext : nextNW (x.cp :: xs.map (·.cp)) ≠ some e0 := by
          simpa [nextNW, hw] using h
        rw [skipWSLine]
        simp only [hw, ↓reduceIte]
        by_cases hE : (x.cp = ERR && x.w = 1) = true
        · simp only [peekLine, hE, ↓reduceIte]
          rw [skipWS_nonws (f + 1) ERR [] (by simp [isWS, ERR])]
          exact cmpRest_ne e0 es ERR [] (fun e => heE e.symm)
        · have hE' : (x.cp = ERR && x.w = 1) = false := by simpa using hE
          simp only [peekLine, hE', Bool.false_eq_true, ↓reduceIte]
          exact ih f x.cp (by simp at hf; omega) hnext
    · have hw' : isWS lc = false := by simpa using hw
      rw [skipWS_nonws _ lc _ hw']
      simp only [nextNW, hw', Bool.false_eq_true, ↓reduceIte, ne_eq, Option.some.injEq] at h
      exact cmpRest_ne e0 es lc _ h

theorem go_ne (e0 : Rune) (es : List Rune) (he0 : e0 ≠ 0) (heE : e0 ≠ ERR) (line : List SrcRune) (n : Nat)
    (hn : line.length ≤ n) (h : nextNW (line.map (·.cp)) ≠ some e0) :
    (let (lc, l) := peekLine line; let (lc, l) := skipWSLine (n + 1) lc l; cmpRest (e0 :: es) lc l) = false := by
  cases line with
  | nil =>
    simp only [peekLine]
    exact skip_cmp_ne e0 es he0 heE [] n EOF (by simp) (by simp [nextNW, isWS, EOF]; exact fun e => he0 e.symm)
  | cons x xs =>
    by_cases hE : (x.cp = ERR && x.w = 1) = true
    · simp only [peekLine, hE, ↓reduceIte]
      exact skip_cmp_ne e0 es he0 heE [] n ERR (by simp) (by simp [nextNW, isWS, ERR]; exact fun e => heE (by rw [← e]; rfl))
    · have hE' : (x.cp = ERR && x.w = 1) = false := by simpa using hE
      simp only [peekLine, hE', Bool.false_eq_true, ↓reduceIte]
      exact skip_cmp_ne e0 es he0 heE xs n x.cp (by simp at hn; omega) (by simpa using h)

/-- the next thing that is not white space is not `e0`: the look-ahead for a string beginning with `e0` fails -/
theorem nnwsIs_ne (e0 : Rune) (es : List Rune) (he0 : e0 ≠ 0) (heE : e0 ≠ ERR) (s : LexSt)
    (h : nextNW (strm s) ≠ some e0) : nnwsIs (e0 :: es) s = false := by
  unfold strm at h
  unfold nnwsIs
  by_cases hp : s.peek = 0
  · simp only [hp, ↓reduceIte, List.nil_append] at h
    simp only [hp, ne_eq, not_true_eq_false, decide_false, Bool.false_and, Bool.false_eq_true, ↓reduceIte]
    exact go_ne e0 es he0 heE s.line s.line.length (Nat.le_refl _) h
  · simp only [hp, ↓reduceIte, List.singleton_append] at h
    by_cases hw : isWS s.peek = true
    · simp only [ne_eq, hp, not_false_eq_true, decide_true, hw, Bool.not_true, Bool.and_false, Bool.false_eq_true, ↓reduceIte]
      exact go_ne e0 es he0 heE s.line s.line.length (Nat.le_refl _) (by simpa [nextNW, hw] using h)
    · have hw' : isWS s.peek = false := by simpa using hw
      have hne : s.peek ≠ e0 := by simpa [nextNW, hw'] using h
      simp [hp, hw', hne]

/-- a name that starts with a small letter is lexed by `lexNameCommon` -/
theorem lexTok_name_eq (strict : Bool) (pm : PfxMap) (c : Rune) (s : LexSt) (h1 : 97 ≤ c) (h2 : c ≤ 122) :
    lexTok strict .expr pm c s = lexNameCommon strict pm c s := by
  have h1' : (97 : Nat) ≤ c := h1
  have h2' : c ≤ (122 : Nat) := h2
  have hn : ∀ k : Nat, k < 97 → c ≠ k := fun k hk e => by
    have e' : @Eq Nat c k := e
    omega
  have hE : c ≠ ERR := by intro e; rw [e] at h2; simp [ERR] at h2
  have hd : isDigitR c = false := by
    simp only [isDigitR, Bool.and_eq_false_iff, decide_eq_false_iff_not]; right
    intro h; have h' : @LE.le Nat _ c 57 := h; omega
  have hns : nameStartCommon c = true := by simp [nameStartCommon, h1, h2]
  have h124 : c ≠ 124 := fun e => by
    rw [e] at h2; simp at h2
  simp only [lexTok, EOF, hn 0 (by omega), hE, ↓reduceIte, chr, Char.reduceToNat, hn 34 (by omega), hn 39 (by omega),
    hn 46 (by omega), hn 47 (by omega), hn 58 (by omega), hn 42 (by omega), hn 43 (by omega), hn 45 (by omega),
    hn 40 (by omega), hn 41 (by omega), hn 64 (by omega), hn 44 (by omega), hn 91 (by omega), hn 93 (by omega),
    hn 61 (by omega), hn 62 (by omega), hn 60 (by omega), hn 33 (by omega), decide_false, Bool.or_self, Bool.false_eq_true,
    hd, reduceCtorEq, hns, h124]

/-- the conditions on a written name (Bool, so that they can be decided for the names of the table) -/
def nameBodyOK (name : List Rune) : Bool :=
  match name with
  | [] => false
  | c :: rest => decide (97 ≤ c) && decide (c ≤ 122) && rest.all fun x => nameCharCommon x && decide (x ≠ 0) && decide (x ≠ ERR)

theorem nameBody_split {name : List Rune} (h : nameBodyOK name = true) :
    ∃ c rest, name = c :: rest ∧ 97 ≤ c ∧ c ≤ 122 ∧ ∀ x ∈ rest, nameCharCommon x = true ∧ okR x := by
  cases name with
  | nil => simp [nameBodyOK] at h
  | cons c rest =>
    simp only [nameBodyOK, Bool.and_eq_true, decide_eq_true_eq, List.all_eq_true] at h
    exact ⟨c, rest, rfl, h.1.1, h.1.2, fun x hx => ⟨(h.2 x hx).1.1, (h.2 x hx).1.2, (h.2 x hx).2⟩⟩

/-- the name token is read off the stream -/
theorem name_ct (c : Rune) (rest t : List Rune) (s : LexSt) (hr : ∀ x ∈ rest, nameCharCommon x = true ∧ okR x)
    (hs : strm s = rest ++ t) (ht : After nameCharCommon t) :
    ∃ s1, constructToken c nameCharCommon "NAME" s = (c :: rest, s1) ∧ strm s1 = t ∧ s1.prec = s.prec ∧ s1.err = s.err := by
  obtain ⟨b1, b2, b3, b4⟩ := ct_spec c nameCharCommon "NAME" rest t s
    (fun _ => by simp [nameCharCommon, nameStartCommon, isDigitR]) hr hs ht
  cases hct : constructToken c nameCharCommon "NAME" s with
  | mk b s1 =>
    rw [hct] at b1 b2 b3 b4
    simp only at b1 b2 b3 b4
    subst b1
    exact ⟨s1, rfl, b2, b3, b4⟩

/-- and / or / mod / div where an operator may stand -/
theorem lexTok_opname (strict : Bool) (pm : PfxMap) (name t : List Rune) (tok : Tok) (c : Rune) (rest : List Rune) (s : LexSt)
    (hn : (name = strR "and" ∧ tok = .and) ∨ (name = strR "or" ∧ tok = .or) ∨ (name = strR "mod" ∧ tok = .mod) ∨
      (name = strR "div" ∧ tok = .div))
    (hname : name = c :: rest) (hs : strm s = rest ++ t) (ht : After nameCharCommon t) (hop : canBeOperator s.prec = true) :
    Lexed (lexTok strict .expr pm c s) tok t s := by
  have hb : nameBodyOK name = true := by
    rcases hn with ⟨e, _⟩ | ⟨e, _⟩ | ⟨e, _⟩ | ⟨e, _⟩ <;> subst e <;> decide
  obtain ⟨c', rest', e, h1, h2, hr⟩ := nameBody_split hb
  rw [hname] at e
  cases e
  rw [lexTok_name_eq strict pm c s h1 h2]
  obtain ⟨s1, hct, g1, g2, g3⟩ := name_ct c rest t s hr hs ht
  unfold lexNameCommon
  rw [hct]
  simp only [g2, hop, ↓reduceIte]
  rw [← hname]
  rcases hn with ⟨e, rfl⟩ | ⟨e, rfl⟩ | ⟨e, rfl⟩ | ⟨e, rfl⟩ <;> subst e
  · simp only [↓reduceIte]; exact ⟨rfl, g1, g2, g3⟩
  · rw [if_neg (by decide), if_pos rfl]; exact ⟨rfl, g1, g2, g3⟩
  · rw [if_neg (by decide), if_neg (by decide), if_pos rfl]; exact ⟨rfl, g1, g2, g3⟩
  · rw [if_neg (by decide), if_neg (by decide), if_neg (by decide), if_pos rfl]; exact ⟨rfl, g1, g2, g3⟩

/-- what makes `name` the written form of the function `fn` -/
def fnameOK (name : List Rune) (fn : Fn) : Bool :=
  nameBodyOK name && decide (lookupFn name = some fn) && decide (name ≠ strR "text") && decide (name ≠ strR "current") &&
    decide (name ≠ strR "deref") && !isNodeType name

/-- a function name where no operator may stand, followed by `(`, possibly after white space -/
theorem lexTok_fname (strict : Bool) (pm : PfxMap) (name : List Rune) (fn : Fn) (c : Rune) (rest : List Rune) (s : LexSt)
    (ws r : List Rune) (hf : fnameOK name fn = true) (hname : name = c :: rest)
    (hs : strm s = rest ++ (ws ++ 40 :: r)) (hws : ∀ x ∈ ws, isWS x = true)
    (hop : canBeOperator s.prec = false) :
    Lexed (lexTok strict .expr pm c s) (.func fn) (ws ++ 40 :: r) s := by
  simp only [fnameOK, Bool.and_eq_true, decide_eq_true_eq, Bool.not_eq_true'] at hf
  obtain ⟨⟨⟨⟨⟨hb, hl⟩, ht⟩, hcur⟩, hde⟩, hnt⟩ := hf
  obtain ⟨c', rest', e, h1, h2, hr⟩ := nameBody_split hb
  rw [hname] at e
  cases e
  rw [lexTok_name_eq strict pm c s h1 h2]
  have haft : After nameCharCommon (ws ++ 40 :: r) := by
    cases ws with
    | nil => exact Or.inr ⟨40, r, rfl, by simp [nameCharCommon, nameStartCommon, isDigitR], by simp⟩
    | cons w ws' => exact after_ws _ (fun w => nameChar_ws) w _ (hws w (by simp))
  obtain ⟨s1, hct, g1, g2, g3⟩ := name_ct c rest _ s hr hs haft
  unfold lexNameCommon
  rw [hct]
  have hp := nnwsIs_paren s1 ws r hws g1
  simp only [g2, hop, Bool.false_eq_true, ↓reduceIte, hp]
  rw [← hname]
  simp only [ht, hcur, hde, hnt, ↓reduceIte, hl, Bool.false_eq_true]
  exact ⟨rfl, g1, g2, g3⟩

/-- a name where no operator may stand and neither `(` nor `:` follows: an unprefixed name test -/
theorem lexTok_nametest (strict : Bool) (pm : PfxMap) (name : List Rune) (c : Rune) (rest t : List Rune) (s : LexSt)
    (hb : nameBodyOK name = true) (hname : name = c :: rest) (hs : strm s = rest ++ t) (ht : After nameCharCommon t)
    (hop : canBeOperator s.prec = false) (h40 : nextNW t ≠ some 40) (h58 : nextNW t ≠ some 58) :
    Lexed (lexTok strict .expr pm c s) (.nametest [] name) t s := by
  obtain ⟨c', rest', e, h1, h2, hr⟩ := nameBody_split hb
  rw [hname] at e
  cases e
  rw [lexTok_name_eq strict pm c s h1 h2]
  obtain ⟨s1, hct, g1, g2, g3⟩ := name_ct c rest t s hr hs ht
  unfold lexNameCommon
  rw [hct]
  have hc40 : chr '(' = 40 := by simp [chr]
  have hc58 : chr ':' = 58 := by simp [chr]
  have n1 := nnwsIs_ne 40 [] (by simp) (by simp [ERR]) s1 (by rw [g1]; exact h40)
  have n2 := nnwsIs_ne 58 [58] (by simp) (by simp [ERR]) s1 (by rw [g1]; exact h58)
  have n3 := nnwsIs_ne 58 [] (by simp) (by simp [ERR]) s1 (by rw [g1]; exact h58)
  have hpfx : pfxOk pm [] = true := by cases pm <;> simp [pfxOk]
  simp only [g2, hop, Bool.false_eq_true, ↓reduceIte, hc40, hc58, n1, n2, n3, hpfx]
  rw [← hname]
  exact ⟨rfl, g1, g2, g3⟩

/-- `current` where no operator may stand, followed by `(` -/
theorem lexTok_current (strict : Bool) (pm : PfxMap) (s : LexSt) (ws r : List Rune)
    (hs : strm s = [117, 114, 114, 101, 110, 116] ++ (ws ++ 40 :: r)) (hws : ∀ x ∈ ws, isWS x = true)
    (hop : canBeOperator s.prec = false) :
    Lexed (lexTok strict .expr pm 99 s) .currentfunc (ws ++ 40 :: r) s := by
  rw [lexTok_name_eq strict pm 99 s (by decide) (by decide)]
  have haft : After nameCharCommon (ws ++ 40 :: r) := by
    cases ws with
    | nil => exact Or.inr ⟨40, r, rfl, by simp [nameCharCommon, nameStartCommon, isDigitR], by simp⟩
    | cons w ws' => exact after_ws _ (fun w => nameChar_ws) w _ (hws w (by simp))
  have hr : ∀ x ∈ [117, 114, 114, 101, 110, 116], nameCharCommon x = true ∧ okR x := by
    intro x hx
    simp only [List.mem_cons, List.mem_nil_iff, or_false] at hx
    rcases hx with rfl | rfl | rfl | rfl | rfl | rfl <;> simp [nameCharCommon, nameStartCommon, okR, ERR]
  obtain ⟨s1, hct, g1, g2, g3⟩ := name_ct 99 [117, 114, 114, 101, 110, 116] _ s hr hs haft
  unfold lexNameCommon
  rw [hct]
  have hp := nnwsIs_paren s1 ws r hws g1
  simp only [g2, hop, Bool.false_eq_true, ↓reduceIte, hp]
  have e1 : ([99, 117, 114, 114, 101, 110, 116] : List Rune) ≠ strR "text" := by decide
  have e2 : ([99, 117, 114, 114, 101, 110, 116] : List Rune) = strR "current" := by decide
  simp only [e1, e2, ↓reduceIte]
  exact ⟨rfl, g1, g2, g3⟩

/-- `NextNonWhitespace` when the next rune is not white space -/
theorem nextNonWS_now (s : LexSt) (c : Rune) (t : List Rune) (hs : strm s = c :: t) (hc : isWS c = false) (hc0 : c ≠ 0) :
    (nextNonWS s).1 = c ∧ strm (nextNonWS s).2 = t ∧ (nextNonWS s).2.peek = 0 ∧ (nextNonWS s).2.prec = s.prec ∧
      (nextNonWS s).2.err = s.err := by
  obtain ⟨h1, h2, h3, h4, h5⟩ := next_cons_strm s c t hs hc0
  unfold nextNonWS
  cases hn : next s with
  | mk n s1 =>
    rw [hn] at h1 h2 h3 h4 h5; simp only at h1 h2 h3 h4 h5; subst h1
    simp only [nextNonWS.go, hc, Bool.and_false, Bool.false_eq_true, ↓reduceIte]
    exact ⟨trivial, h2, h3, h4, h5⟩

/-- the first rune of the stream decides a one-rune look-ahead when it is not white space -/
theorem nnwsIs_one (e0 : Rune) (he0 : e0 ≠ 0) (heE : e0 ≠ ERR) (hw : isWS e0 = false) (s : LexSt) (r : List Rune)
    (hs : strm s = e0 :: r) : nnwsIs [e0] s = true := by
  unfold strm at hs
  unfold nnwsIs
  by_cases hp : s.peek = 0
  · simp only [hp, ↓reduceIte, List.nil_append] at hs
    simp only [hp, ne_eq, not_true_eq_false, decide_false, Bool.false_and, Bool.false_eq_true, ↓reduceIte]
    cases hl : s.line with
    | nil => simp [hl] at hs
    | cons p rest =>
      simp only [hl, List.map_cons, List.cons.injEq] at hs
      have hpE : p.cp ≠ ERR := by rw [hs.1]; exact heE
      simp only [peekLine_ok p rest hpE, hs.1]
      rw [skipWS_nonws _ e0 rest hw]
      simp [cmpRest, EOF, he0, heE]
  · simp only [hp, ↓reduceIte, List.singleton_append, List.cons.injEq] at hs
    simp [hs.1, hw, he0]

theorem cmpRest_eq (e0 : Rune) (es : List Rune) (l : List SrcRune) (h0 : e0 ≠ 0) (hE : e0 ≠ ERR) :
    cmpRest (e0 :: es) e0 l = cmpRest es (peekLine l).1 (peekLine l).2 := by
  rw [cmpRest]
  simp [EOF, h0, hE]

/-- `::` is not there when the rune after the colon is something else (and not white space) -/
theorem nnwsIs_colon2 (s : LexSt) (c2 : Rune) (r : List Rune) (hs : strm s = 58 :: c2 :: r) (h : c2 ≠ 58)
    (hw : isWS c2 = false) : nnwsIs [58, 58] s = false := by
  unfold strm at hs
  unfold nnwsIs
  by_cases hp : s.peek = 0
  · simp only [hp, ↓reduceIte, List.nil_append] at hs
    simp only [hp, ne_eq, not_true_eq_false, decide_false, Bool.false_and, Bool.false_eq_true, ↓reduceIte]
    cases hl : s.line with
    | nil => simp [hl] at hs
    | cons p rest =>
      simp only [hl, List.map_cons, List.cons.injEq] at hs
      have hpE : p.cp ≠ ERR := by rw [hs.1]; simp [ERR]
      simp only [peekLine_ok p rest hpE, hs.1]
      rw [skipWS_nonws _ 58 rest (by simp [isWS])]
      show cmpRest [58, 58] 58 rest = false
      rw [cmpRest_eq 58 [58] rest (by simp) (by simp [ERR])]
      cases rest with
      | nil => simp at hs
      | cons x xs =>
        simp only [List.map_cons, List.cons.injEq] at hs
        by_cases hE : (x.cp = ERR && x.w = 1) = true
        · simp only [peekLine, hE, ↓reduceIte]
          exact cmpRest_ne 58 [] ERR [] (by simp [ERR])
        · have hE' : (x.cp = ERR && x.w = 1) = false := by simpa using hE
          simp only [peekLine, hE', Bool.false_eq_true, ↓reduceIte]
          exact cmpRest_ne 58 [] x.cp xs (by rw [hs.2.1]; exact h)
  · simp only [hp, ↓reduceIte, List.singleton_append, List.cons.injEq] at hs
    have hpk : s.peek = 58 := hs.1
    have hgo := go_ne 58 [] (by simp) (by simp [ERR]) s.line s.line.length (Nat.le_refl _)
      (by rw [hs.2]; simp [nextNW, hw, h])
    simp [hpk, isWS]
    exact hgo

theorem ws_false_of {c : Rune} (h : c ≠ 9 ∧ c ≠ 13 ∧ c ≠ 10 ∧ c ≠ 32) : isWS c = false := by
  simp [isWS, h.1, h.2.1, h.2.2.1, h.2.2.2]

theorem tight_true (s : LexSt) (c : Rune) (t : List Rune) (hs : strm s = c :: t) (hc : isWS c = false) :
    (if ¬s.peek = 0 then !isWS s.peek else match s.line with | r :: _ => !isWS r.cp | [] => true) = true := by
  unfold strm at hs
  by_cases hp : s.peek = 0
  · simp only [hp, ↓reduceIte, List.nil_append] at hs
    simp only [hp, not_true_eq_false, ↓reduceIte]
    cases hl : s.line with
    | nil => simp [hl] at hs
    | cons x xs =>
      simp only [hl, List.map_cons, List.cons.injEq] at hs
      simp [hs.1, hc]
  · simp only [hp, ↓reduceIte, List.singleton_append, List.cons.injEq] at hs
    rw [if_pos hp, hs.1, hc]; rfl

theorem lower_facts {c : Rune} (h1 : 97 ≤ c) (h2 : c ≤ 122) :
    isWS c = false ∧ c ≠ 0 ∧ c ≠ 58 ∧ c ≠ 42 ∧ c ≠ 40 ∧ nameStartCommon c = true := by
  have h1' : (97 : Nat) ≤ c := h1
  refine ⟨ws_false_of ⟨?_, ?_, ?_, ?_⟩, ?_, ?_, ?_, ?_, by simp [nameStartCommon, h1, h2]⟩ <;>
    (intro e; rw [e] at h1'; simp at h1')

/-- a prefixed name `pfx:loc` where no operator may stand -/
theorem lexTok_pname (strict : Bool) (pm : PfxMap) (pfx loc : List Rune) (c : Rune) (rest : List Rune) (t : List Rune)
    (s : LexSt) (hb : nameBodyOK pfx = true) (hpx : pfx = c :: rest) (hlb : nameBodyOK loc = true)
    (hs : strm s = rest ++ 58 :: (loc ++ t)) (ht : After nameCharCommon t) (hop : canBeOperator s.prec = false)
    (hpm : pfxOk pm pfx = true) : Lexed (lexTok strict .expr pm c s) (.nametest pfx loc) t s := by
  obtain ⟨c', rest', e, h1, h2, hr⟩ := nameBody_split hb
  rw [hpx] at e
  cases e
  obtain ⟨c2, lrest, hloc, l1, l2, hlr⟩ := nameBody_split hlb
  obtain ⟨w2, z2, k58, k42, k40, ns2⟩ := lower_facts l1 l2
  rw [lexTok_name_eq strict pm c s h1 h2]
  obtain ⟨s1, hct, g1, g2, g3⟩ := name_ct c rest (58 :: (loc ++ t)) s hr hs
    (Or.inr ⟨58, _, rfl, by simp [nameCharCommon, nameStartCommon, isDigitR], by simp⟩)
  have g1' : strm s1 = 58 :: c2 :: (lrest ++ t) := by rw [g1, hloc]; rfl
  unfold lexNameCommon
  rw [hct]
  have hc40 : chr '(' = 40 := by simp [chr]
  have hc58 : chr ':' = 58 := by simp [chr]
  have hc42 : chr '*' = 42 := by simp [chr]
  have n1 := nnwsIs_ne 40 [] (by simp) (by simp [ERR]) s1 (by rw [g1']; simp [nextNW, isWS])
  have n2 := nnwsIs_colon2 s1 c2 (lrest ++ t) g1' k58 w2
  have n3 := nnwsIs_one 58 (by simp) (by simp [ERR]) (by simp [isWS]) s1 _ g1'
  have t1 := tight_true s1 58 _ g1' (by simp [isWS])
  obtain ⟨a1, a2, _, a4, a5⟩ := nextNonWS_now s1 58 _ g1' (by simp [isWS]) (by simp)
  cases hn1 : nextNonWS s1 with
  | mk x1 s2 =>
    rw [hn1] at a1 a2 a4 a5
    simp only at a1 a2 a4 a5
    subst a1
    have t2 := tight_true s2 c2 _ a2 w2
    have n4 := nnwsIs_ne 42 [] (by simp) (by simp [ERR]) s2 (by rw [a2]; simp [nextNW, w2, k42])
    obtain ⟨b1, b2, _, b4, b5⟩ := nextNonWS_now s2 c2 _ a2 w2 z2
    cases hn2 : nextNonWS s2 with
    | mk x2 s3 =>
      rw [hn2] at b1 b2 b4 b5
      simp only at b1 b2 b4 b5
      subst b1
      obtain ⟨s4, hct2, d1, d2, d3⟩ := name_ct x2 lrest t s3 hlr b2 ht
      simp only [g2, hop, Bool.false_eq_true, ↓reduceIte, hc40, hc58, hc42, n1, n2, n3, t1, Bool.not_true, Bool.and_false,
        hn1, ne_eq, not_true_eq_false, t2, n4, hn2, EOF, z2, ns2, hct2, ← hloc, ← hpx, hpm]
      have fin : Lexed (Tok.nametest pfx loc, s4) (.nametest pfx loc) t s :=
        ⟨rfl, d1, by rw [d2, b4, a4, g2], by rw [d3, b5, a5, g3]⟩
      cases strict with
      | false => simpa only [Bool.false_and, Bool.false_eq_true, ↓reduceIte] using fin
      | true =>
        simp only [Bool.true_and]
        rw [if_neg, if_neg]
        · exact fin
        · intro hb
          have hb' := (Bool.not_eq_true' _).mp hb
          exact absurd (hb'.symm.trans t2) (by simp)
        · intro hb
          have hb' := (Bool.not_eq_true' _).mp hb
          exact absurd (hb'.symm.trans t1) (by simp)

/-! ### from single tokens to the whole text -/

/-- `text` is a way of writing the token `tok` -/
inductive Writes : Tok → List Rune → Prop
  | sym (c : Rune) (h : symChar c = true) : Writes (.ch c) [c]
  | star : Writes (.ch (chr '*')) [chr '*']
  | eq : Writes .eq [chr '=']
  | lt : Writes .lt [chr '<']
  | gt : Writes .gt [chr '>']
  | le : Writes .le [chr '<', chr '=']
  | ge : Writes .ge [chr '>', chr '=']
  | ne : Writes .ne [chr '!', chr '=']
  | num (c : Rune) (ds : List Rune) (x : SF) (hc : isDigitR c = true) (hd : ∀ d ∈ ds, isDigitR d = true ∨ d = 46)
      (hx : parseGoFloat (c :: ds) = some x) : Writes (.num x) (c :: ds)
  | lit (q : Rune) (body : List Rune) (hq : q = 34 ∨ q = 39) (hb : ∀ x ∈ body, x ≠ q ∧ okR x) :
      Writes (.lit body) (q :: (body ++ [q]))
  | and : Writes .and (strR "and")
  | or : Writes .or (strR "or")
  | mod : Writes .mod (strR "mod")
  | div : Writes .div (strR "div")
  | func (fn : Fn) (name : List Rune) (h : fnameOK name fn = true) : Writes (.func fn) name
  | slash : Writes (.ch (chr '/')) [chr '/']
  | dotdot : Writes .dotdot [46, 46]
  | dot : Writes (.ch (chr '.')) [chr '.']
  | name (n : List Rune) (h : nameBodyOK n = true) : Writes (.nametest [] n) n
  | current : Writes .currentfunc (strR "current")
  | dblslash : Writes .dblslash [47, 47]
  | numdot (d : Rune) (ds : List Rune) (x : SF) (hd : isDigitR d = true) (hds : ∀ e ∈ ds, isDigitR e = true ∨ e = 46)
      (hx : parseGoFloat (46 :: d :: ds) = some x) : Writes (.num x) (46 :: d :: ds)
  | pname (pfx loc : List Rune) (h1 : nameBodyOK pfx = true) (h2 : nameBodyOK loc = true) :
      Writes (.nametest pfx loc) (pfx ++ 58 :: loc)
  | wild : Writes (.nametest [] [chr '*']) [chr '*']

/-- tokens that are read as operators only where an operator may stand -/
def needsOp : Tok → Bool
  | .and | .or | .mod | .div => true
  | .ch c => c = chr '*'
  | _ => false

/-- the conditions a token puts on its neighbours: `*` and the operator names follow an operand; a function
    name (and `current`) does not, and is followed by `(`; a name test does not, and is not followed by `(` -/
def ctxOK : Option Tok → List Tok → Prop
  | _, [] => True
  | prev, t :: r =>
    (needsOp t = true → canBeOperator prev = true) ∧
    (∀ fn, t = .func fn → canBeOperator prev = false ∧ r.head? = some (.ch (chr '('))) ∧
    (∀ p l, t = .nametest p l → canBeOperator prev = false ∧ r.head? ≠ some (.ch (chr '('))) ∧
    (t = .currentfunc → canBeOperator prev = false ∧ r.head? = some (.ch (chr '('))) ∧ ctxOK (some t) r

theorem lexTok_eof (strict : Bool) (g : Grammar) (pm : PfxMap) (s : LexSt) : lexTok strict g pm EOF s = (.eof, s) := by
  simp [lexTok]

/-- `lexCommon`: white space, then one token -/
theorem lexCommon_step (strict : Bool) (pm : PfxMap) (s : LexSt) (lead : List Rune) (c : Rune) (body : List Rune)
    (tok : Tok) (t : List Rune) (hl : ∀ x ∈ lead, isWS x = true) (hs : strm s = lead ++ c :: body)
    (hc : isWS c = false) (hc0 : c ≠ 0) (ht1 : tok ≠ .eof) (ht2 : tok ≠ .err)
    (H : ∀ s1, strm s1 = body → s1.prec = s.prec → s1.err = s.err → Lexed (lexTok strict .expr pm c s1) tok t s1) :
    ∃ s', lexCommon strict .expr pm s = (tok, s') ∧ strm s' = t ∧ s'.prec = some tok ∧ s'.err = s.err := by
  have hlen : lead.length ≤ s.line.length + 2 := by
    have := strm_len s
    rw [hs] at this
    simp at this
    omega
  obtain ⟨k1, k2, _, k4, k5⟩ := skip_tok lead (s.line.length + 2) s c body hlen hl hs hc hc0
  unfold lexCommon
  cases hsk : lexCommon.skip (s.line.length + 2) s with
  | mk c' s1 =>
    rw [hsk] at k1 k2 k4 k5
    simp only at k1 k2 k4 k5
    subst k1
    obtain ⟨l1, l2, l3, l4⟩ := H s1 k2 k4 k5
    cases hlt : lexTok strict .expr pm c' s1 with
    | mk t' s2 =>
      rw [hlt] at l1 l2 l3 l4
      simp only at l1 l2 l3 l4
      subst l1
      refine ⟨{ s2 with prec := some t' }, ?_, l2, rfl, by rw [← k5, ← l4]⟩
      simp [hlt, ht1, ht2]

theorem lexCommon_eof (strict : Bool) (pm : PfxMap) (s : LexSt) (lead : List Rune) (hl : ∀ x ∈ lead, isWS x = true)
    (hs : strm s = lead) : (lexCommon strict .expr pm s).1 = .eof := by
  have hlen : lead.length ≤ s.line.length + 2 := by
    have := strm_len s
    rw [hs] at this
    omega
  obtain ⟨k1, _, _, _⟩ := skip_eof lead (s.line.length + 2) s hlen hl hs
  unfold lexCommon
  cases hsk : lexCommon.skip (s.line.length + 2) s with
  | mk c' s1 =>
    rw [hsk] at k1
    simp only at k1
    subst k1
    simp [lexTok_eof]

theorem canOp_none_or (p : Option Tok) (h : canBeOperator p = true) : ∃ t, p = some t := by
  cases p with
  | none => simp [canBeOperator] at h
  | some t => exact ⟨t, rfl⟩

/-- what must not follow a token directly (it would be read as part of it) -/
def follow : Tok → Rune → Bool
  | .num _ => isNumChar
  | .and | .or | .mod | .div | .func _ | .nametest .. | .currentfunc => nameCharCommon
  | .lt | .gt => fun x => decide (x = 61)
  | .ch c => fun x => (decide (c = 47) && decide (x = 47)) || (decide (c = 46) && (decide (x = 46) || isDigitR x))
  | _ => fun _ => false

theorem after_congr {m m' : Rune → Bool} (h : ∀ x, m x = m' x) {t : List Rune} (ht : After m t) : After m' t := by
  rcases ht with rfl | ⟨w, r, rfl, hw, hw0⟩
  · exact Or.inl rfl
  · exact Or.inr ⟨w, r, rfl, by rw [← h]; exact hw, hw0⟩

/-- one written token, after any white space and before something that cannot continue it -/
theorem lexCommon_item (strict : Bool) (pm : PfxMap) (s : LexSt) (lead : List Rune) (tok : Tok) (text : List Rune)
    (rest : List Rune) (hl : ∀ x ∈ lead, isWS x = true) (hw : Writes tok text)
    (hs : strm s = lead ++ (text ++ rest)) (haft : After (follow tok) rest) (he : s.err = none)
    (hop : needsOp tok = true → canBeOperator s.prec = true)
    (hfn : ∀ fn, tok = .func fn → canBeOperator s.prec = false ∧
      ∃ ws r, rest = ws ++ 40 :: r ∧ ∀ x ∈ ws, isWS x = true)
    (hnt : ∀ p l, tok = .nametest p l → canBeOperator s.prec = false ∧ nextNW rest ≠ some 40 ∧ nextNW rest ≠ some 58)
    (hcur : tok = .currentfunc → canBeOperator s.prec = false ∧
      ∃ ws r, rest = ws ++ 40 :: r ∧ ∀ x ∈ ws, isWS x = true)
    (hpfx : ∀ p l, tok = .nametest p l → pfxOk pm p = true) :
    ∃ s', lexCommon strict .expr pm s = (tok, s') ∧ strm s' = rest ∧ s'.prec = some tok ∧ s'.err = none := by
  have wrap : ∀ (c : Rune) (body : List Rune), text = c :: body → isWS c = false → c ≠ 0 → tok ≠ .eof → tok ≠ .err →
      (∀ s1, strm s1 = body ++ rest → s1.prec = s.prec → s1.err = s.err →
        Lexed (lexTok strict .expr pm c s1) tok rest s1) →
      ∃ s', lexCommon strict .expr pm s = (tok, s') ∧ strm s' = rest ∧ s'.prec = some tok ∧ s'.err = none := by
    intro c body e h1 h2 h3 h4 H
    subst e
    obtain ⟨s', a, b, c', d⟩ := lexCommon_step strict pm s lead c (body ++ rest) tok rest hl
      (by simpa using hs) h1 h2 h3 h4 H
    exact ⟨s', a, b, c', by rw [d, he]⟩
  cases hw with
  | sym c h =>
    apply wrap c [] rfl
    · rcases symChar_cases h with rfl | rfl | rfl | rfl | rfl | rfl | rfl | rfl | rfl <;> simp [isWS]
    · rcases symChar_cases h with rfl | rfl | rfl | rfl | rfl | rfl | rfl | rfl | rfl <;> simp
    · simp
    · simp
    · intro s1 h1 _ _
      rw [lexTok_sym strict pm c s1 h]
      exact ⟨rfl, by simpa using h1, rfl, rfl⟩
  | star =>
    apply wrap (chr '*') [] rfl (by simp [isWS, chr]) (by simp [chr]) (by simp) (by simp)
    intro s1 h1 h2 _
    rw [lexTok_star strict pm s1 (by rw [h2]; exact hop (by simp [needsOp]))]
    exact ⟨rfl, by simpa using h1, rfl, rfl⟩
  | eq =>
    apply wrap (chr '=') [] rfl (by simp [isWS, chr]) (by simp [chr]) (by simp) (by simp)
    intro s1 h1 _ _
    rw [lexTok_eq]
    exact ⟨rfl, by simpa using h1, rfl, rfl⟩
  | lt =>
    apply wrap (chr '<') [] rfl (by simp [isWS, chr]) (by simp [chr]) (by simp) (by simp)
    intro s1 h1 _ _
    exact lexTok_ltgt strict pm s1 (chr '<') .lt rest (Or.inl ⟨rfl, rfl⟩) (by simpa using h1) haft
  | gt =>
    apply wrap (chr '>') [] rfl (by simp [isWS, chr]) (by simp [chr]) (by simp) (by simp)
    intro s1 h1 _ _
    exact lexTok_ltgt strict pm s1 (chr '>') .gt rest (Or.inr ⟨rfl, rfl⟩) (by simpa using h1) haft
  | le =>
    apply wrap (chr '<') [chr '='] rfl (by simp [isWS, chr]) (by simp [chr]) (by simp) (by simp)
    intro s1 h1 _ _
    exact lexTok_two strict pm s1 (chr '<') .le rest (Or.inl ⟨rfl, rfl⟩) (by simpa using h1)
  | ge =>
    apply wrap (chr '>') [chr '='] rfl (by simp [isWS, chr]) (by simp [chr]) (by simp) (by simp)
    intro s1 h1 _ _
    exact lexTok_two strict pm s1 (chr '>') .ge rest (Or.inr (Or.inl ⟨rfl, rfl⟩)) (by simpa using h1)
  | ne =>
    apply wrap (chr '!') [chr '='] rfl (by simp [isWS, chr]) (by simp [chr]) (by simp) (by simp)
    intro s1 h1 _ _
    exact lexTok_two strict pm s1 (chr '!') .ne rest (Or.inr (Or.inr ⟨rfl, rfl⟩)) (by simpa using h1)
  | num c ds x hc hd hx =>
    have hc' := hc
    simp only [isDigitR, Bool.and_eq_true, decide_eq_true_eq] at hc'
    have g1 : (48 : Nat) ≤ c := hc'.1
    have g2 : c ≤ (57 : Nat) := hc'.2
    apply wrap c ds rfl
    · apply ws_false_of
      refine ⟨?_, ?_, ?_, ?_⟩ <;> (intro e; rw [e] at g1; simp at g1)
    · intro e; rw [e] at g1; simp at g1
    · simp
    · simp
    · intro s1 h1 _ _
      exact lexTok_num strict pm c ds rest s1 x hc hd h1 haft hx
  | lit q body hq hb =>
    apply wrap q (body ++ [q]) rfl
    · rcases hq with rfl | rfl <;> simp [isWS]
    · rcases hq with rfl | rfl <;> simp
    · simp
    · simp
    · intro s1 h1 _ h3
      exact lexTok_lit strict pm q hq body rest s1 hb (by simpa using h1) (by rw [h3, he])
  | and =>
    apply wrap 97 [110, 100] (by decide) (by simp [isWS]) (by simp) (by simp) (by simp)
    intro s1 h1 h2 _
    exact lexTok_opname strict pm (strR "and") rest .and 97 [110, 100] s1 (Or.inl ⟨rfl, rfl⟩) (by decide) h1
      haft (by rw [h2]; exact hop (by simp [needsOp]))
  | or =>
    apply wrap 111 [114] (by decide) (by simp [isWS]) (by simp) (by simp) (by simp)
    intro s1 h1 h2 _
    exact lexTok_opname strict pm (strR "or") rest .or 111 [114] s1 (Or.inr (Or.inl ⟨rfl, rfl⟩)) (by decide) h1
      haft (by rw [h2]; exact hop (by simp [needsOp]))
  | mod =>
    apply wrap 109 [111, 100] (by decide) (by simp [isWS]) (by simp) (by simp) (by simp)
    intro s1 h1 h2 _
    exact lexTok_opname strict pm (strR "mod") rest .mod 109 [111, 100] s1 (Or.inr (Or.inr (Or.inl ⟨rfl, rfl⟩)))
      (by decide) h1 haft (by rw [h2]; exact hop (by simp [needsOp]))
  | div =>
    apply wrap 100 [105, 118] (by decide) (by simp [isWS]) (by simp) (by simp) (by simp)
    intro s1 h1 h2 _
    exact lexTok_opname strict pm (strR "div") rest .div 100 [105, 118] s1 (Or.inr (Or.inr (Or.inr ⟨rfl, rfl⟩)))
      (by decide) h1 haft (by rw [h2]; exact hop (by simp [needsOp]))
  | func fn name h =>
    have hf := h
    simp only [fnameOK, Bool.and_eq_true] at hf
    obtain ⟨c, body, e, g1, g2, _⟩ := nameBody_split hf.1.1.1.1.1
    have g1' : (97 : Nat) ≤ c := g1
    obtain ⟨hcan, ws, r, hrest, hws⟩ := hfn fn rfl
    apply wrap c body e
    · apply ws_false_of
      refine ⟨?_, ?_, ?_, ?_⟩ <;> (intro e'; rw [e'] at g1'; simp at g1')
    · intro e'; rw [e'] at g1'; simp at g1'
    · simp
    · simp
    · intro s1 h1 h2 _
      subst hrest
      exact lexTok_fname strict pm text fn c body s1 ws r h e h1 hws (by rw [h2]; exact hcan)

  | slash =>
    apply wrap (chr '/') [] rfl (by simp [isWS, chr]) (by simp [chr]) (by simp) (by simp)
    intro s1 h1 _ _
    exact lexTok_slash strict pm s1 rest (by simpa using h1)
      (after_congr (fun x => by simp [follow, chr]) haft)
  | dotdot =>
    apply wrap 46 [46] rfl (by simp [isWS]) (by simp) (by simp) (by simp)
    intro s1 h1 _ _
    exact lexTok_dotdot strict pm s1 rest (by simpa using h1)
  | dot =>
    apply wrap (chr '.') [] rfl (by simp [isWS, chr]) (by simp [chr]) (by simp) (by simp)
    intro s1 h1 _ _
    exact lexTok_dot strict pm s1 rest (by simpa using h1)
      (after_congr (fun x => by simp [follow, chr]) haft)
  | name n h =>
    obtain ⟨c, body, e, g1, g2, _⟩ := nameBody_split h
    have g1' : (97 : Nat) ≤ c := g1
    obtain ⟨hcan, h40, h58⟩ := hnt [] text rfl
    apply wrap c body e
    · apply ws_false_of
      refine ⟨?_, ?_, ?_, ?_⟩ <;> (intro e'; rw [e'] at g1'; simp at g1')
    · intro e'; rw [e'] at g1'; simp at g1'
    · simp
    · simp
    · intro s1 h1 h2 _
      exact lexTok_nametest strict pm text c body rest s1 h e h1 haft (by rw [h2]; exact hcan) h40 h58
  | current =>
    obtain ⟨hcan, ws, r, hrest, hws⟩ := hcur rfl
    apply wrap 99 [117, 114, 114, 101, 110, 116] (by decide) (by simp [isWS]) (by simp) (by simp) (by simp)
    intro s1 h1 h2 _
    subst hrest
    exact lexTok_current strict pm s1 ws r h1 hws (by rw [h2]; exact hcan)
  | dblslash =>
    apply wrap 47 [47] rfl (by simp [isWS]) (by simp) (by simp) (by simp)
    intro s1 h1 _ _
    obtain ⟨k1, k2, _, k4, k5⟩ := next_cons_strm s1 47 rest (by simpa using h1) (by simp)
    cases hn : next s1 with
    | mk n s2 =>
      rw [hn] at k1 k2 k4 k5; simp only at k1 k2 k4 k5; subst k1
      simp [lexTok, chr, EOF, ERR, isDigitR, hn, Lexed, k2, k4, k5]
  | numdot d ds x hd hds hx =>
    apply wrap 46 (d :: ds) rfl (by simp [isWS]) (by simp) (by simp) (by simp)
    intro s1 h1 _ _
    exact lexTok_numdot strict pm d ds rest s1 x hd hds (by simpa using h1) haft hx
  | pname pfx loc h1 h2 =>
    obtain ⟨c, body, e, g1, g2, _⟩ := nameBody_split h1
    obtain ⟨hcan, _, _⟩ := hnt pfx loc rfl
    obtain ⟨w, z, _⟩ := lower_facts g1 g2
    apply wrap c (body ++ 58 :: loc) (by rw [e]; rfl) w z (by simp) (by simp)
    intro s1 h1' h2' _
    exact lexTok_pname strict pm pfx loc c body rest s1 h1 e h2 (by simpa using h1') haft (by rw [h2']; exact hcan)
      (hpfx pfx loc rfl)
  | wild =>
    obtain ⟨hcan, _, _⟩ := hnt [] [chr '*'] rfl
    apply wrap (chr '*') [] rfl (by simp [isWS, chr]) (by simp [chr]) (by simp) (by simp)
    intro s1 h1 h2 _
    rw [lexTok_wild strict pm s1 (by rw [h2]; exact hcan)]
    exact ⟨rfl, by simpa using h1, rfl, rfl⟩

/-- a written token and the white space after it (possibly none) -/
structure Item where
  tok : Tok
  text : List Rune
  sep : List Rune

def Item.ok (i : Item) : Prop := Writes i.tok i.text ∧ ∀ x ∈ i.sep, isWS x = true

def renderX : List Item → List Rune
  | [] => []
  | i :: r => i.text ++ (i.sep ++ renderX r)

/-- where two tokens touch, the second does not begin with something that would continue the first -/
def glued : List Item → Prop
  | [] => True
  | i :: r => After (follow i.tok) (i.sep ++ renderX r) ∧ glued r

theorem follow_ws (t : Tok) (w : Rune) (h : isWS w = true) : follow t w = false := by
  have h47 : w ≠ 47 := by intro e; subst e; simp [isWS] at h
  have h46 : w ≠ 46 := by intro e; subst e; simp [isWS] at h
  have hd : isDigitR w = false := by
    simp only [isWS, Bool.or_eq_true, decide_eq_true_eq] at h
    rcases h with ((h | h) | h) | h <;> subst h <;> simp [isDigitR]
  cases t <;> simp [follow, isNumChar_ws h, nameChar_ws h, ws_ne_eq h, h47, h46, hd]

/-- tokens separated by white space never merge -/
theorem glued_of_spaced : ∀ (items : List Item), (∀ i ∈ items, i.ok ∧ i.sep ≠ []) → glued items := by
  intro items
  induction items with
  | nil => intro _; trivial
  | cons i r ih =>
    intro h
    refine ⟨?_, ih fun j hj => h j (by simp [hj])⟩
    obtain ⟨⟨_, hws⟩, hne⟩ := h i (by simp)
    cases hsep : i.sep with
    | nil => exact absurd hsep hne
    | cons w ws =>
      have hw : isWS w = true := hws w (by simp [hsep])
      exact Or.inr ⟨w, ws ++ renderX r, by simp, follow_ws _ _ hw, isWS_ne0 hw⟩

theorem writes_paren {text : List Rune} (h : Writes (.ch (chr '(')) text) : text = [40] := by
  generalize ht : Tok.ch (chr '(') = t at h
  cases h <;> first | cases ht | skip
  rfl

theorem writes_head {tok : Tok} {text : List Rune} (h : Writes tok text) :
    ∃ c body, text = c :: body ∧ isWS c = false ∧ c ≠ 58 ∧ (c = 40 → tok = .ch (chr '(')) := by
  cases h with
  | sym c h => exact ⟨c, [], rfl,
      by rcases symChar_cases h with rfl | rfl | rfl | rfl | rfl | rfl | rfl | rfl | rfl <;> simp [isWS],
      by rcases symChar_cases h with rfl | rfl | rfl | rfl | rfl | rfl | rfl | rfl | rfl <;> simp,
      fun e => by rw [e]; simp [chr]⟩
  | star => exact ⟨_, _, rfl, by simp [isWS, chr], by simp [chr], by simp [chr]⟩
  | eq => exact ⟨_, _, rfl, by simp [isWS, chr], by simp [chr], by simp [chr]⟩
  | lt => exact ⟨_, _, rfl, by simp [isWS, chr], by simp [chr], by simp [chr]⟩
  | gt => exact ⟨_, _, rfl, by simp [isWS, chr], by simp [chr], by simp [chr]⟩
  | le => exact ⟨_, _, rfl, by simp [isWS, chr], by simp [chr], by simp [chr]⟩
  | ge => exact ⟨_, _, rfl, by simp [isWS, chr], by simp [chr], by simp [chr]⟩
  | ne => exact ⟨_, _, rfl, by simp [isWS, chr], by simp [chr], by simp [chr]⟩
  | num c ds x hc hd hx =>
    simp only [isDigitR, Bool.and_eq_true, decide_eq_true_eq] at hc
    have g1 : (48 : Nat) ≤ c := hc.1
    have g2 : c ≤ (57 : Nat) := hc.2
    refine ⟨c, ds, rfl, ws_false_of ⟨?_, ?_, ?_, ?_⟩, ?_, ?_⟩ <;> (intro e; rw [e] at g1 g2; simp at g1 g2)
  | lit q body hq hb => exact ⟨q, _, rfl, by rcases hq with rfl | rfl <;> simp [isWS],
      by rcases hq with rfl | rfl <;> simp, fun e => by rcases hq with rfl | rfl <;> simp at e⟩
  | and => exact ⟨97, [110, 100], by decide, by simp [isWS], by simp, by simp⟩
  | or => exact ⟨111, [114], by decide, by simp [isWS], by simp, by simp⟩
  | mod => exact ⟨109, [111, 100], by decide, by simp [isWS], by simp, by simp⟩
  | div => exact ⟨100, [105, 118], by decide, by simp [isWS], by simp, by simp⟩
  | func fn name h =>
    simp only [fnameOK, Bool.and_eq_true] at h
    obtain ⟨c, body, e, g1, g2, _⟩ := nameBody_split h.1.1.1.1.1
    have g1' : (97 : Nat) ≤ c := g1
    refine ⟨c, body, e, ws_false_of ⟨?_, ?_, ?_, ?_⟩, ?_, ?_⟩ <;> (intro e'; rw [e'] at g1'; simp at g1')
  | slash => exact ⟨_, _, rfl, by simp [isWS, chr], by simp [chr], by simp [chr]⟩
  | dotdot => exact ⟨46, [46], rfl, by simp [isWS], by simp, by simp⟩
  | dot => exact ⟨_, _, rfl, by simp [isWS, chr], by simp [chr], by simp [chr]⟩
  | name n h =>
    obtain ⟨c, body, e, g1, g2, _⟩ := nameBody_split h
    have g1' : (97 : Nat) ≤ c := g1
    refine ⟨c, body, e, ws_false_of ⟨?_, ?_, ?_, ?_⟩, ?_, ?_⟩ <;> (intro e'; rw [e'] at g1'; simp at g1')
  | current => exact ⟨99, [117, 114, 114, 101, 110, 116], by decide, by simp [isWS], by simp, by simp⟩
  | dblslash => exact ⟨47, [47], rfl, by simp [isWS], by simp, by simp⟩
  | numdot d ds x hd hds hx => exact ⟨46, d :: ds, rfl, by simp [isWS], by simp, by simp⟩
  | pname pfx loc h1 h2 =>
    obtain ⟨c, body, e, g1, g2, _⟩ := nameBody_split h1
    obtain ⟨w, _, k58, _, k40, _⟩ := lower_facts g1 g2
    exact ⟨c, body ++ 58 :: loc, by rw [e]; rfl, w, k58, fun e' => absurd e' k40⟩
  | wild => exact ⟨_, _, rfl, by simp [isWS, chr], by simp [chr], by simp [chr]⟩

/-- the lexer's token stream for a text written as tokens, white space between them where they would merge -/
theorem lex_items (strict : Bool) (pm : PfxMap) : ∀ (items : List Item) (fuel : Nat) (s : LexSt) (lead : List Rune),
    items.length < fuel → (∀ x ∈ lead, isWS x = true) → strm s = lead ++ renderX items → s.err = none →
    (∀ i ∈ items, i.ok) → glued items → ctxOK s.prec (items.map (·.tok)) →
    (∀ i ∈ items, ∀ p l, i.tok = .nametest p l → pfxOk pm p = true) →
    (lexAllAux strict .expr pm fuel s).1.map (·.tok) = items.map (·.tok) ++ [.eof] := by
  intro items
  induction items with
  | nil =>
    intro fuel s lead hf hl hs _ _ _ _ _
    cases fuel with
    | zero => simp at hf
    | succ f =>
      have h := lexCommon_eof strict pm s lead hl (by simpa [renderX] using hs)
      unfold lexAllAux
      cases hc : lexCommon strict .expr pm s with
      | mk t s1 =>
        rw [hc] at h
        simp only at h
        subst h
        simp [mapTok]
  | cons i r ih =>
    intro fuel s lead hf hl hs he hok hgl hctx hpf
    cases fuel with
    | zero => simp at hf
    | succ f =>
      obtain ⟨hw, hws⟩ := hok i (by simp)
      obtain ⟨hg1, hg2⟩ := hgl
      simp only [List.map_cons, ctxOK] at hctx
      obtain ⟨c1, c2, cn, cc, c3⟩ := hctx
      have hparen : r.head?.map (·.tok) = some (.ch (chr '(')) →
          ∃ ws r', i.sep ++ renderX r = ws ++ 40 :: r' ∧ ∀ x ∈ ws, isWS x = true := by
        intro d2
        cases r with
        | nil => simp at d2
        | cons j r' =>
          simp only [List.head?_cons, Option.map_some, Option.some.injEq] at d2
          have hj := (hok j (by simp)).1
          rw [d2] at hj
          have := writes_paren hj
          exact ⟨i.sep, j.sep ++ renderX r', by simp [renderX, this], hws⟩
      have hnt : ∀ p l, i.tok = .nametest p l → canBeOperator s.prec = false ∧
          nextNW (i.sep ++ renderX r) ≠ some 40 ∧ nextNW (i.sep ++ renderX r) ≠ some 58 := by
        intro p l e
        obtain ⟨d1, d2⟩ := cn p l e
        refine ⟨d1, ?_⟩
        rw [nextNW_ws _ _ hws]
        cases r with
        | nil => simp [renderX, nextNW]
        | cons j r' =>
          obtain ⟨c, body, e1, e2, e3, e4⟩ := writes_head (hok j (by simp)).1
          simp only [List.map_cons, List.head?_cons, ne_eq, Option.some.injEq] at d2
          simp only [renderX, e1, List.cons_append, nextNW, e2, Bool.false_eq_true, ↓reduceIte, ne_eq, Option.some.injEq]
          exact ⟨fun e => d2 (e4 e), e3⟩
      have hcur : i.tok = .currentfunc → canBeOperator s.prec = false ∧
          ∃ ws r', i.sep ++ renderX r = ws ++ 40 :: r' ∧ ∀ x ∈ ws, isWS x = true := by
        intro e
        obtain ⟨d1, d2⟩ := cc e
        exact ⟨d1, hparen (by simpa [List.head?_map] using d2)⟩
      have hfn : ∀ fn, i.tok = .func fn → canBeOperator s.prec = false ∧
          ∃ ws r', i.sep ++ renderX r = ws ++ 40 :: r' ∧ ∀ x ∈ ws, isWS x = true := by
        intro fn e
        obtain ⟨d1, d2⟩ := c2 fn e
        refine ⟨d1, ?_⟩
        cases r with
        | nil => simp at d2
        | cons j r' =>
          simp only [List.map_cons, List.head?_cons, Option.some.injEq] at d2
          have hj := (hok j (by simp)).1
          rw [d2] at hj
          have := writes_paren hj
          exact ⟨i.sep, j.sep ++ renderX r', by simp [renderX, this], hws⟩
      obtain ⟨s', k1, k2, k3, k4⟩ := lexCommon_item strict pm s lead i.tok i.text (i.sep ++ renderX r) hl hw
        (by simpa [renderX] using hs) hg1 he c1 hfn hnt hcur (hpf i (by simp))
      have hne : i.tok ≠ .eof ∧ i.tok ≠ .err := by
        generalize i.tok = t at hw
        generalize i.text = tx at hw
        cases hw <;> simp
      unfold lexAllAux
      simp only [k1, hne.1, hne.2, decide_false, Bool.or_self, Bool.false_eq_true, ↓reduceIte]
      have := ih f s' i.sep (by simp at hf; omega) hws k2 k4 (fun j hj => hok j (by simp [hj])) hg2
        (by rw [k3]; exact c3) (fun j hj => hpf j (by simp [hj]))
      cases hr : lexAllAux strict .expr pm f s' with
      | mk l sf =>
        rw [hr] at this
        simp only at this
        simp [this, mapTok]

end YV.XL
