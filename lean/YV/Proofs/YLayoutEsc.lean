/-
  Proofs.YLayoutEsc — the layout theorem of Proofs.YLayout extended to texts that contain the escapes \" and
  \\ (any number, anywhere): substitution and line layout do not interfere, whichever is done first.
-/
import YV.Proofs.YLayout
namespace YV.YS
open YV YV.Y

/-- every backslash starts one of the pairs \" or \\ -/
def safe : Bytes → Bool
  | [] => true
  | 92 :: c :: r => (c = 34 || c = 92) && safe r
  | [92] => false
  | _ :: r => safe r

theorem safe_cons_ne (c : Nat) (r : Bytes) (h : c ≠ 92) : safe (c :: r) = safe r := by
  cases r <;> simp [safe, h]

theorem safe_pair (c : Nat) (r : Bytes) : safe (92 :: c :: r) = ((c = 34 || c = 92) && safe r) := by
  simp [safe]

theorem unescape_pair_safe (c : Nat) (r : Bytes) (h : c = 34 ∨ c = 92) : unescape (92 :: c :: r) = c :: unescape r := by
  rcases h with rfl | rfl <;> simp [unescape]

/-- induction along the pair structure of a safe text -/
theorem safe_induction {P : Bytes → Prop} (nil : P [])
    (pair : ∀ c r, (c = 34 ∨ c = 92) → safe r = true → P r → P (92 :: c :: r))
    (other : ∀ c r, c ≠ 92 → safe r = true → P r → P (c :: r)) :
    ∀ l, safe l = true → P l := by
  intro l
  induction h : l.length using Nat.strongRecOn generalizing l with
  | _ n ih =>
    intro hs
    cases l with
    | nil => exact nil
    | cons a t =>
      by_cases ha : a = 92
      · subst ha
        cases t with
        | nil => simp [safe] at hs
        | cons c r =>
          rw [safe_pair] at hs
          simp only [Bool.and_eq_true, Bool.or_eq_true, decide_eq_true_eq] at hs
          exact pair c r hs.1 hs.2 (ih r.length (by simp at h; omega) r rfl hs.2)
      · rw [safe_cons_ne a t ha] at hs
        exact other a t ha hs (ih t.length (by simp at h; omega) t rfl hs)

/-- substitution distributes over concatenation after a safe text -/
theorem unescape_append_safe (a b : Bytes) (h : safe a = true) : unescape (a ++ b) = unescape a ++ unescape b := by
  revert h
  refine safe_induction (P := fun a => unescape (a ++ b) = unescape a ++ unescape b) ?_ ?_ ?_ a
  · simp [unescape]
  · intro c r hc _ ih
    simp only [List.cons_append]
    rw [unescape_pair_safe c _ hc, unescape_pair_safe c _ hc, ih]; rfl
  · intro c r hc _ ih
    simp only [List.cons_append]
    rw [unescape_ne c _ hc, unescape_ne c _ hc, ih]; rfl

theorem safe_append (a b : Bytes) (ha : safe a = true) (hb : safe b = true) : safe (a ++ b) = true := by
  revert ha
  refine safe_induction (P := fun a => safe (a ++ b) = true) ?_ ?_ ?_ a
  · simpa using hb
  · intro c r hc _ ih
    simp only [List.cons_append, safe_pair, ih, Bool.and_true]
    rcases hc with rfl | rfl <;> simp
  · intro c r hc _ ih
    simp only [List.cons_append]
    rw [safe_cons_ne c _ hc]; exact ih

/-- a safe text cut in front of a byte that cannot end a pair: both halves are safe -/
theorem safe_split (a : Bytes) (x : Nat) (b : Bytes) (hx : x ≠ 34 ∧ x ≠ 92) (h : safe (a ++ x :: b) = true) :
    safe a = true ∧ safe (x :: b) = true := by
  induction hl : a.length using Nat.strongRecOn generalizing a with
  | _ n ih =>
    cases a with
    | nil => exact ⟨rfl, by simpa using h⟩
    | cons c t =>
      by_cases hc : c = 92
      · subst hc
        cases t with
        | nil =>
          simp only [List.cons_append, List.nil_append, safe_pair, Bool.and_eq_true, Bool.or_eq_true, decide_eq_true_eq] at h
          omega
        | cons d r =>
          simp only [List.cons_append, safe_pair, Bool.and_eq_true] at h ⊢
          obtain ⟨h1, h2⟩ := h
          have := ih r.length (by simp at hl; omega) r h2 rfl
          exact ⟨⟨h1, this.1⟩, this.2⟩
      · simp only [List.cons_append] at h
        rw [safe_cons_ne c _ hc] at h
        have := ih t.length (by simp at hl; omega) t h rfl
        rw [safe_cons_ne c _ hc]
        exact this


theorem no92_replicate (k : Nat) : No92 (List.replicate k 32) := by
  intro x hx; simp only [List.mem_replicate] at hx; omega

theorem unescape_eq_nil (l : Bytes) (hs : safe l = true) (h : unescape l = []) : l = [] := by
  revert h
  refine safe_induction (P := fun l => unescape l = [] → l = []) ?_ ?_ ?_ l hs
  · intro _; rfl
  · intro c r hc _ _ h; rw [unescape_pair_safe c r hc] at h; cases h
  · intro c r hc _ _ h; rw [unescape_ne c r hc] at h; cases h

/-- column stripping and substitution commute on safe lines, and what is left is safe -/
theorem stripColumns_unescape (col : Nat) (l : Bytes) (hs : safe l = true) :
    ∀ w, stripColumns col w (unescape l) = unescape (stripColumns col w l) ∧ safe (stripColumns col w l) = true := by
  refine safe_induction (P := fun l => ∀ w, stripColumns col w (unescape l) = unescape (stripColumns col w l) ∧
      safe (stripColumns col w l) = true) ?_ ?_ ?_ l hs
  · intro w; simp [stripColumns, unescape, safe]
  · intro c r hc hr _ w
    have hsafe : safe (92 :: c :: r) = true := by
      rw [safe_pair, hr]; rcases hc with rfl | rfl <;> simp
    have h1 : stripColumns col w (92 :: c :: r) = 92 :: c :: r := by
      simp only [stripColumns]; split
      · rfl
      · simp
    have h2 : stripColumns col w (c :: unescape r) = c :: unescape r := by
      simp only [stripColumns]; split
      · rfl
      · rcases hc with rfl | rfl <;> simp
    rw [unescape_pair_safe c r hc, h1, h2, unescape_pair_safe c r hc]
    exact ⟨rfl, hsafe⟩
  · intro c r hc hr ih w
    rw [unescape_ne c r hc]
    simp only [stripColumns]
    split
    · rw [unescape_ne c r hc]; exact ⟨rfl, by rw [safe_cons_ne c r hc]; exact hr⟩
    · split
      · exact ih _
      · split
        · split
          · rw [unescape_append_no92 _ _ (no92_replicate _)]
            exact ⟨rfl, safe_append _ _ (by
              have : ∀ k, safe (List.replicate k 32) = true := by
                intro k; induction k with
                | zero => rfl
                | succ k ih => rw [List.replicate_succ, safe_cons_ne 32 _ (by omega)]; exact ih
              exact this _) hr⟩
          · exact ih _
        · rw [unescape_ne c r hc]; exact ⟨rfl, by rw [safe_cons_ne c r hc]; exact hr⟩


def blank (c : Nat) : Bool := c = 32 || c = 9

theorem dropWhile_append' {α} (p : α → Bool) (l m : List α) :
    (l ++ m).dropWhile p = if l.dropWhile p = [] then m.dropWhile p else l.dropWhile p ++ m := by
  induction l with
  | nil => simp
  | cons a t ih =>
    by_cases h : p a
    · simp [List.dropWhile, h, ih]
    · simp [List.dropWhile, h]

/-- trailing-blank stripping, read from the left -/
theorem stripTrailing_cons (c : Nat) (r : Bytes) :
    stripTrailing (c :: r) = if stripTrailing r = [] ∧ blank c = true then [] else c :: stripTrailing r := by
  unfold stripTrailing
  simp only [List.reverse_cons, dropWhile_append']
  by_cases hd : List.dropWhile (fun c => decide (c = 32) || decide (c = 9)) r.reverse = []
  · simp only [hd, ↓reduceIte, List.reverse_nil, true_and]
    by_cases hb : blank c = true
    · have : (decide (c = 32) || decide (c = 9)) = true := hb
      simp [List.dropWhile, this, hb]
    · have : (decide (c = 32) || decide (c = 9)) = false := by simpa [blank] using hb
      simp [List.dropWhile, this, hb]
  · have hne : (List.dropWhile (fun c => decide (c = 32) || decide (c = 9)) r.reverse).reverse ≠ [] := by simpa using hd
    simp [hd, hne]

theorem stripTrailing_nil : stripTrailing [] = [] := rfl

/-- trailing-blank stripping and substitution commute on safe lines -/
theorem stripTrailing_unescape (l : Bytes) (hs : safe l = true) :
    stripTrailing (unescape l) = unescape (stripTrailing l) ∧ safe (stripTrailing l) = true := by
  refine safe_induction (P := fun l => stripTrailing (unescape l) = unescape (stripTrailing l) ∧
      safe (stripTrailing l) = true) ?_ ?_ ?_ l hs
  · simp [unescape, stripTrailing_nil, safe]
  · intro c r hc hr ih
    have hcb : blank c = false := by rcases hc with rfl | rfl <;> simp [blank]
    have h92 : blank 92 = false := by simp [blank]
    rw [unescape_pair_safe c r hc, stripTrailing_cons c (unescape r), stripTrailing_cons 92 (c :: r), stripTrailing_cons c r]
    simp only [hcb, h92, Bool.false_eq_true, and_false, ↓reduceIte]
    rw [unescape_pair_safe c _ hc, ih.1]
    refine ⟨rfl, ?_⟩
    rw [safe_pair, ih.2]; rcases hc with rfl | rfl <;> simp
  · intro c r hc hr ih
    rw [unescape_ne c r hc, stripTrailing_cons c (unescape r), stripTrailing_cons c r, ih.1]
    have hiff : (unescape (stripTrailing r) = []) ↔ (stripTrailing r = []) :=
      ⟨fun h => unescape_eq_nil _ ih.2 h, fun h => by rw [h]; rfl⟩
    by_cases hcond : stripTrailing r = [] ∧ blank c = true
    · have : unescape (stripTrailing r) = [] ∧ blank c = true := ⟨hiff.mpr hcond.1, hcond.2⟩
      simp [hcond, this, unescape, safe]
    · have : ¬ (unescape (stripTrailing r) = [] ∧ blank c = true) := fun h => hcond ⟨hiff.mp h.1, h.2⟩
      simp only [hcond, this, ↓reduceIte]
      rw [unescape_ne c _ hc]
      exact ⟨rfl, by rw [safe_cons_ne c _ hc]; exact ih.2⟩


/-- a safe line ends with CR exactly when its substituted form does -/
theorem unescape_last13 (l : Bytes) (hs : safe l = true) :
    ∀ x, (unescape l).reverse = 13 :: x → ∃ y, l.reverse = 13 :: y := by
  refine safe_induction (P := fun l => ∀ x, (unescape l).reverse = 13 :: x → ∃ y, l.reverse = 13 :: y) ?_ ?_ ?_ l hs
  · intro x h; simp [unescape] at h
  · intro c r hc hr ih x h
    rw [unescape_pair_safe c r hc, List.reverse_cons] at h
    cases hu : (unescape r).reverse with
    | nil =>
      rw [hu] at h; simp at h
      rcases hc with rfl | rfl <;> omega
    | cons a t =>
      rw [hu] at h
      simp only [List.cons_append, List.cons.injEq] at h
      obtain ⟨ha, _⟩ := h
      subst ha
      obtain ⟨y, hy⟩ := ih t hu
      exact ⟨y ++ [c, 92], by simp [hy]⟩
  · intro c r hc hr ih x h
    rw [unescape_ne c r hc, List.reverse_cons] at h
    cases hu : (unescape r).reverse with
    | nil =>
      rw [hu] at h; simp at h
      have hr0 : r = [] := unescape_eq_nil r hr (by simpa using hu)
      subst hr0
      exact ⟨[], by simp [h.1]⟩
    | cons a t =>
      rw [hu] at h
      simp only [List.cons_append, List.cons.injEq] at h
      obtain ⟨ha, _⟩ := h
      subst ha
      obtain ⟨y, hy⟩ := ih t hu
      exact ⟨y ++ [c], by simp [hy]⟩

def crSplit (l : Bytes) : Bytes × Bytes :=
  match l.reverse with
  | 13 :: b => (b.reverse, [13, 10])
  | _ => (l, [10])

theorem sLine_crSplit (col n i : Nat) (l : Bytes) :
    sLine col n i l =
      (let tb : Bytes × Bytes := if i + 1 = n then (l, []) else crSplit l
       let l1 := if i > 0 then stripColumns col 0 tb.1 else tb.1
       let l2 := if tb.2.isEmpty then l1 else stripTrailing l1
       l2 ++ tb.2) := rfl

theorem crSplit_cr (b : Bytes) : crSplit (b ++ [13]) = (b, [13, 10]) := by
  unfold crSplit; simp

theorem crSplit_nocr (l : Bytes) (h : ∀ y, l.reverse ≠ 13 :: y) : crSplit l = (l, [10]) := by
  unfold crSplit
  split
  · rename_i b hb; exact absurd hb (h b)
  · rfl

/-- **per line, layout and substitution commute** -/
theorem sLine_unescape (col n i : Nat) (l : Bytes) (hs : safe l = true) :
    sLine col n i (unescape l) = unescape (sLine col n i l) ∧ safe (sLine col n i l) = true := by
  -- the two layout steps on a safe text `t` followed by a line break `br`
  have core : ∀ (t br : Bytes), safe t = true → No92 br →
      (let l1 := if i > 0 then stripColumns col 0 (unescape t) else unescape t
       let l2 := if br.isEmpty then l1 else stripTrailing l1
       l2 ++ br) =
      unescape ((let l1 := if i > 0 then stripColumns col 0 t else t
                 let l2 := if br.isEmpty then l1 else stripTrailing l1
                 l2) ++ br) ∧
      safe ((let l1 := if i > 0 then stripColumns col 0 t else t
             let l2 := if br.isEmpty then l1 else stripTrailing l1
             l2) ++ br) = true := by
    intro t br ht hbr
    have hbs : safe br = true := by
      have : ∀ b : Bytes, No92 b → safe b = true := by
        intro b; induction b with
        | nil => intro _; rfl
        | cons c r ih => intro h; rw [safe_cons_ne c r (h c (by simp))]; exact ih (fun x hx => h x (by simp [hx]))
      exact this br hbr
    have hbu : unescape br = br := unescape_no92 br hbr
    simp only []
    have h1 : (if i > 0 then stripColumns col 0 (unescape t) else unescape t) =
        unescape (if i > 0 then stripColumns col 0 t else t) ∧ safe (if i > 0 then stripColumns col 0 t else t) = true := by
      split
      · exact stripColumns_unescape col t ht 0
      · exact ⟨rfl, ht⟩
    rw [h1.1]
    generalize (if i > 0 then stripColumns col 0 t else t) = t1 at h1 ⊢
    split
    · rw [unescape_append_safe _ _ h1.2, hbu]
      exact ⟨rfl, safe_append _ _ h1.2 hbs⟩
    · have h2 := stripTrailing_unescape t1 h1.2
      rw [h2.1, unescape_append_safe _ _ h2.2, hbu]
      exact ⟨rfl, safe_append _ _ h2.2 hbs⟩
  rw [sLine_crSplit, sLine_crSplit]
  by_cases hlast : i + 1 = n
  · simp only [hlast, ↓reduceIte]
    exact core l [] hs (fun x hx => by cases hx)
  · simp only [hlast, ↓reduceIte]
    by_cases hcr : ∃ b, l = b ++ [13]
    · obtain ⟨b, rfl⟩ := hcr
      have hsp := safe_split b 13 [] (by omega) hs
      have hu : unescape (b ++ [13]) = unescape b ++ [13] := by
        rw [unescape_append_safe _ _ hsp.1]; rfl
      rw [hu, crSplit_cr, crSplit_cr]
      exact core b [13, 10] hsp.1 (fun y hy => by simp at hy; omega)
    · have hno : ∀ y, l.reverse ≠ 13 :: y := by
        intro y hy
        exact hcr ⟨y.reverse, by have := congrArg List.reverse hy; simpa using this⟩
      have hno2 : ∀ y, (unescape l).reverse ≠ 13 :: y := by
        intro y hy
        obtain ⟨z, hz⟩ := unescape_last13 l hs y hy
        exact hno z hz
      rw [crSplit_nocr l hno, crSplit_nocr _ hno2]
      exact core l [10] hs (fun y hy => by simp at hy; omega)


/-! ### lines -/

def consHead (p : Bytes) : List Bytes → List Bytes
  | [] => [p]
  | l :: ls => (p ++ l) :: ls

theorem splitLF_go_eq (s cur : Bytes) (acc : List Bytes) :
    splitLF.go cur acc s = acc.reverse ++ consHead cur.reverse (splitLF s) := by
  induction s generalizing cur acc with
  | nil => simp [splitLF, splitLF.go, consHead]
  | cons c r ih =>
    have hsplit : splitLF (c :: r) = splitLF.go [] [] (c :: r) := rfl
    by_cases hc : c = 10
    · subst hc
      simp only [splitLF.go, ↓reduceIte] at hsplit ⊢
      rw [hsplit, ih [] (cur.reverse :: acc), ih [] [[].reverse]]
      cases splitLF r <;> simp [consHead]
    · simp only [splitLF.go, hc, ↓reduceIte] at hsplit ⊢
      rw [ih (c :: cur) acc, hsplit, ih [c] []]
      simp only [List.reverse_cons, List.reverse_nil, List.nil_append]
      cases splitLF r <;> simp [consHead]

theorem splitLF_nil : splitLF [] = [[]] := rfl

theorem go_ne_nil (s cur : Bytes) (acc : List Bytes) : splitLF.go cur acc s ≠ [] := by
  induction s generalizing cur acc with
  | nil => simp [splitLF.go]
  | cons c r ih => simp only [splitLF.go]; split <;> exact ih _ _

theorem splitLF_ne_nil (s : Bytes) : splitLF s ≠ [] := go_ne_nil s [] []

theorem splitLF_lf (r : Bytes) : splitLF (10 :: r) = [] :: splitLF r := by
  show splitLF.go [] [] (10 :: r) = _
  simp only [splitLF.go, ↓reduceIte]
  rw [splitLF_go_eq]
  cases h : splitLF r with
  | nil => exact absurd h (splitLF_ne_nil r)
  | cons l ls => simp [consHead]

theorem splitLF_ne (c : Nat) (r : Bytes) (h : c ≠ 10) : splitLF (c :: r) = consHead [c] (splitLF r) := by
  show splitLF.go [] [] (c :: r) = _
  simp only [splitLF.go, h, ↓reduceIte]
  rw [splitLF_go_eq]; simp

/-- the lines of the substituted text are the substituted lines, and every line of a safe text is safe -/
theorem splitLF_unescape (raw : Bytes) (hs : safe raw = true) :
    splitLF (unescape raw) = (splitLF raw).map unescape ∧ ∀ l ∈ splitLF raw, safe l = true := by
  refine safe_induction (P := fun raw => splitLF (unescape raw) = (splitLF raw).map unescape ∧
      ∀ l ∈ splitLF raw, safe l = true) ?_ ?_ ?_ raw hs
  · simp [unescape, splitLF_nil, safe]
  · intro c r hc hr ih
    have hc10 : c ≠ 10 := by rcases hc with rfl | rfl <;> omega
    rw [unescape_pair_safe c r hc, splitLF_ne c _ hc10, ih.1, splitLF_ne 92 _ (by omega), splitLF_ne c r hc10]
    cases hl : splitLF r with
    | nil => exact absurd hl (splitLF_ne_nil r)
    | cons l0 ls =>
      have hs0 : safe l0 = true := ih.2 l0 (by rw [hl]; simp)
      constructor
      · simp only [List.map_cons, consHead, List.cons_append, List.nil_append]
        rw [unescape_pair_safe c l0 hc]
      · intro l hl'
        simp only [consHead, List.cons_append, List.nil_append, List.mem_cons] at hl'
        rcases hl' with rfl | hl'
        · rw [safe_pair, hs0]; rcases hc with rfl | rfl <;> simp
        · exact ih.2 l (by rw [hl]; simp [hl'])
  · intro c r hc hr ih
    rw [unescape_ne c r hc]
    by_cases hc10 : c = 10
    · subst hc10
      rw [splitLF_lf, splitLF_lf, ih.1]
      refine ⟨by simp [unescape], ?_⟩
      intro l hl'
      rcases List.mem_cons.mp hl' with rfl | hl'
      · rfl
      · exact ih.2 l hl'
    · rw [splitLF_ne c _ hc10, ih.1, splitLF_ne c r hc10]
      cases hl : splitLF r with
      | nil => exact absurd hl (splitLF_ne_nil r)
      | cons l0 ls =>
        have hs0 : safe l0 = true := ih.2 l0 (by rw [hl]; simp)
        constructor
        · simp only [List.map_cons, consHead, List.cons_append, List.nil_append]
          rw [unescape_ne c l0 hc]
        · intro l hl'
          simp only [consHead, List.cons_append, List.nil_append, List.mem_cons] at hl'
          rcases hl' with rfl | hl'
          · rw [safe_cons_ne c l0 hc]; exact hs0
          · exact ih.2 l (by rw [hl]; simp [hl'])

theorem mem10_unescape (raw : Bytes) (hs : safe raw = true) : 10 ∈ unescape raw ↔ 10 ∈ raw := by
  refine safe_induction (P := fun raw => 10 ∈ unescape raw ↔ 10 ∈ raw) ?_ ?_ ?_ raw hs
  · simp [unescape]
  · intro c r hc _ ih
    rw [unescape_pair_safe c r hc]
    have : c ≠ 10 := by rcases hc with rfl | rfl <;> omega
    simp only [List.mem_cons, ih]
    constructor
    · rintro (h | h)
      · omega
      · exact .inr (.inr h)
    · rintro (h | h | h)
      · omega
      · omega
      · exact .inr h
  · intro c r hc _ ih
    rw [unescape_ne c r hc]
    simp only [List.mem_cons, ih]

theorem contains10_unescape (raw : Bytes) (hs : safe raw = true) : (unescape raw).contains 10 = raw.contains 10 := by
  have := mem10_unescape raw hs
  cases h1 : (unescape raw).contains 10 <;> cases h2 : raw.contains 10 <;> simp_all

theorem unescape_flatten (ps : List Bytes) (h : ∀ p ∈ ps, safe p = true) :
    unescape ps.flatten = (ps.map unescape).flatten := by
  induction ps with
  | nil => rfl
  | cons p r ih =>
    simp only [List.flatten_cons, List.map_cons]
    rw [unescape_append_safe p _ (h p (by simp)), ih (fun q hq => h q (by simp [hq]))]


theorem hasEscape_safe (l : Bytes) (hs : safe l = true) : hasEscape [114] l = false := by
  refine safe_induction (P := fun l => hasEscape [114] l = false) ?_ ?_ ?_ l hs
  · rfl
  · intro c r hc _ ih
    simp only [hasEscape, ih, Bool.or_false]
    rcases hc with rfl | rfl <;> simp
  · intro c r hc _ ih
    rw [hasEscape_ne [114] c r hc]; exact ih

theorem zipIdx_map_fst {α β : Type} (l : List α) (f : α → β) (k : Nat) :
    (l.map f).zipIdx k = (l.zipIdx k).map (fun p => (f p.1, p.2)) := by
  induction l generalizing k with
  | nil => rfl
  | cons a r ih => simp only [List.map_cons, List.zipIdx_cons, ih (k + 1)]

/-- **layout with the escapes \" and \\ (RFC 6020 §6.1.3).** For every double-quoted text in which every
    backslash starts one of these two pairs, every quote column and every arrangement of lines, the code's
    decoder (substitute, then lay out) yields what the specification reads off the source (lay out, then
    substitute) -/
theorem trimWhitespace_eq_decodeDQ_safe (col : Nat) (hc : col ≥ 1) (raw : Bytes) (hs : safe raw = true) :
    trimWhitespace col raw = decodeDQ col raw := by
  have hsub : escapeSubst raw = unescape raw := escapeSubst_eq_unescape raw (hasEscape_safe raw hs)
  have hlines := splitLF_unescape raw hs
  by_cases h10 : raw.contains 10 = true
  · rw [decodeDQ_lines]
    unfold trimWhitespace
    simp only [hsub, contains10_unescape raw hs, h10, Bool.not_true, Bool.false_eq_true, ↓reduceIte]
    rw [go_eq_map, hlines.1, List.length_map, zipIdx_map_fst, List.map_map]
    rw [unescape_flatten _ (by
      intro p hp
      simp only [List.mem_map] at hp
      obtain ⟨q, hq, rfl⟩ := hp
      exact (sLine_unescape col _ q.2 q.1 (hlines.2 q.1 (List.fst_mem_of_mem_zipIdx hq))).2), List.map_map]
    congr 1
    apply List.map_congr_left
    intro q hq
    simp only [Function.comp]
    rw [mLine_eq_sLine col _ q.2 hc]
    exact (sLine_unescape col _ q.2 q.1 (hlines.2 q.1 (List.fst_mem_of_mem_zipIdx hq))).1
  · have hno : ∀ x ∈ raw, x ≠ 10 := by
      intro x hx hx10; subst hx10
      exact h10 (by simpa using hx)
    rw [decodeDQ_single_line' col raw hno]
    unfold trimWhitespace
    have : (unescape raw).contains 10 = false := by
      rw [contains10_unescape raw hs]
      cases h : raw.contains 10 with
      | true => exact absurd h h10
      | false => rfl
    simp only [hsub, this]
    rfl

end YV.YS
