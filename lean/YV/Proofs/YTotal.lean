/-
  Proofs.YTotal — the fuel `parse` gives the statement parser always suffices: every step that recurses has
  received at least one item from the lexer, so no item list can make the parser run out (`.fuel` is
  unreachable), for accepted and rejected texts alike.
-/
import YV.Proofs.YTree
namespace YV.Y

def PS.len (s : PS) : Nat := s.items.length

theorem peekNS_inv (f : Nat) (s : PS) :
    (peekNS f s).2.len ≤ s.len ∧
    ((peekNS f s).1.typ ≠ .eof → ∃ rest, (peekNS f s).2.items = (peekNS f s).1 :: rest) := by
  induction f generalizing s with
  | zero => simp [peekNS, PS.len]
  | succ f ih =>
    cases hi : s.items with
    | nil => simp [peekNS, hi, PS.len]
    | cons it rest =>
      by_cases hsep : it.typ = .sep
      · simp only [peekNS, hi, hsep, ↓reduceIte]
        have := ih { items := rest, taken := s.taken + 1, lastPos := it.pos }
        simp only [PS.len, hi, List.length_cons] at this ⊢
        exact ⟨by omega, this.2⟩
      · simp only [peekNS, hi, hsep, ↓reduceIte, PS.len, List.length_cons]
        exact ⟨by omega, fun _ => ⟨rest, rfl⟩⟩

theorem nextNS_inv (s : PS) :
    (nextNS s).2.len ≤ s.len ∧ ((nextNS s).1.typ ≠ .eof → (nextNS s).2.len + 1 ≤ s.len) := by
  have h := peekNS_inv (s.items.length + 1) s
  unfold nextNS
  rw [pair_eta (peekNS (s.items.length + 1) s)]
  simp only []
  cases hi : (peekNS (s.items.length + 1) s).2.items with
  | nil =>
    simp only []
    refine ⟨h.1, fun hne => ?_⟩
    obtain ⟨rest, hr⟩ := h.2 hne
    rw [hi] at hr; cases hr
  | cons a rest =>
    simp only [PS.len] at h ⊢
    rw [hi] at h
    simp only [List.length_cons] at h
    exact ⟨by omega, fun _ => by omega⟩

theorem nextNS_fst (s : PS) : (nextNS s).1 = (peekNS (s.items.length + 1) s).1 := by
  unfold nextNS
  rw [pair_eta (peekNS (s.items.length + 1) s)]
  simp only []
  split <;> rfl

theorem expectT_inv (t : ITyp) (ht : t ≠ .eof) (s : PS) (it : Item) (s' : PS) (h : expectT t s = .ok (it, s')) :
    s'.len + 1 ≤ s.len ∧ it.typ = t := by
  unfold expectT at h
  rw [pair_eta (nextNS s)] at h
  simp only [] at h
  split at h
  · rename_i hty
    injection h with h
    injection h with h1 h2
    subst h1; subst h2
    exact ⟨(nextNS_inv s).2 (by rw [hty]; exact ht), hty⟩
  · simp [PS.fail] at h

theorem expectT_nofuel (t : ITyp) (s : PS) (n : Nat) : expectT t s ≠ .error (.fuel, n) := by
  unfold expectT
  rw [pair_eta (nextNS s)]
  simp only []
  split
  · simp [pure, Except.pure]
  · simp [PS.fail]


def NoFuel {α} (r : P α) : Prop := ∀ n, r ≠ .error (.fuel, n)
def Shrink {α} (s : PS) (r : P (α × PS)) (k : Nat) : Prop := ∀ a s', r = .ok (a, s') → s'.len + k ≤ s.len

theorem NoFuel_fail {α} (s : PS) : NoFuel (s.fail : P α) := by intro n; simp [PS.fail]
theorem Shrink_fail {α} (s s0 : PS) (k : Nat) : Shrink s0 (s.fail : P (α × PS)) k := by
  intro a s' h; simp [PS.fail] at h
theorem NoFuel_ok {α} (a : α) : NoFuel (.ok a : P α) := by intro n; simp

theorem argQC_inv (input : Bytes) (f : Nat) :
    (∀ s : PS, (s.len + 1 ≤ f → NoFuel (argQuoted input f s)) ∧ Shrink s (argQuoted input f s) 0) ∧
    (∀ s : PS, (s.len + 1 ≤ f → NoFuel (argConcat input f s)) ∧ Shrink s (argConcat input f s) 0) := by
  induction f with
  | zero =>
    refine ⟨fun s => ⟨fun h => by omega, ?_⟩, fun s => ⟨fun h => by omega, ?_⟩⟩
    · intro a s' h; simp [argQuoted] at h
    · intro a s' h; simp [argConcat] at h
  | succ f ih =>
    obtain ⟨ihQ, ihC⟩ := ih
    constructor
    · intro s
      simp only [argQuoted]
      rw [pair_eta (peekNS (s.items.length + 1) s)]
      simp only []
      have hn := nextNS_inv s
      have hnf := nextNS_fst s
      by_cases h1 : (peekNS (s.items.length + 1) s).1.typ = .string
      · simp only [h1, ↓reduceIte]
        have hne : (nextNS s).1.typ ≠ .eof := by rw [hnf, h1]; simp
        have hlen := hn.2 hne
        cases he : expectT .quote (nextNS s).2 with
        | error e =>
          refine ⟨fun _ n => ?_, fun a s' h => ?_⟩
          · simp only [bind, Except.bind]
            intro hc; injection hc with hc
            exact expectT_nofuel .quote (nextNS s).2 n (by rw [he, hc])
          · simp [bind, Except.bind] at h
        | ok v =>
          obtain ⟨qt, s2⟩ := v
          have h2 := (expectT_inv .quote (by simp) _ _ _ he).1
          simp only [bind, Except.bind]
          have ihc := ihC s2
          refine ⟨fun hf n => ?_, fun a s' h => ?_⟩
          · cases hc : argConcat input f s2 with
            | error e => simp only []; intro hh; injection hh with hh; exact ihc.1 (by omega) n (by rw [hc, hh])
            | ok w => simp [pure, Except.pure]
          · cases hc : argConcat input f s2 with
            | error e => rw [hc] at h; simp at h
            | ok w =>
              rw [hc] at h
              simp only [pure, Except.pure] at h
              injection h with h; injection h with _ h; subst h
              have := ihc.2 w.1 w.2 (by rw [hc])
              omega
      · simp only [h1, ↓reduceIte]
        by_cases h2 : (peekNS (s.items.length + 1) s).1.typ = .quote
        · simp only [h2, ↓reduceIte]
          have hne : (nextNS s).1.typ ≠ .eof := by rw [hnf, h2]; simp
          have hlen := hn.2 hne
          have ihc := ihC (nextNS s).2
          refine ⟨fun hf n => ihc.1 (by omega) n, fun a s' h => ?_⟩
          have := ihc.2 a s' h
          omega
        · simp only [h2, ↓reduceIte]
          exact ⟨fun _ => NoFuel_fail _, Shrink_fail _ _ _⟩
    · intro s
      simp only [argConcat]
      rw [pair_eta (peekNS (s.items.length + 1) s)]
      simp only []
      have hn := nextNS_inv s
      have hnf := nextNS_fst s
      by_cases h1 : ((peekNS (s.items.length + 1) s).1.typ = .lbrace || (peekNS (s.items.length + 1) s).1.typ = .semi) = true
      · simp only [h1, ↓reduceIte]
        refine ⟨fun _ n => by simp [pure, Except.pure], fun a s' h => ?_⟩
        simp only [pure, Except.pure] at h
        injection h with h; injection h with _ h; subst h; omega
      · simp only [h1, ↓reduceIte]
        by_cases h2 : (peekNS (s.items.length + 1) s).1.typ = .plus
        · simp only [h2, ↓reduceIte]
          have hne : (nextNS s).1.typ ≠ .eof := by rw [hnf, h2]; simp
          have hlen := hn.2 hne
          cases he : expectT .quote (nextNS s).2 with
          | error e =>
            refine ⟨fun _ n => ?_, fun a s' h => ?_⟩
            · simp only [bind, Except.bind]
              intro hc; injection hc with hc
              exact expectT_nofuel .quote (nextNS s).2 n (by rw [he, hc])
            · simp [bind, Except.bind] at h
          | ok v =>
            obtain ⟨qt, s2⟩ := v
            have hl2 := (expectT_inv .quote (by simp) _ _ _ he).1
            simp only [bind, Except.bind]
            have ihq := ihQ s2
            refine ⟨fun hf n => ihq.1 (by omega) n, fun a s' h => ?_⟩
            have := ihq.2 a s' h
            omega
        · simp only [h2, ↓reduceIte]
          exact ⟨fun _ => NoFuel_fail _, Shrink_fail _ _ _⟩


theorem NoFuel_bind {α β} (x : P α) (g : α → P β) (hx : NoFuel x) (hg : ∀ a, x = .ok a → NoFuel (g a)) :
    NoFuel (x >>= g) := by
  cases x with
  | error e => intro n h; simp only [bind, Except.bind] at h; injection h with h; exact hx n (by rw [h])
  | ok a => simpa [bind, Except.bind] using hg a rfl

theorem Shrink_bind {α β} (s : PS) (x : P (α × PS)) (g : α × PS → P (β × PS)) (k1 k2 : Nat)
    (hx : Shrink s x k1) (hg : ∀ a s1, x = .ok (a, s1) → Shrink s1 (g (a, s1)) k2) :
    Shrink s (x >>= g) (k1 + k2) := by
  cases x with
  | error e => intro a s' h; simp [bind, Except.bind] at h
  | ok v =>
    obtain ⟨a, s1⟩ := v
    intro b s' h
    simp only [bind, Except.bind] at h
    have h1 := hx a s1 rfl
    have h2 := hg a s1 rfl b s' h
    omega

theorem Shrink_mono {α} (s : PS) (r : P (α × PS)) (k k' : Nat) (h : Shrink s r k) (hk : k' ≤ k) : Shrink s r k' := by
  intro a s' hr; have := h a s' hr; omega

theorem expectT_NoFuel (t : ITyp) (s : PS) : NoFuel (expectT t s) := fun n => expectT_nofuel t s n
theorem expectT_Shrink (t : ITyp) (ht : t ≠ .eof) (s : PS) : Shrink s (expectT t s) 1 :=
  fun it s' h => (expectT_inv t ht s it s' h).1

theorem argument_inv (input : Bytes) (s : PS) : NoFuel (argument input s) ∧ Shrink s (argument input s) 0 := by
  unfold argument
  rw [pair_eta (peekNS (s.items.length + 1) s)]
  simp only []
  have hn := nextNS_inv s
  have hnf := nextNS_fst s
  by_cases h1 : ((peekNS (s.items.length + 1) s).1.typ = .lbrace || (peekNS (s.items.length + 1) s).1.typ = .semi) = true
  · simp only [h1, ↓reduceIte]
    refine ⟨fun n => by simp [pure, Except.pure], fun a s' h => ?_⟩
    simp only [pure, Except.pure] at h
    injection h with h; injection h with _ h; subst h; omega
  · simp only [h1, ↓reduceIte]
    by_cases h2 : (peekNS (s.items.length + 1) s).1.typ = .string
    · simp only [h2, ↓reduceIte]
      rw [pair_eta (nextNS s)]
      refine ⟨fun n => by simp [pure, Except.pure], fun a s' h => ?_⟩
      simp only [pure, Except.pure] at h
      injection h with h; injection h with _ h; subst h
      have := hn.1; omega
    · simp only [h2, ↓reduceIte]
      by_cases h3 : (peekNS (s.items.length + 1) s).1.typ = .quote
      · simp only [h3, ↓reduceIte]
        rw [pair_eta (nextNS s)]
        simp only []
        have hne : (nextNS s).1.typ ≠ .eof := by rw [hnf, h3]; simp
        have hlen := hn.2 hne
        have ih := (argQC_inv input (s.items.length + 2)).1 (nextNS s).2
        refine ⟨ih.1 (by simp only [PS.len] at hlen ⊢; omega), fun a s' h => ?_⟩
        have := ih.2 a s' h
        omega
      · simp only [h3, ↓reduceIte]
        exact ⟨NoFuel_fail _, Shrink_fail _ _ _⟩


theorem argOrNot_inv (input : Bytes) (s1 : PS) (c : Prop) [Decidable c] :
    NoFuel (if c then (pure ([], s1) : P (Bytes × PS)) else argument input s1) ∧
    Shrink s1 (if c then (pure ([], s1) : P (Bytes × PS)) else argument input s1) 0 := by
  by_cases hc : c
  · simp only [hc, ↓reduceIte]
    refine ⟨fun n => by simp [pure, Except.pure], fun a s' h => ?_⟩
    simp only [pure, Except.pure] at h
    injection h with h; injection h with _ h; subst h; omega
  · simp only [hc, ↓reduceIte]
    exact argument_inv input s1

/-- what follows the argument in `stmt`: the delimiter and, for a block, the sub-statements -/
def stmtTail (chk : Stmt → Bool) (input : Bytes) (f : Nat) (id : Item) (arg : Bytes) (s2 : PS) : P (Stmt × PS) :=
  let (delim, s3) := nextNS s2
  if delim.typ = .semi then
    let st := Stmt.mk id.val arg id.pos []
    if chk st then pure (st, s3) else .error (.check id.pos, s3.taken)
  else if delim.typ = .lbrace then do
    let (subs, s4) ← pStar chk input f s3
    let (_, s5) ← expectT .rbrace s4
    let st := Stmt.mk id.val arg id.pos subs
    if chk st then pure (st, s5) else .error (.check id.pos, s5.taken)
  else s3.fail

theorem pStmt_succ (chk : Stmt → Bool) (input : Bytes) (f : Nat) (s : PS) :
    pStmt chk input (f + 1) s =
      (expectT .string s >>= fun r =>
        (if (peekNS (r.2.items.length + 1) r.2).1.typ = .lbrace then (pure ([], r.2) : P (Bytes × PS))
         else argument input r.2) >>= fun a => stmtTail chk input f r.1 a.1 a.2) := by
  simp only [pStmt, stmtTail]
  congr 1
  funext r
  by_cases h : (peekNS (r.2.items.length + 1) r.2).1.typ = .lbrace
  · simp only [h, ↓reduceIte]
  · simp only [h, ↓reduceIte]

theorem pStar_succ (chk : Stmt → Bool) (input : Bytes) (f : Nat) (s : PS) :
    pStar chk input (f + 1) s =
      (if (peekNS (s.items.length + 1) s).1.typ = .rbrace then pure ([], s)
       else pStmt chk input f s >>= fun r => pStar chk input f r.2 >>= fun q => pure (r.1 :: q.1, q.2)) := by
  simp only [pStar]


theorem stmtTail_inv (chk : Stmt → Bool) (input : Bytes) (f : Nat) (id : Item) (arg : Bytes) (s2 : PS)
    (ih : ∀ s : PS, (s.len + 2 ≤ f → NoFuel (pStar chk input f s)) ∧ Shrink s (pStar chk input f s) 0) :
    (s2.len + 1 ≤ f → NoFuel (stmtTail chk input f id arg s2)) ∧ Shrink s2 (stmtTail chk input f id arg s2) 1 := by
  unfold stmtTail
  rw [pair_eta (nextNS s2)]
  simp only []
  have hn := nextNS_inv s2
  by_cases h1 : (nextNS s2).1.typ = .semi
  · simp only [h1, ↓reduceIte]
    have hlen := hn.2 (by rw [h1]; simp)
    by_cases hc : chk (Stmt.mk id.val arg id.pos []) = true
    · simp only [hc, ↓reduceIte]
      refine ⟨fun _ n => by simp [pure, Except.pure], fun a s' h => ?_⟩
      simp only [pure, Except.pure] at h
      injection h with h; injection h with _ h; subst h; exact hlen
    · simp only [hc]
      refine ⟨fun _ n => by simp, fun a s' h => by simp at h⟩
  · simp only [h1, ↓reduceIte]
    by_cases h2 : (nextNS s2).1.typ = .lbrace
    · simp only [h2, ↓reduceIte]
      have hlen := hn.2 (by rw [h2]; simp)
      have ihs := ih (nextNS s2).2
      constructor
      · intro hf
        apply NoFuel_bind _ _ (ihs.1 (by omega))
        intro a _
        apply NoFuel_bind _ _ (expectT_NoFuel _ _)
        intro b _
        split
        · exact NoFuel_ok _
        · intro n; simp
      · have hsh : Shrink (nextNS s2).2 (pStar chk input f (nextNS s2).2 >>= fun r =>
            expectT .rbrace r.2 >>= fun q =>
              if chk (Stmt.mk id.val arg id.pos r.1) = true then pure (Stmt.mk id.val arg id.pos r.1, q.2)
              else Except.error (PErr.check id.pos, q.2.taken)) (0 + (1 + 0)) := by
          apply Shrink_bind _ _ _ 0 _ ihs.2
          intro a s4 _
          apply Shrink_bind _ _ _ 1 0 (expectT_Shrink .rbrace (by simp) s4)
          intro b s5 _
          intro x s' h
          split at h
          · simp only [pure, Except.pure] at h
            injection h with h; injection h with _ h; subst h; omega
          · simp at h
        intro a s' h
        have := hsh a s' h
        omega
    · simp only [h2, ↓reduceIte]
      exact ⟨fun _ => NoFuel_fail _, Shrink_fail _ _ _⟩

theorem pStmtStar_inv (chk : Stmt → Bool) (input : Bytes) (f : Nat) :
    (∀ s : PS, (s.len + 1 ≤ f → NoFuel (pStmt chk input f s)) ∧ Shrink s (pStmt chk input f s) 2) ∧
    (∀ s : PS, (s.len + 2 ≤ f → NoFuel (pStar chk input f s)) ∧ Shrink s (pStar chk input f s) 0) := by
  induction f with
  | zero =>
    refine ⟨fun s => ⟨fun h => by omega, ?_⟩, fun s => ⟨fun h => by omega, ?_⟩⟩
    · intro a s' h; simp [pStmt] at h
    · intro a s' h; simp [pStar] at h
  | succ f ih =>
    obtain ⟨ihS, ihT⟩ := ih
    constructor
    · intro s
      rw [pStmt_succ]
      constructor
      · intro hf
        apply NoFuel_bind _ _ (expectT_NoFuel _ _)
        intro r hr
        obtain ⟨id, s1⟩ := r
        have h1 := (expectT_inv .string (by simp) s id s1 hr).1
        have ha := argOrNot_inv input s1 ((peekNS (s1.items.length + 1) s1).1.typ = .lbrace)
        apply NoFuel_bind _ _ ha.1
        intro a hae
        obtain ⟨arg, s2⟩ := a
        have h2 := ha.2 arg s2 hae
        exact (stmtTail_inv chk input f id arg s2 ihT).1 (by omega)
      · have : Shrink s (expectT .string s >>= fun r =>
            (if (peekNS (r.2.items.length + 1) r.2).1.typ = .lbrace then (pure ([], r.2) : P (Bytes × PS))
             else argument input r.2) >>= fun a => stmtTail chk input f r.1 a.1 a.2) (1 + (0 + 1)) := by
          apply Shrink_bind _ _ _ 1 _ (expectT_Shrink .string (by simp) s)
          intro id s1 _
          apply Shrink_bind _ _ _ 0 1 (argOrNot_inv input s1 _).2
          intro arg s2 _
          exact (stmtTail_inv chk input f id arg s2 ihT).2
        exact this
    · intro s
      rw [pStar_succ]
      by_cases h1 : (peekNS (s.items.length + 1) s).1.typ = .rbrace
      · simp only [h1, ↓reduceIte]
        refine ⟨fun _ n => by simp [pure, Except.pure], fun a s' h => ?_⟩
        simp only [pure, Except.pure] at h
        injection h with h; injection h with _ h; subst h; omega
      · simp only [h1, ↓reduceIte]
        constructor
        · intro hf
          apply NoFuel_bind _ _ ((ihS s).1 (by omega))
          intro r hr
          obtain ⟨st, s1⟩ := r
          have hl := (ihS s).2 st s1 hr
          apply NoFuel_bind _ _ ((ihT s1).1 (by omega))
          intro q _
          exact NoFuel_ok _
        · have : Shrink s (pStmt chk input f s >>= fun r => pStar chk input f r.2 >>= fun q =>
              (pure (r.1 :: q.1, q.2) : P (List Stmt × PS))) (2 + (0 + 0)) := by
            apply Shrink_bind _ _ _ 2 _ (ihS s).2
            intro st s1 _
            apply Shrink_bind _ _ _ 0 0 (ihT s1).2
            intro q s2 _
            intro a s' h
            simp only [pure, Except.pure] at h
            injection h with h; injection h with _ h; subst h; omega
          exact Shrink_mono _ _ _ 0 this (by omega)


/-- `parse` never runs out of fuel and never diverges: it returns a tree or a located error -/
theorem parse_total (chk : Stmt → Bool) (input : Bytes) :
    (∃ root taken total, parse chk true input = .ok root taken total) ∨
    (∃ l c taken total, parse chk true input = .err l c taken total) := by
  obtain ⟨items, hl, _⟩ := lex_total input
  have hnf : NoFuel (do
      let (st, s1) ← pStmt chk input (items.length + 2) { items := items }
      let (_, s2) ← expectT .eof s1
      pure (st, s2) : P (Stmt × PS)) := by
    apply NoFuel_bind _ _ ((pStmtStar_inv chk input (items.length + 2)).1 { items := items } |>.1 (by simp [PS.len]))
    intro r _
    apply NoFuel_bind _ _ (expectT_NoFuel _ _)
    intro q _
    exact NoFuel_ok _
  simp only [parse, hl]
  generalize (do
      let (st, s1) ← pStmt chk input (items.length + 2) { items := items }
      let (_, s2) ← expectT .eof s1
      pure (st, s2) : P (Stmt × PS)) = r at hnf
  rcases r with ⟨e, n⟩ | ⟨st, s⟩
  · cases e with
    | fuel => exact absurd rfl (hnf n)
    | unexpected pos => exact .inr ⟨_, _, _, _, rfl⟩
    | check pos => exact .inr ⟨_, _, _, _, rfl⟩
  · exact .inl ⟨_, _, _, rfl⟩

end YV.Y
