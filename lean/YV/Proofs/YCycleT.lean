/-
  Proofs.YCycleT — the chain-remembering walk terminates with a verdict on every finite set of definitions
  (an explicit bound on the fuel it needs), and its verdict depends on the reference graph only: not on the
  order in which a definition lists its references, nor on the fuel beyond that bound.
-/
import YV.Proofs.YCycle
namespace YV.Cyc

variable {α : Type} [DecidableEq α]

omit [DecidableEq α] in
theorem Path.congr {succ succ' : α → List α} (h : ∀ n m, m ∈ succ n → m ∈ succ' n) {a b : α} {p : List α}
    (hp : Path succ a p b) : Path succ' a p b := by
  induction hp with
  | nil n => exact .nil n
  | cons hm _ ih => exact .cons (h _ _ hm) ih

omit [DecidableEq α] in
theorem ReachesCycle.congr {succ succ' : α → List α} (h : ∀ n m, m ∈ succ n → m ∈ succ' n) {n : α}
    (hr : ReachesCycle succ n) : ReachesCycle succ' n := by
  obtain ⟨x, p, q, hp, hq, hqq⟩ := hr
  exact ⟨x, p, q, hp.congr h, hq, hqq.congr h⟩

/-- the fuel a walk needs when at most `k` definitions are not yet on the chain and no definition has more
    than `D` references -/
def need (D k : Nat) : Nat := 1 + k * (D + 2)


theorem walkAll_enough' (succ : α → List α) (chain : List α) (nd : Nat) :
    ∀ (l : List α) (fuel : Nat), (∀ m ∈ l, ∀ f, nd ≤ f → walk succ f chain m ≠ .outOfFuel) →
      l.length + 1 + nd ≤ fuel → walkAll succ fuel chain l ≠ .outOfFuel
  | [], fuel, _, hf => by
    cases fuel with
    | zero => omega
    | succ f => simp [walkAll]
  | m :: r, fuel, hw, hf => by
    cases fuel with
    | zero => simp at hf
    | succ f =>
      simp only [walkAll]
      simp only [List.length_cons] at hf
      have hm := hw m (by simp) f (by omega)
      cases hwm : walk succ f chain m with
      | ok =>
        simp only []
        exact walkAll_enough' succ chain nd r f (fun x hx => hw x (by simp [hx])) (by omega)
      | cycle => simp
      | outOfFuel => exact absurd hwm hm

/-- **termination with a verdict.** On a finite set of definitions `univ` closed under references, where no
    definition lists more than `D` references, the walk answers — cycle or no cycle — whenever it is given
    `1 + k·(D+2)` units of fuel, `k` being the number of definitions not yet on the chain -/
theorem walk_enough (succ : α → List α) (univ : List α) (D : Nat)
    (hu : ∀ n ∈ univ, ∀ m ∈ succ n, m ∈ univ) (hD : ∀ n ∈ univ, (succ n).length ≤ D) :
    ∀ (k fuel : Nat) (chain : List α) (n : α), chain.Nodup → chain ⊆ univ → n ∈ univ →
      univ.length ≤ chain.length + k → need D k ≤ fuel → walk succ fuel chain n ≠ .outOfFuel
  | k, 0, _, _, _, _, _, _, hf => by simp [need] at hf
  | k, f + 1, chain, n, hnd, hsub, hn, hlen, hf => by
    simp only [walk]
    by_cases hc : n ∈ chain
    · simp [hc]
    · simp only [hc, if_false]
      have hnd' : (n :: chain).Nodup := List.nodup_cons.2 ⟨hc, hnd⟩
      have hsub' : (n :: chain) ⊆ univ := by
        intro x hx
        simp only [List.mem_cons] at hx
        rcases hx with rfl | hx
        · exact hn
        · exact hsub hx
      have hle := List.Nodup.length_le_of_subset hnd' hsub'
      simp only [List.length_cons] at hle
      cases k with
      | zero => omega
      | succ k' =>
        apply walkAll_enough' succ (n :: chain) (need D k') (succ n) f
        · intro m hm f' hf'
          exact walk_enough succ univ D hu hD k' f' (n :: chain) m hnd' hsub' (hu n hn m hm)
            (by simp only [List.length_cons]; omega) hf'
        · have := hD n hn
          simp only [need] at hf ⊢
          have e : (k' + 1) * (D + 2) = k' * (D + 2) + (D + 2) := Nat.succ_mul _ _
          omega

/-- with that much fuel the verdict is the graph property, both ways -/
theorem walk_verdict (succ : α → List α) (univ : List α) (D : Nat)
    (hu : ∀ n ∈ univ, ∀ m ∈ succ n, m ∈ univ) (hD : ∀ n ∈ univ, (succ n).length ≤ D)
    (fuel : Nat) (hf : need D univ.length ≤ fuel) (n : α) (hn : n ∈ univ) :
    (walk succ fuel [] n = .cycle ↔ ReachesCycle succ n) ∧ (walk succ fuel [] n = .ok ↔ ¬ ReachesCycle succ n) := by
  have ht := walk_enough succ univ D hu hD univ.length fuel [] n List.nodup_nil (by simp) hn (by simp) hf
  cases hw : walk succ fuel [] n with
  | ok =>
    have := walk_ok_acyclic succ fuel [] n hw
    simp [this]
  | cycle =>
    have := walk_sound succ fuel n hw
    simp [this]
  | outOfFuel => exact absurd hw ht

end YV.Cyc
