/-
  Proofs.XFuncs — function names: the must / when lexer hands out a function token only for a name of the function
  table (followed by an opening parenthesis), and a name followed by a parenthesis that is not registered is an error.
-/
import YV.Model.XLex
open YV YV.X YV.XL
namespace YV.XL

/-- every function token comes out of the function table: the name the lexer collected is registered under that
    function, and an opening parenthesis follows it -/
theorem func_token_from_table (strict : Bool) (pm : PfxMap) (c : Rune) (s s' : LexSt) (f : Fn)
    (h : lexNameCommon strict pm c s = (.func f, s')) :
    lookupFn (constructToken c nameCharCommon "NAME" s).1 = some f ∧
      nnwsIs [chr '('] (constructToken c nameCharCommon "NAME" s).2 = true := by
  unfold lexNameCommon at h
  simp only at h
  generalize (constructToken c nameCharCommon "NAME" s).fst = name at h ⊢
  generalize (constructToken c nameCharCommon "NAME" s).snd = st at h ⊢
  by_cases h1 : canBeOperator st.prec = true
  · rw [if_pos h1] at h
    repeat' (split at h)
    all_goals (injection h with h1 _; cases h1)
  · rw [if_neg h1] at h
    by_cases h2 : nnwsIs [chr '('] st = true
    · rw [if_pos h2] at h
      refine ⟨?_, h2⟩
      cases hl : lookupFn name with
      | none =>
        simp only [hl] at h
        repeat' (split at h)
        all_goals (injection h with h1 _; cases h1)
      | some g =>
        simp only [hl] at h
        repeat' (split at h)
        all_goals (injection h with h1 _; first | (cases h1; rfl) | cases h1)
    · rw [if_neg h2] at h
      by_cases h3 : nnwsIs [chr ':', chr ':'] st = true
      · rw [if_pos h3] at h
        split at h <;> (injection h with h1 _; cases h1)
      · rw [if_neg h3] at h
        by_cases h4 : nnwsIs [chr ':'] st = true
        · simp only [h4, if_true] at h
          repeat' (split at h)
          all_goals (injection h with h1 _; cases h1)
        · simp only [h4, Bool.false_eq_true, if_false] at h
          split at h <;> (injection h with h1 _; cases h1)

/-- a name followed by '(' that is not registered (and is neither current, deref nor a node type) is a lexer error:
    near-miss spellings of function names are not functions -/
theorem unknown_function_is_error (strict : Bool) (pm : PfxMap) (c : Rune) (s : LexSt)
    (hop : canBeOperator (constructToken c nameCharCommon "NAME" s).2.prec = false)
    (hpar : nnwsIs [chr '('] (constructToken c nameCharCommon "NAME" s).2 = true)
    (hno : lookupFn (constructToken c nameCharCommon "NAME" s).1 = none)
    (hc : (constructToken c nameCharCommon "NAME" s).1 ≠ strR "current")
    (hd : (constructToken c nameCharCommon "NAME" s).1 ≠ strR "deref")
    (hn : isNodeType (constructToken c nameCharCommon "NAME" s).1 = false) :
    (lexNameCommon strict pm c s).1 = .err := by
  unfold lexNameCommon
  simp only
  generalize (constructToken c nameCharCommon "NAME" s).fst = name at *
  generalize (constructToken c nameCharCommon "NAME" s).snd = st at *
  rw [if_neg (by rw [hop]; simp), if_pos hpar]
  simp only [hno, hc, hd, hn, if_false, Bool.false_eq_true, ite_self]

end YV.XL
