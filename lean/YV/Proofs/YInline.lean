/-
  Proofs.YInline — the expansion of uses / refine / augment, written out as source, is a module without any
  uses that compiles to the same definitions.

  `expandKids` yields plain definitions (`A`: no uses, no augment).  Written back as source text (`embedAll`)
  they are "the module in which the grouping bodies and augmenting nodes are written in place with the
  refinements applied"; compiling that module — whatever groupings are in scope — gives the same definitions
  again.  Two facts carry it: every node the expansion produces, at every depth, belongs to the module it is
  expanded in (`expandKids_deep`), and a definition without uses expands to itself with that module stamped
  on every node (`expand_embed`).
-/
import YV.Proofs.YUses
namespace YV.C
open YV YV.Y YV.SC

mutual
/-- the node and everything below it belong to module `ns` -/
def deepNs (ns : Tok) : A → Bool
  | .container _ m _ ks => decide (m.ns = ns) && deepAll ns ks
  | .list _ m _ _ _ ks => decide (m.ns = ns) && deepAll ns ks
  | .leaf _ m _ _ => decide (m.ns = ns)
  | .leafList _ m _ _ => decide (m.ns = ns)
  | .choice _ m _ _ cs => decide (m.ns = ns) && deepAll ns cs
  | .case _ m ks => decide (m.ns = ns) && deepAll ns ks
def deepAll (ns : Tok) : List A → Bool
  | [] => true
  | a :: r => deepNs ns a && deepAll ns r
end

mutual
/-- write module `ns` on the node and on everything below it -/
def stamp (ns : Tok) : A → A
  | .container n m p ks => .container n { m with ns := ns } p (stampAll ns ks)
  | .list n m k a b ks => .list n { m with ns := ns } k a b (stampAll ns ks)
  | .leaf n m md d => .leaf n { m with ns := ns } md d
  | .leafList n m a b => .leafList n { m with ns := ns } a b
  | .choice n m md d cs => .choice n { m with ns := ns } md d (stampAll ns cs)
  | .case n m ks => .case n { m with ns := ns } (stampAll ns ks)
def stampAll (ns : Tok) : List A → List A
  | [] => []
  | a :: r => stamp ns a :: stampAll ns r
end

mutual
def sz : A → Nat
  | .container _ _ _ ks => 1 + szAll ks
  | .list _ _ _ _ _ ks => 1 + szAll ks
  | .leaf .. => 1
  | .leafList .. => 1
  | .choice _ _ _ _ cs => 1 + szAll cs
  | .case _ _ ks => 1 + szAll ks
def szAll : List A → Nat
  | [] => 1
  | a :: r => 1 + sz a + szAll r
end

theorem szAll_pos : ∀ l : List A, 1 ≤ szAll l
  | [] => by simp [szAll]
  | _ :: _ => by simp only [szAll]; omega

theorem deepAll_iff (ns : Tok) : ∀ l : List A, deepAll ns l = true ↔ ∀ a ∈ l, deepNs ns a = true
  | [] => by simp [deepAll]
  | a :: r => by simp [deepAll, deepAll_iff ns r]

theorem deepAll_append (ns : Tok) (l1 l2 : List A) :
    deepAll ns (l1 ++ l2) = true ↔ deepAll ns l1 = true ∧ deepAll ns l2 = true := by
  simp only [deepAll_iff, List.mem_append]
  constructor
  · intro h; exact ⟨fun a ha => h a (.inl ha), fun a ha => h a (.inr ha)⟩
  · rintro ⟨h1, h2⟩ a (ha | ha); exact h1 a ha; exact h2 a ha

theorem deep_split (ns : Tok) (a : A) : deepNs ns a = true ↔ a.meta.ns = ns ∧ deepAll ns a.kids = true := by
  cases a <;> simp [deepNs, A.meta, A.kids, deepAll]

theorem deep_setKids (ns : Tok) (a : A) (ks : List A) (ha : deepNs ns a = true) (hk : deepAll ns ks = true) :
    deepNs ns (a.setKids ks) = true := by
  cases a <;> simp_all [deepNs, A.setKids]

theorem setMeta_kids (a : A) (m : Meta) : (a.setMeta m).kids = a.kids := by cases a <;> rfl

theorem deep_setMeta (ns : Tok) (a : A) (m : Meta) (hm : m.ns = a.meta.ns) (ha : deepNs ns a = true) :
    deepNs ns (a.setMeta m) = true := by
  rw [deep_split] at ha ⊢
  rw [setMeta_kids]
  refine ⟨?_, ha.2⟩
  have : (a.setMeta m).meta = m := by cases a <;> rfl
  rw [this, hm]; exact ha.1

theorem deep_addIff (ns : Tok) (fs : List Tok) (a : A) (ha : deepNs ns a = true) : deepNs ns (addIff fs a) = true :=
  deep_setMeta ns a _ rfl ha

theorem deep_addSt (ns : Tok) (st : Nat) (a : A) (ha : deepNs ns a = true) : deepNs ns (addSt st a) = true := by
  unfold addSt
  split
  · exact ha
  · exact deep_setMeta ns a _ rfl ha

theorem deep_setRefine (ns : Tok) (a : A) (p : RProp) (v : Bytes) (ha : deepNs ns a = true) :
    deepNs ns (setRefine a p v) = true := by
  cases p <;> cases a <;> simp_all [setRefine, deepNs, A.setMeta, A.meta]

theorem deepAll_map (ns : Tok) (f : A → A) (hf : ∀ a, deepNs ns a = true → deepNs ns (f a) = true) (l : List A)
    (h : deepAll ns l = true) : deepAll ns (l.map f) = true := by
  rw [deepAll_iff] at h ⊢
  intro a ha
  simp only [List.mem_map] at ha
  obtain ⟨b, hb, rfl⟩ := ha
  exact hf b (h b hb)

/-- a change at a path keeps "everything belongs to `ns`" when the change itself does -/
theorem atPath_deep (ns : Tok) (change : A → Except String A)
    (hch : ∀ a a', change a = .ok a' → deepNs ns a = true → deepNs ns a' = true) :
    ∀ (path : List Tok) (nodes nodes' : List A),
      atPath change path nodes = .ok nodes' → deepAll ns nodes = true → deepAll ns nodes' = true
  | [], nodes, nodes', h, _ => by cases nodes <;> simp [atPath] at h
  | _ :: _, [], nodes', h, _ => by simp [atPath] at h
  | p :: rest, a :: r, nodes', h, hp => by
    rw [atPath] at h
    simp only [deepAll, Bool.and_eq_true] at hp
    by_cases hnm : a.name = p
    · simp only [hnm, if_true] at h
      by_cases hr : rest.isEmpty = true
      · simp only [hr, if_true] at h
        cases hc : change a with
        | error e => simp [hc, Except.map] at h
        | ok a' =>
          simp only [hc, Except.map, Except.ok.injEq] at h
          subst h
          simp only [deepAll, Bool.and_eq_true]
          exact ⟨hch a a' hc hp.1, hp.2⟩
      · simp only [hr, Bool.false_eq_true, if_false] at h
        cases hc : atPath change rest a.kids with
        | error e => simp [hc, Except.map] at h
        | ok ks' =>
          simp only [hc, Except.map, Except.ok.injEq] at h
          subst h
          simp only [deepAll, Bool.and_eq_true]
          have hk := ((deep_split ns a).1 hp.1).2
          have := atPath_deep ns change hch rest a.kids ks' hc hk
          exact ⟨deep_setKids ns a ks' hp.1 this, hp.2⟩
    · simp only [hnm, if_false] at h
      cases hc : atPath change (p :: rest) r with
      | error e => simp [hc, Except.map] at h
      | ok r' =>
        simp only [hc, Except.map, Except.ok.injEq] at h
        subst h
        simp only [deepAll, Bool.and_eq_true]
        exact ⟨hp.1, atPath_deep ns change hch (p :: rest) r r' hc hp.2⟩
termination_by path nodes => (path.length, nodes.length)

theorem applyRefine_deep (ns : Tok) (b : List A) (rf : Refine) (b' : List A)
    (h : applyRefine b rf = .ok b') (hb : deepAll ns b = true) : deepAll ns b' = true :=
  atPath_deep ns _ (by intro a a' hc ha; simp only [epure, Except.ok.injEq] at hc; subst hc
                       exact deep_setRefine ns a rf.prop rf.val ha) rf.path b b' h hb

theorem addKidsAt_deep (ns : Tok) (b : List A) (path : List Tok) (ks b' : List A)
    (h : addKidsAt b path ks = .ok b') (hb : deepAll ns b = true) (hk : deepAll ns ks = true) :
    deepAll ns b' = true :=
  atPath_deep ns _ (by intro a a' hc ha
                       split at hc
                       · simp only [epure, Except.ok.injEq] at hc; subst hc
                         exact deep_setKids ns a _ ha
                           ((deepAll_append ns _ _).2 ⟨((deep_split ns a).1 ha).2, hk⟩)
                       · simp at hc) path b b' h hb

theorem applyUsesAug_deep (ns : Tok) (expand : List G → Except String (List A))
    (hex : ∀ gs as, expand gs = .ok as → deepAll ns as = true) (b : List A) (ag : G) (b' : List A)
    (h : applyUsesAug expand b ag = .ok b') (hb : deepAll ns b = true) : deepAll ns b' = true := by
  cases ag <;> try (simp only [applyUsesAug, epure, Except.ok.injEq] at h; subst h; exact hb)
  case aug path aiff aks =>
    simp only [applyUsesAug] at h
    cases hk : expand aks with
    | error e => simp [hk] at h
    | ok aks' =>
      simp only [hk, ebind_ok] at h
      exact addKidsAt_deep ns b path _ b' h hb (deepAll_map ns _ (deep_addIff ns aiff) _ (hex aks aks' hk))
  case stat st inner =>
    cases inner <;> try (simp only [applyUsesAug, epure, Except.ok.injEq] at h; subst h; exact hb)
    case aug path aiff aks =>
      simp only [applyUsesAug] at h
      cases hk : expand aks with
      | error e => simp [hk] at h
      | ok aks' =>
        simp only [hk, ebind_ok] at h
        exact addKidsAt_deep ns b path _ b' h hb
          (deepAll_map ns _ (deep_addSt ns st) _ (deepAll_map ns _ (deep_addIff ns aiff) _ (hex aks aks' hk)))

mutual
/-- every node of the expansion, at every depth, belongs to the module it is expanded in -/
theorem expandKids_deep (env : GEnv) (ns : Tok) : ∀ (fuel : Nat) (gs : List G) (as : List A),
    expandKids env ns fuel gs = .ok as → deepAll ns as = true
  | 0, gs, as, h => by simp [expandKids] at h
  | fuel + 1, [], as, h => by simp [expandKids] at h; subst h; rfl
  | fuel + 1, g :: r, as, h => by
    simp only [expandKids] at h
    cases h1 : expandOne env ns fuel g with
    | error e => simp [h1] at h
    | ok here =>
      simp only [h1, ebind_ok] at h
      cases h2 : expandKids env ns fuel r with
      | error e => simp [h2] at h
      | ok rest =>
        simp only [h2, ebind_ok, epure, Except.ok.injEq] at h
        subst h
        exact (deepAll_append ns _ _).2 ⟨expandOne_deep env ns fuel g here h1, expandKids_deep env ns fuel r rest h2⟩
theorem expandOne_deep (env : GEnv) (ns : Tok) : ∀ (fuel : Nat) (g : G) (as : List A),
    expandOne env ns fuel g = .ok as → deepAll ns as = true
  | 0, g, as, h => by simp [expandOne] at h
  | fuel + 1, .container n m p ks, as, h => by
    simp only [expandOne] at h
    cases hk : expandKids env ns fuel ks with
    | error e => simp [hk] at h
    | ok ks' =>
      simp only [hk, ebind_ok, epure, Except.ok.injEq] at h; subst h
      simp [deepAll, deepNs, expandKids_deep env ns fuel ks ks' hk]
  | fuel + 1, .list n m keys mn mx ks, as, h => by
    simp only [expandOne] at h
    cases hk : expandKids env ns fuel ks with
    | error e => simp [hk] at h
    | ok ks' =>
      simp only [hk, ebind_ok, epure, Except.ok.injEq] at h; subst h
      simp [deepAll, deepNs, expandKids_deep env ns fuel ks ks' hk]
  | fuel + 1, .leaf n m md d, as, h => by
    simp only [expandOne, epure, Except.ok.injEq] at h; subst h; simp [deepAll, deepNs]
  | fuel + 1, .leafList n m mn mx, as, h => by
    simp only [expandOne, epure, Except.ok.injEq] at h; subst h; simp [deepAll, deepNs]
  | fuel + 1, .choice n m md d cs, as, h => by
    simp only [expandOne] at h
    cases hk : expandKids env ns fuel cs with
    | error e => simp [hk] at h
    | ok ks' =>
      simp only [hk, ebind_ok, epure, Except.ok.injEq] at h; subst h
      simp [deepAll, deepNs, expandKids_deep env ns fuel cs ks' hk]
  | fuel + 1, .case n m ks, as, h => by
    simp only [expandOne] at h
    cases hk : expandKids env ns fuel ks with
    | error e => simp [hk] at h
    | ok ks' =>
      simp only [hk, ebind_ok, epure, Except.ok.injEq] at h; subst h
      simp [deepAll, deepNs, expandKids_deep env ns fuel ks ks' hk]
  | fuel + 1, .aug p i k, as, h => by
    simp only [expandOne, epure, Except.ok.injEq] at h; subst h; rfl
  | fuel + 1, .uses gn iff refines augs, as, h => by
    simp only [expandOne] at h
    cases hl : env.lookup gn with
    | none => simp [hl] at h
    | some body =>
      simp only [hl] at h
      cases hb : expandKids env ns fuel body with
      | error e => simp [hb] at h
      | ok kids =>
        simp only [hb, ebind_ok] at h
        have h0 : deepAll ns (kids.map (addIff iff)) = true :=
          deepAll_map ns _ (deep_addIff ns iff) _ (expandKids_deep env ns fuel body kids hb)
        cases hr : refines.foldlM applyRefine (kids.map (addIff iff)) with
        | error e => simp [hr] at h
        | ok k2 =>
          simp only [hr, ebind_ok] at h
          have h1 : deepAll ns k2 = true :=
            foldlM_pres (fun l => deepAll ns l = true) applyRefine (applyRefine_deep ns) refines _ _ hr h0
          exact foldlM_pres (fun l => deepAll ns l = true) _
            (applyUsesAug_deep ns _ (fun gs as hx => expandKids_deep env ns fuel gs as hx)) augs _ _ h h1
  | fuel + 1, .stat st g, as, h => by
    simp only [expandOne] at h
    cases hr : expandOne env ns fuel g with
    | error e => simp [hr] at h
    | ok r =>
      simp only [hr, ebind_ok, epure, Except.ok.injEq] at h
      subst h
      exact deepAll_map ns _ (deep_addSt ns st) _ (expandOne_deep env ns fuel g r hr)
end

mutual
theorem stamp_deep (ns : Tok) : ∀ a : A, deepNs ns a = true → stamp ns a = a
  | .container n m p ks, h => by
    simp only [deepNs, Bool.and_eq_true, decide_eq_true_eq] at h
    simp only [stamp, stampAll_deep ns ks h.2]; rw [← h.1]
  | .list n m k a b ks, h => by
    simp only [deepNs, Bool.and_eq_true, decide_eq_true_eq] at h
    simp only [stamp, stampAll_deep ns ks h.2]; rw [← h.1]
  | .leaf n m md d, h => by
    simp only [deepNs, decide_eq_true_eq] at h
    simp only [stamp]; rw [← h]
  | .leafList n m a b, h => by
    simp only [deepNs, decide_eq_true_eq] at h
    simp only [stamp]; rw [← h]
  | .choice n m md d cs, h => by
    simp only [deepNs, Bool.and_eq_true, decide_eq_true_eq] at h
    simp only [stamp, stampAll_deep ns cs h.2]; rw [← h.1]
  | .case n m ks, h => by
    simp only [deepNs, Bool.and_eq_true, decide_eq_true_eq] at h
    simp only [stamp, stampAll_deep ns ks h.2]; rw [← h.1]
theorem stampAll_deep (ns : Tok) : ∀ l : List A, deepAll ns l = true → stampAll ns l = l
  | [], _ => rfl
  | a :: r, h => by
    simp only [deepAll, Bool.and_eq_true] at h
    simp only [stampAll, stamp_deep ns a h.1, stampAll_deep ns r h.2]
end

mutual
/-- a definition without uses expands — whatever groupings are in scope — to itself, with the module it is
    expanded in written on every node -/
theorem expand_embed (env : GEnv) (ns : Tok) : ∀ (a : A) (fuel : Nat), sz a < fuel →
    expandOne env ns fuel (embed a) = .ok [stamp ns a]
  | .container n m p ks, fuel, hf => by
    cases fuel with
    | zero => omega
    | succ f =>
      simp only [sz] at hf
      simp only [embed, expandOne, expand_embedAll env ns ks f (by omega), ebind_ok, epure, stamp]
  | .list n m k a b ks, fuel, hf => by
    cases fuel with
    | zero => omega
    | succ f =>
      simp only [sz] at hf
      simp only [embed, expandOne, expand_embedAll env ns ks f (by omega), ebind_ok, epure, stamp]
  | .leaf n m md d, fuel, hf => by
    cases fuel with
    | zero => omega
    | succ f => simp only [embed, expandOne, epure, stamp]
  | .leafList n m a b, fuel, hf => by
    cases fuel with
    | zero => omega
    | succ f => simp only [embed, expandOne, epure, stamp]
  | .choice n m md d cs, fuel, hf => by
    cases fuel with
    | zero => omega
    | succ f =>
      simp only [sz] at hf
      simp only [embed, expandOne, expand_embedAll env ns cs f (by omega), ebind_ok, epure, stamp]
  | .case n m ks, fuel, hf => by
    cases fuel with
    | zero => omega
    | succ f =>
      simp only [sz] at hf
      simp only [embed, expandOne, expand_embedAll env ns ks f (by omega), ebind_ok, epure, stamp]
theorem expand_embedAll (env : GEnv) (ns : Tok) : ∀ (l : List A) (fuel : Nat), szAll l ≤ fuel →
    expandKids env ns fuel (embed.embedAll l) = .ok (stampAll ns l)
  | [], fuel, hf => by
    cases fuel with
    | zero => simp [szAll] at hf
    | succ f => simp only [embed.embedAll, expandKids, epure, stampAll]
  | a :: r, fuel, hf => by
    cases fuel with
    | zero => simp [szAll] at hf
    | succ f =>
      simp only [szAll] at hf
      have := szAll_pos r
      simp only [embed.embedAll, expandKids, expand_embed env ns a f (by omega),
        expand_embedAll env ns r f (by omega), ebind_ok, epure, stampAll, List.singleton_append]
end

/-- **the expansion written out as source compiles to itself.** If a list of definitions with uses, refines and
    augments expands to `r` in module `ns`, then `r` written as source — a text without any uses: the grouping
    bodies and augmenting nodes in place, the refinements applied — expands to `r` again, in any grouping
    environment -/
theorem expand_fixed_point (env env' : GEnv) (ns : Tok) (fuel : Nat) (gs : List G) (r : List A)
    (h : expandKids env ns fuel gs = .ok r) (fuel' : Nat) (hf : szAll r ≤ fuel') :
    expandKids env' ns fuel' (embed.embedAll r) = .ok r := by
  rw [expand_embedAll env' ns r fuel' hf, stampAll_deep ns r (expandKids_deep env ns fuel gs r h)]

end YV.C
