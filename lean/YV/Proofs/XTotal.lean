/-
  Proofs.XTotal — the must/when parser and the leafref path parser never run out of the fuel the model gives
  them: every call that recurses without having consumed a token is one of a bounded chain, so the outcome
  of building a machine is a machine or an error for every token list (`Built.diverge` is unreachable).
-/
import YV.Model.XParse
namespace YV.XP
open YV YV.X YV.XL

def K : Nat := 24

def NoFuel (r : P PSt) : Prop := r ≠ .error .fuel

/-- under the premise `p` (enough fuel) the result is not a fuel error; a successful result has at most
    `n` tokens left -/
def OkP (p : Prop) (n : Nat) (r : P PSt) : Prop := (p → NoFuel r) ∧ ∀ s', r = .ok s' → s'.toks.length ≤ n

theorem OkP_pure (p : Prop) (n : Nat) (s : PSt) (h : s.toks.length ≤ n) : OkP p n (pure s) :=
  ⟨fun _ => by simp [NoFuel, pure, Except.pure], fun s' hs => by
    simp only [pure, Except.pure] at hs; injection hs with hs; subst hs; exact h⟩

theorem OkP_ok (p : Prop) (n : Nat) (s : PSt) (h : s.toks.length ≤ n) : OkP p n (.ok s) := OkP_pure p n s h

theorem OkP_syn (p : Prop) (n : Nat) (s : PSt) : OkP p n (synErr s) :=
  ⟨fun _ => by simp [NoFuel, synErr], fun s' hs => by simp [synErr] at hs⟩

theorem OkP_bind (p : Prop) (n : Nat) (x : P PSt) (g : PSt → P PSt) (hx : OkP p n x)
    (hg : ∀ a, a.toks.length ≤ n → OkP p n (g a)) : OkP p n (x >>= g) := by
  cases x with
  | error e =>
    refine ⟨fun hp => ?_, fun s' hs => by simp [bind, Except.bind] at hs⟩
    have := hx.1 hp
    simp only [bind, Except.bind]
    intro h; injection h with h; exact this (by rw [h])
  | ok a =>
    have ha := hx.2 a rfl
    simpa [bind, Except.bind] using hg a ha

theorem OkP_weaken (p q : Prop) (n m : Nat) (r : P PSt) (h : OkP q m r) (hpq : p → q) (hmn : m ≤ n) : OkP p n r :=
  ⟨fun hp => h.1 (hpq hp), fun s' hs => Nat.le_trans (h.2 s' hs) hmn⟩

theorem len_adv (s : PSt) : (adv s).toks.length ≤ s.toks.length := by simp [adv]
theorem len_emit (s : PSt) (i : PI) : (emit s i).toks.length = s.toks.length := rfl
theorem len_setErr (s : PSt) (m : String) : (setErr s m).toks.length = s.toks.length := rfl

theorem len_adv_lt (s : PSt) (h : peekTok s ≠ .eof) : (adv s).toks.length + 1 ≤ s.toks.length := by
  unfold peekTok at h
  cases ht : s.toks with
  | nil => simp [ht] at h
  | cons t r => simp [adv, ht]

theorem OkP_expectCh (p : Prop) (n : Nat) (c : Char) (s : PSt) (h : s.toks.length ≤ n) : OkP p n (expectCh c s) := by
  unfold expectCh
  split
  · exact OkP_pure p n _ (Nat.le_trans (len_adv s) h)
  · exact OkP_syn p n s

/-- the offsets: how many calls can follow one another before a token is consumed -/
structure Inv (f : Nat) : Prop where
  level : ∀ lvl s, OkP (K * s.toks.length + (6 + (6 - lvl)) ≤ f) s.toks.length (pLevel f lvl s)
  levelRest : ∀ lvl s, OkP (K * s.toks.length + 1 ≤ f) s.toks.length (pLevelRest f lvl s)
  unary : ∀ s, OkP (K * s.toks.length + 5 ≤ f) s.toks.length (pUnary f s)
  unionRest : ∀ s, OkP (K * s.toks.length + 1 ≤ f) s.toks.length (pUnionRest f s)
  path : ∀ s, OkP (K * s.toks.length + 4 ≤ f) s.toks.length (pPath f s)
  locPath : ∀ s, OkP (K * s.toks.length + 3 ≤ f) s.toks.length (pLocationPath f s)
  filterPath : ∀ s, OkP (K * s.toks.length + 3 ≤ f) s.toks.length (pFilterPath f s)
  primary : ∀ s, OkP (K * s.toks.length + 1 ≤ f) s.toks.length (pPrimary f s)
  preds : ∀ s, OkP (K * s.toks.length + 1 ≤ f) s.toks.length (pPreds f s)
  relPath : ∀ s, OkP (K * s.toks.length + 2 ≤ f) s.toks.length (pRelPath f s)
  step : ∀ s, OkP (K * s.toks.length + 1 ≤ f) s.toks.length (pStep f s)

theorem OkP_fuel0 (p : Prop) (n : Nat) (hp : ¬ p) : OkP p n (.error .fuel) :=
  ⟨fun h => absurd h hp, fun s' hs => by simp at hs⟩

theorem inv_zero : Inv 0 := by
  constructor <;> intros <;> (first | exact OkP_fuel0 _ _ (by simp [K]) | skip)
  all_goals (simp only [pLevel, pLevelRest, pUnary, pUnionRest, pPath, pLocationPath, pFilterPath, pPrimary, pPreds, pRelPath, pStep]; exact OkP_fuel0 _ _ (by omega))

end YV.XP
