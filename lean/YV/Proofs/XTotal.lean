/-
  Proofs.XTotal — the must/when parser and the leafref path parser never run out of the fuel the model gives
  them: every call that recurses without having consumed a token is one of a bounded chain, so the outcome
  of building a machine is a machine or an error for every token list (`Built.diverge` is unreachable).
-/
import YV.Model.XParse
namespace YV.XP
open YV YV.X YV.XL

def NoFuel (r : P PSt) : Prop := r ≠ .error .fuel

/-- under the premise `p` (enough fuel) the result is not a fuel error; a successful result has at most
    `n` tokens left -/
def OkP (p : Prop) (n : Nat) (r : P PSt) : Prop := (p → NoFuel r) ∧ ∀ s', r = .ok s' → s'.toks.length ≤ n

theorem OkP_pure (p : Prop) (n : Nat) (s : PSt) (h : s.toks.length ≤ n) : OkP p n (pure s) :=
  ⟨fun _ => by simp [NoFuel, pure, Except.pure], fun s' hs => by
    simp only [pure, Except.pure] at hs; injection hs with hs; subst hs; exact h⟩

theorem OkP_ok (p : Prop) (n : Nat) (s : PSt) (h : s.toks.length ≤ n) : OkP p n (.ok s) := OkP_pure p n s h

theorem OkP_syn (p : Prop) (n : Nat) (s : PSt) : OkP p n (synErr s) :=
  ⟨fun _ => by simp [NoFuel, synErr], fun s' hs => by simp [synErr] at hs⟩

theorem OkP_bind (p : Prop) (n : Nat) (x : P PSt) (g : PSt → P PSt) (hx : OkP p n x)
    (hg : ∀ a, a.toks.length ≤ n → OkP p n (g a)) : OkP p n (x >>= g) := by
  cases x with
  | error e =>
    refine ⟨fun hp => ?_, fun s' hs => by simp [bind, Except.bind] at hs⟩
    have := hx.1 hp
    simp only [bind, Except.bind]
    intro h; injection h with h; exact this (by rw [h])
  | ok a =>
    have ha := hx.2 a rfl
    simpa [bind, Except.bind] using hg a ha

theorem OkP_weaken (p q : Prop) (n m : Nat) (r : P PSt) (h : OkP q m r) (hpq : p → q) (hmn : m ≤ n) : OkP p n r :=
  ⟨fun hp => h.1 (hpq hp), fun s' hs => Nat.le_trans (h.2 s' hs) hmn⟩

theorem len_adv (s : PSt) : (adv s).toks.length ≤ s.toks.length := by simp [adv]
theorem len_emit (s : PSt) (i : PI) : (emit s i).toks.length = s.toks.length := rfl
theorem len_setErr (s : PSt) (m : String) : (setErr s m).toks.length = s.toks.length := rfl

theorem len_adv_lt (s : PSt) (h : peekTok s ≠ .eof) : (adv s).toks.length + 1 ≤ s.toks.length := by
  unfold peekTok at h
  cases ht : s.toks with
  | nil => simp [ht] at h
  | cons t r => simp [adv, ht]

theorem OkP_expectCh (p : Prop) (n : Nat) (c : Char) (s : PSt) (h : s.toks.length ≤ n) : OkP p n (expectCh c s) := by
  unfold expectCh
  split
  · exact OkP_pure p n _ (Nat.le_trans (len_adv s) h)
  · exact OkP_syn p n s

/-- the offsets: how many calls can follow one another before a token is consumed -/
structure Inv (f : Nat) : Prop where
  level : ∀ lvl s, OkP (24 * s.toks.length + (6 + (6 - lvl)) ≤ f) s.toks.length (pLevel f lvl s)
  levelRest : ∀ lvl s, OkP (24 * s.toks.length + 1 ≤ f) s.toks.length (pLevelRest f lvl s)
  unary : ∀ s, OkP (24 * s.toks.length + 5 ≤ f) s.toks.length (pUnary f s)
  unionRest : ∀ s, OkP (24 * s.toks.length + 1 ≤ f) s.toks.length (pUnionRest f s)
  path : ∀ s, OkP (24 * s.toks.length + 4 ≤ f) s.toks.length (pPath f s)
  locPath : ∀ s, OkP (24 * s.toks.length + 3 ≤ f) s.toks.length (pLocationPath f s)
  filterPath : ∀ s, OkP (24 * s.toks.length + 3 ≤ f) s.toks.length (pFilterPath f s)
  primary : ∀ s, OkP (24 * s.toks.length + 1 ≤ f) s.toks.length (pPrimary f s)
  preds : ∀ s, OkP (24 * s.toks.length + 1 ≤ f) s.toks.length (pPreds f s)
  relPath : ∀ s, OkP (24 * s.toks.length + 2 ≤ f) s.toks.length (pRelPath f s)
  step : ∀ s, OkP (24 * s.toks.length + 1 ≤ f) s.toks.length (pStep f s)

theorem OkP_fuel0 (p : Prop) (n : Nat) (hp : ¬ p) : OkP p n (.error .fuel) :=
  ⟨fun h => absurd h hp, fun s' hs => by simp at hs⟩

theorem inv_zero : Inv 0 := by
  constructor <;> intros <;> (first | exact OkP_fuel0 _ _ (by omega) | skip)
  all_goals (simp only [pLevel, pLevelRest, pUnary, pUnionRest, pPath, pLocationPath, pFilterPath, pPrimary, pPreds, pRelPath, pStep]; exact OkP_fuel0 _ _ (by omega))


theorem peek_ne_eof_of_eq (s : PSt) (t : Tok) (h : peekTok s = t) (ht : t ≠ .eof) : peekTok s ≠ .eof := by
  rw [h]; exact ht

/-- the inductive step for the binary levels, unary minus and union -/
theorem step_level (f : Nat) (ih : Inv f) (lvl : Nat) (s : PSt) :
    OkP (24 * s.toks.length + (6 + (6 - lvl)) ≤ f + 1) s.toks.length (pLevel (f + 1) lvl s) := by
  simp only [pLevel]
  split
  · exact OkP_weaken _ _ _ _ _ (ih.unary s) (by omega) (Nat.le_refl _)
  · apply OkP_bind _ _ _ _ (OkP_weaken _ _ _ _ _ (ih.level (lvl + 1) s) (by omega) (Nat.le_refl _))
    intro a ha
    exact OkP_weaken _ _ _ _ _ (ih.levelRest lvl a) (by omega) ha

theorem step_levelRest (f : Nat) (ih : Inv f) (lvl : Nat) (s : PSt) :
    OkP (24 * s.toks.length + 1 ≤ f + 1) s.toks.length (pLevelRest (f + 1) lvl s) := by
  simp only [pLevelRest]
  split
  · exact OkP_pure _ _ _ (Nat.le_refl _)
  · rename_i i hi
    have hne : peekTok s ≠ .eof := by
      intro h; rw [h] at hi
      rcases lvl with _ | _ | _ | _ | _ | _ | l <;> simp [binOpAt] at hi
    have hlt := len_adv_lt s hne
    apply OkP_weaken _ _ _ (adv s).toks.length _ _ id (len_adv s)
    apply OkP_bind _ _ _ _ (OkP_weaken _ _ _ _ _ (ih.level (lvl + 1) (adv s)) (by omega) (Nat.le_refl _))
    intro a ha
    exact OkP_weaken _ _ _ _ _ (ih.levelRest lvl (emit a i)) (by simp only [len_emit]; omega) (by simp only [len_emit]; exact ha)

theorem step_unary (f : Nat) (ih : Inv f) (s : PSt) :
    OkP (24 * s.toks.length + 5 ≤ f + 1) s.toks.length (pUnary (f + 1) s) := by
  simp only [pUnary]
  split
  · rename_i h
    have hlt := len_adv_lt s (peek_ne_eof_of_eq s _ h (by simp))
    apply OkP_bind _ _ _ _ (OkP_weaken _ _ _ _ _ (ih.unary (adv s)) (by omega) (by omega))
    intro a ha
    exact OkP_pure _ _ _ (by simp only [len_emit]; exact ha)
  · apply OkP_bind _ _ _ _ (OkP_weaken _ _ _ _ _ (ih.path s) (by omega) (Nat.le_refl _))
    intro a ha
    exact OkP_weaken _ _ _ _ _ (ih.unionRest a) (by omega) ha

theorem step_unionRest (f : Nat) (ih : Inv f) (s : PSt) :
    OkP (24 * s.toks.length + 1 ≤ f + 1) s.toks.length (pUnionRest (f + 1) s) := by
  simp only [pUnionRest]
  split
  · rename_i h
    have hlt := len_adv_lt s (peek_ne_eof_of_eq s _ h (by simp))
    apply OkP_weaken _ _ _ (adv s).toks.length _ _ id (len_adv s)
    apply OkP_bind _ _ _ _ (OkP_weaken _ _ _ _ _ (ih.path (adv s)) (by omega) (Nat.le_refl _))
    intro a ha
    exact OkP_weaken _ _ _ _ _ (ih.unionRest (emit a .union)) (by simp only [len_emit]; omega) (by simp only [len_emit]; exact ha)
  · exact OkP_pure _ _ _ (Nat.le_refl _)


theorem step_preds (f : Nat) (ih : Inv f) (s : PSt) :
    OkP (24 * s.toks.length + 1 ≤ f + 1) s.toks.length (pPreds (f + 1) s) := by
  simp only [pPreds]
  split
  · rename_i h
    have hlt := len_adv_lt s (peek_ne_eof_of_eq s _ h (by simp))
    apply OkP_weaken _ _ _ (adv s).toks.length _ _ id (len_adv s)
    apply OkP_bind _ _ _ _ (OkP_weaken _ _ _ _ _ (ih.level 0 (emit (adv s) .predStart)) (by simp only [len_emit]; omega) (by simp [len_emit]))
    intro a ha
    apply OkP_bind _ _ _ _ (OkP_expectCh _ _ ']' a ha)
    intro b hb
    exact OkP_weaken _ _ _ _ _ (ih.preds (emit b .predEnd)) (by simp only [len_emit]; omega) (by simp only [len_emit]; exact hb)
  · exact OkP_pure _ _ _ (Nat.le_refl _)

/-- the node test of a step (shared by the three ways a step can start) -/
theorem okP_nodeTest (f : Nat) (ih : Inv f) (p : Prop) (n : Nat) (s : PSt) (hn : s.toks.length ≤ n)
    (hp : p → 24 * s.toks.length + 1 ≤ f + 1) :
    OkP p n (match peekTok s with
      | .nametest px l => do
        let s := emit (adv s) (.namePush px l)
        if peekTok s = .ch (chr '[') then do
          let s ← pPreds f (emit s .predicatesStart)
          pure (emit s .predicatesEnd)
        else pure s
      | _ => synErr s) := by
  split
  · rename_i px l h
    have hlt := len_adv_lt s (peek_ne_eof_of_eq s _ h (by simp))
    simp only []
    split
    · apply OkP_bind _ _ _ _ (OkP_weaken _ _ _ _ _ (ih.preds (emit (emit (adv s) (.namePush px l)) .predicatesStart))
        (by intro h; have := hp h; simp only [len_emit]; omega) (by simp only [len_emit]; omega))
      intro a ha
      exact OkP_pure _ _ _ (by simp only [len_emit]; exact ha)
    · exact OkP_pure _ _ _ (by simp only [len_emit]; omega)
  · exact OkP_syn _ _ _


theorem step_step (f : Nat) (ih : Inv f) (s : PSt) :
    OkP (24 * s.toks.length + 1 ≤ f + 1) s.toks.length (pStep (f + 1) s) := by
  simp only [pStep]
  split
  · rename_i c h
    split
    · exact OkP_pure _ _ _ (len_adv s)
    · split
      · exact okP_nodeTest f ih _ _ _ (by simp only [len_setErr]; exact len_adv s)
          (by intro hp; have := len_adv s; simp only [len_setErr]; omega)
      · exact OkP_syn _ _ _
  · exact OkP_pure _ _ _ (by simp only [len_emit]; exact len_adv s)
  · split
    · exact okP_nodeTest f ih _ _ _ (by simp only [len_setErr]; exact Nat.le_trans (len_adv _) (len_adv s))
        (by intro hp; have := len_adv s; have := len_adv (adv s); simp only [len_setErr]; omega)
    · exact OkP_syn _ _ _
  · exact okP_nodeTest f ih _ _ _ (Nat.le_refl _) id
  · exact OkP_syn _ _ _


theorem step_relPath (f : Nat) (ih : Inv f) (s : PSt) :
    OkP (24 * s.toks.length + 2 ≤ f + 1) s.toks.length (pRelPath (f + 1) s) := by
  simp only [pRelPath]
  apply OkP_bind _ _ _ _ (OkP_weaken _ _ _ _ _ (ih.step s) (by omega) (Nat.le_refl _))
  intro a ha
  split
  · rename_i c h
    split
    · have hlt := len_adv_lt a (peek_ne_eof_of_eq a _ h (by simp))
      exact OkP_weaken _ _ _ _ _ (ih.relPath (adv a)) (by omega) (by omega)
    · exact OkP_pure _ _ _ ha
  · rename_i h
    have hlt := len_adv_lt a (peek_ne_eof_of_eq a _ h (by simp))
    exact OkP_weaken _ _ _ _ _ (ih.relPath (setErr (adv a) "// unsupported")) (by simp only [len_setErr]; omega) (by simp only [len_setErr]; omega)
  · exact OkP_pure _ _ _ ha


theorem len_fin (s : PSt) (c : Prop) [Decidable c] (m : String) (i : PI) :
    (emit (if c then setErr s m else s) i).toks.length = s.toks.length := by
  split <;> rfl

theorem step_primary (f : Nat) (ih : Inv f) (s : PSt) :
    OkP (24 * s.toks.length + 1 ≤ f + 1) s.toks.length (pPrimary (f + 1) s) := by
  simp only [pPrimary]
  split
  · rename_i c h
    have hlt := len_adv_lt s (peek_ne_eof_of_eq s _ h (by simp))
    split
    · split
      · split
        · exact OkP_syn _ _ _
        · exact OkP_pure _ _ _ (Nat.le_trans (len_adv _) (len_adv s))
      · apply OkP_weaken _ _ _ (adv s).toks.length _ _ id (len_adv s)
        apply OkP_bind _ _ _ _ (OkP_weaken _ _ _ _ _ (ih.level 0 (adv s)) (by omega) (Nat.le_refl _))
        intro a ha
        exact OkP_expectCh _ _ ')' a ha
    · exact OkP_syn _ _ _
  · exact OkP_pure _ _ _ (by simp only [len_emit]; exact len_adv s)
  · exact OkP_pure _ _ _ (by simp only [len_emit]; exact len_adv s)
  · exact OkP_pure _ _ _ (by simp only [len_setErr]; exact len_adv s)
  · apply OkP_bind _ _ _ _ (OkP_expectCh _ _ '(' (adv s) (len_adv s))
    intro a ha
    exact OkP_expectCh _ _ ')' a ha
  · rename_i fn h
    have hlt := len_adv_lt s (peek_ne_eof_of_eq s _ h (by simp))
    apply OkP_weaken _ _ _ (adv s).toks.length _ _ id (len_adv s)
    apply OkP_bind _ _ _ _ (OkP_expectCh _ _ '(' (adv s) (Nat.le_refl _))
    intro a ha
    split
    · exact OkP_pure _ _ _ (by rw [len_fin]; exact Nat.le_trans (len_adv a) ha)
    · apply OkP_bind _ _ _ _ (OkP_weaken _ _ _ _ _ (ih.level 0 a) (by omega) ha)
      intro b hb
      split
      · exact OkP_pure _ _ _ (by rw [len_fin]; exact Nat.le_trans (len_adv b) hb)
      · apply OkP_bind _ _ _ _ (OkP_expectCh _ _ ',' b hb)
        intro c hc
        apply OkP_bind _ _ _ _ (OkP_weaken _ _ _ _ _ (ih.level 0 c) (by omega) hc)
        intro d hd
        split
        · exact OkP_pure _ _ _ (by rw [len_fin]; exact Nat.le_trans (len_adv d) hd)
        · apply OkP_bind _ _ _ _ (OkP_expectCh _ _ ',' d hd)
          intro e he
          apply OkP_bind _ _ _ _ (OkP_weaken _ _ _ _ _ (ih.level 0 e) (by omega) he)
          intro g hg
          apply OkP_bind _ _ _ _ (OkP_expectCh _ _ ')' g hg)
          intro k hk
          exact OkP_pure _ _ _ (by rw [len_fin]; exact hk)
  · exact OkP_syn _ _ _


theorem step_filterPath (f : Nat) (ih : Inv f) (s : PSt) :
    OkP (24 * s.toks.length + 3 ≤ f + 1) s.toks.length (pFilterPath (f + 1) s) := by
  simp only [pFilterPath]
  apply OkP_bind _ _ _ _ (OkP_weaken _ _ _ _ _ (ih.primary s) (by omega) (Nat.le_refl _))
  intro a ha
  apply OkP_bind _ _ _ _ (OkP_weaken _ _ _ _ _ (ih.preds a) (by omega) ha)
  intro b hb
  split
  · rename_i c h
    split
    · have := len_adv (emit b .filterExprEnd)
      apply OkP_bind _ _ _ _ (OkP_weaken _ _ _ _ _ (ih.relPath (adv (emit b .filterExprEnd)))
        (by simp only [len_emit] at this; omega) (by simp only [len_emit] at this; omega))
      intro d hd
      exact OkP_pure _ _ _ (by simp only [len_emit]; exact hd)
    · exact OkP_pure _ _ _ hb
  · have := len_adv (emit b .filterExprEnd)
    apply OkP_bind _ _ _ _ (OkP_weaken _ _ _ _ _ (ih.relPath (setErr (adv (emit b .filterExprEnd)) "// unsupported"))
      (by simp only [len_emit, len_setErr] at this ⊢; omega) (by simp only [len_emit, len_setErr] at this ⊢; omega))
    intro d hd
    exact OkP_pure _ _ _ (by simp only [len_emit]; exact hd)
  · exact OkP_pure _ _ _ hb

/-- what follows `current()` / `deref(…)`: an optional '/' RelativeLocationPath -/
theorem okP_optRel (f : Nat) (ih : Inv f) (p : Prop) (n : Nat) (s : PSt) (hn : s.toks.length ≤ n)
    (hp : p → 24 * s.toks.length + 2 ≤ f) :
    OkP p n (if peekTok s = .ch (chr '/') then pRelPath f (adv s) else pure s) := by
  split
  · have := len_adv s
    exact OkP_weaken _ _ _ _ _ (ih.relPath (adv s)) (by intro h; have := hp h; omega) (by omega)
  · exact OkP_pure _ _ _ hn

theorem step_locPath (f : Nat) (ih : Inv f) (s : PSt) :
    OkP (24 * s.toks.length + 3 ≤ f + 1) s.toks.length (pLocationPath (f + 1) s) := by
  simp only [pLocationPath]
  split
  · rename_i c h
    split
    · have := len_adv s
      split
      · exact OkP_weaken _ _ _ _ _ (ih.relPath (emit (adv s) .pathRoot)) (by simp only [len_emit]; omega) (by simp only [len_emit]; omega)
      · exact OkP_pure _ _ _ (by simp only [len_emit]; omega)
    · split
      · exact OkP_weaken _ _ _ _ _ (ih.relPath s) (by omega) (Nat.le_refl _)
      · exact OkP_syn _ _ _
  · have := len_adv s
    exact OkP_weaken _ _ _ _ _ (ih.relPath (setErr (adv s) "// unsupported")) (by simp only [len_setErr]; omega) (by simp only [len_setErr]; omega)
  · exact OkP_weaken _ _ _ _ _ (ih.relPath s) (by omega) (Nat.le_refl _)
  · exact OkP_weaken _ _ _ _ _ (ih.relPath s) (by omega) (Nat.le_refl _)
  · exact OkP_weaken _ _ _ _ _ (ih.relPath s) (by omega) (Nat.le_refl _)
  · apply OkP_bind _ _ _ _ (OkP_expectCh _ _ '(' (adv s) (len_adv s))
    intro a ha
    apply OkP_bind _ _ _ _ (OkP_expectCh _ _ ')' a ha)
    intro b hb
    exact okP_optRel f ih _ _ (emit b .pathSetCurrent) (by simp only [len_emit]; exact hb) (by simp only [len_emit]; omega)
  · rename_i h
    have hlt := len_adv_lt s (peek_ne_eof_of_eq s _ h (by simp))
    apply OkP_weaken _ _ _ (adv s).toks.length _ _ id (len_adv s)
    apply OkP_bind _ _ _ _ (OkP_expectCh _ _ '(' (adv s) (Nat.le_refl _))
    intro a ha
    apply OkP_bind _ _ _ _ (OkP_weaken _ _ _ _ _ (ih.locPath a) (by omega) ha)
    intro b hb
    apply OkP_bind _ _ _ _ (OkP_expectCh _ _ ')' b hb)
    intro c hc
    exact okP_optRel f ih _ _ (emit c .deref) (by simp only [len_emit]; exact hc) (by simp only [len_emit]; omega)
  · exact OkP_syn _ _ _


theorem OkP_emitEnd (p : Prop) (n : Nat) (x : P PSt) (i : PI) (hx : OkP p n x) :
    OkP p n (x >>= fun s => pure (emit s i)) :=
  OkP_bind _ _ _ _ hx (fun a ha => OkP_pure _ _ _ (by simp only [len_emit]; exact ha))

theorem step_path (f : Nat) (ih : Inv f) (s : PSt) :
    OkP (24 * s.toks.length + 4 ≤ f + 1) s.toks.length (pPath (f + 1) s) := by
  have hrel : OkP (24 * s.toks.length + 4 ≤ f + 1) s.toks.length (pRelPath f s >>= fun s => pure (emit s .evalLocPath)) :=
    OkP_emitEnd _ _ _ _ (OkP_weaken _ _ _ _ _ (ih.relPath s) (by omega) (Nat.le_refl _))
  have hfil : OkP (24 * s.toks.length + 4 ≤ f + 1) s.toks.length (pFilterPath f s) :=
    OkP_weaken _ _ _ _ _ (ih.filterPath s) (by omega) (Nat.le_refl _)
  simp only [pPath]
  split
  · rename_i c h
    split
    · exact hfil
    · split
      · have := len_adv s
        split
        · apply OkP_emitEnd
          exact OkP_weaken _ _ _ _ _ (ih.relPath (emit (adv s) .pathRoot)) (by simp only [len_emit]; omega) (by simp only [len_emit]; omega)
        · apply OkP_emitEnd
          exact OkP_pure _ _ _ (by simp only [len_emit]; omega)
      · split
        · exact hrel
        · exact OkP_syn _ _ _
  · have := len_adv s
    exact OkP_emitEnd _ _ _ _ (OkP_weaken _ _ _ _ _ (ih.relPath (setErr (adv s) "// unsupported"))
      (by simp only [len_setErr]; omega) (by simp only [len_setErr]; omega))
  · exact hrel
  · exact hrel
  · exact hrel
  · apply OkP_bind _ _ _ _ (OkP_expectCh _ _ '(' (adv s) (len_adv s))
    intro a ha
    apply OkP_bind _ _ _ _ (OkP_expectCh _ _ ')' a ha)
    intro b hb
    have := len_adv (emit b .pathSetCurrent)
    simp only [len_emit] at this
    split
    · apply OkP_emitEnd
      exact OkP_weaken _ _ _ _ _ (ih.relPath (adv (emit b .pathSetCurrent))) (by omega) (by omega)
    · apply OkP_emitEnd
      exact OkP_pure _ _ _ (by simp only [len_emit]; exact hb)
  · rename_i h
    have hlt := len_adv_lt s (peek_ne_eof_of_eq s _ h (by simp))
    apply OkP_weaken _ _ _ (adv s).toks.length _ _ id (len_adv s)
    apply OkP_bind _ _ _ _ (OkP_expectCh _ _ '(' (adv s) (Nat.le_refl _))
    intro a ha
    apply OkP_bind _ _ _ _ (OkP_weaken _ _ _ _ _ (ih.locPath a) (by omega) ha)
    intro b hb
    apply OkP_bind _ _ _ _ (OkP_expectCh _ _ ')' b hb)
    intro c hc
    have := len_adv (emit c .deref)
    simp only [len_emit] at this
    split
    · apply OkP_emitEnd
      exact OkP_weaken _ _ _ _ _ (ih.relPath (adv (emit c .deref))) (by omega) (by omega)
    · apply OkP_emitEnd
      exact OkP_pure _ _ _ (by simp only [len_emit]; exact hc)
  · exact hfil
  · exact hfil
  · exact hfil
  · exact hfil
  · exact hfil
  · exact OkP_syn _ _ _


theorem inv_all (f : Nat) : Inv f := by
  induction f with
  | zero => exact inv_zero
  | succ f ih =>
    exact ⟨step_level f ih, step_levelRest f ih, step_unary f ih, step_unionRest f ih, step_path f ih,
      step_locPath f ih, step_filterPath f ih, step_primary f ih, step_preds f ih, step_relPath f ih,
      step_step f ih⟩

/-- the must/when parser never runs out of the fuel it is given -/
theorem parseExprToks_nofuel (strict : Bool) (toks : List LexedTok) : parseExprToks strict toks ≠ .error .fuel := by
  unfold parseExprToks
  have h := (inv_all (24 * toks.length + 24)).level 0 { toks := toks, strict := strict }
  have hn : NoFuel (pLevel (24 * toks.length + 24) 0 { toks := toks, strict := strict }) := h.1 (by simp)
  cases hr : pLevel (24 * toks.length + 24) 0 { toks := toks, strict := strict } with
  | error e =>
    simp only [bind, Except.bind]
    intro hc; injection hc with hc
    exact hn (by rw [hr, hc])
  | ok s =>
    simp only [bind, Except.bind]
    split <;> simp [pure, Except.pure, synErr]


/-! ### the leafref path parser -/

/-- like `OkP`, with a strict bound: a successful result has consumed at least one token -/
def OkS (p : Prop) (n : Nat) (r : P PSt) : Prop := (p → NoFuel r) ∧ ∀ s', r = .ok s' → s'.toks.length + 1 ≤ n

theorem OkS_bind (p : Prop) (n : Nat) (x : P PSt) (g : PSt → P PSt) (hx : OkS p n x)
    (hg : ∀ a, a.toks.length + 1 ≤ n → OkS p n (g a)) : OkS p n (x >>= g) := by
  cases x with
  | error e =>
    refine ⟨fun hp => ?_, fun s' hs => by simp [bind, Except.bind] at hs⟩
    have := hx.1 hp
    simp only [bind, Except.bind]
    intro h; injection h with h; exact this (by rw [h])
  | ok a =>
    have ha := hx.2 a rfl
    simpa [bind, Except.bind] using hg a ha

theorem OkS_of_OkP (p : Prop) (n m : Nat) (r : P PSt) (h : OkP p m r) (hm : m + 1 ≤ n) : OkS p n r :=
  ⟨h.1, fun s' hs => by have := h.2 s' hs; omega⟩

theorem OkP_of_OkS (p : Prop) (n : Nat) (r : P PSt) (h : OkS p n r) : OkP p n r :=
  ⟨h.1, fun s' hs => by have := h.2 s' hs; omega⟩

theorem OkS_syn (p : Prop) (n : Nat) (s : PSt) : OkS p n (synErr s) :=
  ⟨fun _ => by simp [NoFuel, synErr], fun s' hs => by simp [synErr] at hs⟩

theorem OkS_lNodeId (p : Prop) (s : PSt) : OkS p s.toks.length (lNodeId s) := by
  unfold lNodeId
  split
  · rename_i px l h
    have hlt := len_adv_lt s (peek_ne_eof_of_eq s _ h (by simp))
    refine ⟨fun _ => by simp [NoFuel, pure, Except.pure], fun s' hs => ?_⟩
    simp only [pure, Except.pure] at hs; injection hs with hs; subst hs
    simp only [len_emit]; exact hlt
  · exact OkS_syn _ _ _

theorem OkP_lExpectTok (p : Prop) (n : Nat) (t : Tok) (s : PSt) (h : s.toks.length ≤ n) : OkP p n (lExpectTok t s) := by
  unfold lExpectTok
  split
  · exact OkP_pure p n _ (Nat.le_trans (len_adv s) h)
  · exact OkP_syn p n s

/-- continue a strict prefix with anything that does not grow the token list -/
theorem OkS_then (p : Prop) (n : Nat) (x : P PSt) (g : PSt → P PSt) (hx : OkS p n x)
    (hg : ∀ a, a.toks.length + 1 ≤ n → OkP p a.toks.length (g a)) : OkS p n (x >>= g) :=
  OkS_bind p n x g hx (fun a ha => OkS_of_OkP p n a.toks.length (g a) (hg a ha) ha)

structure InvL (f : Nat) : Prop where
  keyNames : ∀ s, OkP (8 * s.toks.length + 1 ≤ f) s.toks.length (lKeyPath.lKeyNames f s)
  keyPath : ∀ up s, OkP (8 * s.toks.length + 2 ≤ f) s.toks.length (lKeyPath f up s)
  afterNode : ∀ s, OkP (8 * s.toks.length + 3 ≤ f) s.toks.length (lSteps.lAfterNode f s)
  steps : ∀ s, OkP (8 * s.toks.length + 1 ≤ f) s.toks.length (lSteps f s)
  preds : ∀ s, OkP (8 * s.toks.length + 3 ≤ f) s.toks.length (lPreds f s)
  rel : ∀ s, OkP (8 * s.toks.length + 1 ≤ f) s.toks.length (lRel f s)

theorem invL_zero : InvL 0 := by
  constructor <;> intros
  all_goals (simp only [lKeyPath.lKeyNames, lKeyPath, lSteps.lAfterNode, lSteps, lPreds, lRel]; exact OkP_fuel0 _ _ (by omega))

/-- the tail of a predicate after `current`: `( ) / key-path ]` -/
theorem okP_predTail (f : Nat) (ih : InvL f) (p : Prop) (n : Nat) (c : PSt) (hc : c.toks.length ≤ n)
    (hp : p → 8 * n + 2 ≤ f) :
    OkP p n (do
      let s ← expectCh '(' c
      let s ← expectCh ')' s
      let s ← expectCh '/' s
      let s ← lKeyPath f false s
      let s ← expectCh ']' s
      pure (emit s .lrefPredEnd)) := by
  apply OkP_bind _ _ _ _ (OkP_expectCh _ _ '(' c hc)
  intro d hd
  apply OkP_bind _ _ _ _ (OkP_expectCh _ _ ')' d hd)
  intro e he
  apply OkP_bind _ _ _ _ (OkP_expectCh _ _ '/' e he)
  intro g hg
  apply OkP_bind _ _ _ _ (OkP_weaken _ _ _ _ _ (ih.keyPath false g) (by intro h; have := hp h; omega) hg)
  intro k hk
  apply OkP_bind _ _ _ _ (OkP_expectCh _ _ ']' k hk)
  intro m hm
  exact OkP_pure _ _ _ (by simp only [len_emit]; exact hm)

/-- one predicate: consumes at least its first name -/
theorem okS_lPred (f : Nat) (ih : InvL f) (s : PSt) :
    OkS (8 * s.toks.length + 2 ≤ f) s.toks.length (lPred f s) := by
  unfold lPred
  have h0 : (emit (adv s) .lrefPredStart).toks.length ≤ s.toks.length := by simp only [len_emit]; exact len_adv s
  have hn := OkS_lNodeId (8 * s.toks.length + 2 ≤ f) (emit (adv s) .lrefPredStart)
  have hn' : OkS (8 * s.toks.length + 2 ≤ f) s.toks.length (lNodeId (emit (adv s) .lrefPredStart)) :=
    ⟨hn.1, fun s' hs => by have := hn.2 s' hs; omega⟩
  apply OkS_then _ _ _ _ hn'
  intro a ha
  apply OkP_bind _ _ _ _ (OkP_lExpectTok _ _ .eq a (Nat.le_refl _))
  intro b hb
  simp only []
  split
  · apply OkP_bind _ _ _ _ (OkP_pure _ _ _ (Nat.le_trans (len_adv _) (by simp only [len_emit]; exact hb)))
    intro c hc
    exact okP_predTail f ih _ _ c hc (by omega)
  · apply OkP_bind _ _ _ _ (OkP_syn _ _ _)
    intro c hc
    exact okP_predTail f ih _ _ c hc (by omega)

theorem stepL_keyNames (f : Nat) (ih : InvL f) (s : PSt) :
    OkP (8 * s.toks.length + 1 ≤ f + 1) s.toks.length (lKeyPath.lKeyNames (f + 1) s) := by
  simp only [lKeyPath.lKeyNames]
  apply OkP_of_OkS
  apply OkS_then _ _ _ _ (OkS_lNodeId _ s)
  intro a ha
  split
  · have := len_adv a
    exact OkP_weaken _ _ _ _ _ (ih.keyNames (adv a)) (by omega) this
  · exact OkP_pure _ _ _ (Nat.le_refl _)

theorem stepL_keyPath (f : Nat) (ih : InvL f) (up : Bool) (s : PSt) :
    OkP (8 * s.toks.length + 2 ≤ f + 1) s.toks.length (lKeyPath (f + 1) up s) := by
  simp only [lKeyPath]
  split
  · rename_i h
    have hlt := len_adv_lt s (peek_ne_eof_of_eq s _ h (by simp))
    refine OkP_weaken _ _ _ (adv s).toks.length _ ?_ (fun h => h) (len_adv s)
    apply OkP_bind _ _ _ _ (OkP_expectCh _ _ '/' (emit (adv s) .pathDotDot) (by simp [len_emit]))
    intro a ha
    exact OkP_weaken _ _ _ _ _ (ih.keyPath true a) (by omega) ha
  · split
    · exact OkP_syn _ _ _
    · exact OkP_weaken _ _ _ _ _ (ih.keyNames s) (by omega) (Nat.le_refl _)
  · exact OkP_syn _ _ _

theorem stepL_afterNode (f : Nat) (ih : InvL f) (s : PSt) :
    OkP (8 * s.toks.length + 3 ≤ f + 1) s.toks.length (lSteps.lAfterNode (f + 1) s) := by
  simp only [lSteps.lAfterNode]
  split
  · apply OkP_of_OkS
    have hp := okS_lPred f ih s
    apply OkS_then _ _ _ _ ⟨fun h => hp.1 (by omega), hp.2⟩
    intro a ha
    exact OkP_weaken _ _ _ _ _ (ih.afterNode a) (by omega) (Nat.le_refl _)
  · split
    · have := len_adv s
      exact OkP_weaken _ _ _ _ _ (ih.steps (adv s)) (by omega) (by omega)
    · exact OkP_pure _ _ _ (Nat.le_refl _)

theorem stepL_steps (f : Nat) (ih : InvL f) (s : PSt) :
    OkP (8 * s.toks.length + 1 ≤ f + 1) s.toks.length (lSteps (f + 1) s) := by
  simp only [lSteps]
  apply OkP_of_OkS
  apply OkS_then _ _ _ _ (OkS_lNodeId _ s)
  intro a ha
  exact OkP_weaken _ _ _ _ _ (ih.afterNode a) (by omega) (Nat.le_refl _)

theorem stepL_preds (f : Nat) (ih : InvL f) (s : PSt) :
    OkP (8 * s.toks.length + 3 ≤ f + 1) s.toks.length (lPreds (f + 1) s) := by
  simp only [lPreds]
  apply OkP_of_OkS
  have hp := okS_lPred f ih s
  apply OkS_then _ _ _ _ ⟨fun h => hp.1 (by omega), hp.2⟩
  intro a ha
  split
  · exact OkP_weaken _ _ _ _ _ (ih.preds a) (by omega) (Nat.le_refl _)
  · exact OkP_pure _ _ _ (Nat.le_refl _)

theorem okP_lDesc (f : Nat) (ih : InvL f) (s : PSt) :
    OkP (8 * s.toks.length + 1 ≤ f) s.toks.length (lDesc f s) := by
  unfold lDesc
  apply OkP_of_OkS
  apply OkS_then _ _ _ _ (OkS_lNodeId _ s)
  intro a ha
  split
  · apply OkP_bind _ _ _ _ (OkP_weaken _ _ _ _ _ (ih.preds a) (by omega) (Nat.le_refl _))
    intro b hb
    apply OkP_bind _ _ _ _ (OkP_expectCh _ _ '/' b hb)
    intro c hc
    exact OkP_weaken _ _ _ _ _ (ih.steps c) (by omega) hc
  · split
    · have := len_adv a
      exact OkP_weaken _ _ _ _ _ (ih.steps (adv a)) (by omega) this
    · exact OkP_pure _ _ _ (Nat.le_refl _)

theorem stepL_rel (f : Nat) (ih : InvL f) (s : PSt) :
    OkP (8 * s.toks.length + 1 ≤ f + 1) s.toks.length (lRel (f + 1) s) := by
  simp only [lRel]
  split
  · rename_i h
    have hlt := len_adv_lt s (peek_ne_eof_of_eq s _ h (by simp))
    refine OkP_weaken _ _ _ (adv s).toks.length _ ?_ (fun h => h) (len_adv s)
    apply OkP_bind _ _ _ _ (OkP_expectCh _ _ '/' (emit (adv s) .pathDotDot) (by simp [len_emit]))
    intro a ha
    split
    · exact OkP_weaken _ _ _ _ _ (ih.rel a) (by omega) ha
    · exact OkP_weaken _ _ _ _ _ (okP_lDesc f ih a) (by omega) ha
  · exact OkP_syn _ _ _

theorem invL_all (f : Nat) : InvL f := by
  induction f with
  | zero => exact invL_zero
  | succ f ih =>
    exact ⟨stepL_keyNames f ih, stepL_keyPath f ih, stepL_afterNode f ih, stepL_steps f ih, stepL_preds f ih, stepL_rel f ih⟩

theorem NoFuel_bind {x : P PSt} {g : PSt → P PSt} (hx : NoFuel x) (hg : ∀ a, NoFuel (g a)) : NoFuel (x >>= g) := by
  cases x with
  | error e => simp only [bind, Except.bind]; intro h; injection h with h; exact hx (by rw [h])
  | ok a => simpa [bind, Except.bind] using hg a

/-- the leafref path parser never runs out of the fuel it is given -/
theorem parseLeafrefToks_nofuel (toks : List LexedTok) : parseLeafrefToks toks ≠ .error .fuel := by
  unfold parseLeafrefToks
  have hI := invL_all (8 * toks.length + 8)
  have htail : ∀ a : PSt, NoFuel (if peekTok (emit a .evalLocPath) = .eof then (pure (emit (emit a .evalLocPath) .store) : P PSt)
      else synErr (emit a .evalLocPath)) := by
    intro a; split <;> simp [NoFuel, pure, Except.pure, synErr]
  have hsyn : ∀ (s0 : PSt) (g : PSt → P PSt), NoFuel (synErr s0 >>= g) := by
    intro s0 g; simp [NoFuel, synErr, bind, Except.bind]
  simp only []
  split
  · split
    · have := len_adv ({ toks := toks } : PSt)
      exact NoFuel_bind ((hI.steps (emit (adv { toks := toks }) .pathRoot)).1 (by simp only [len_emit]; simp at this ⊢; omega)) htail
    · exact hsyn _ _
  · exact NoFuel_bind ((hI.rel { toks := toks }).1 (by simp)) htail
  · exact hsyn _ _

end YV.XP
