/-
  Proofs.YUses — facts about the expansion of uses / refine / augment and about name clashes.
-/
import YV.Model.YUses
import YV.Proofs.YCompile
namespace YV.C
open YV YV.Y YV.SC

/-! ### a name clash among the resulting siblings is rejected -/

theorem build_names (f : Attr → Bool) (env : FeatEnv) (inh : Inh) (a : A) (at_ : Attr) (ks : List CN)
    (h : build f env inh a = .ok (.mk at_ ks)) :
    (at_.kind = .choice → (flatCaseNames ks).Nodup) ∧ (at_.kind ≠ .choice → (flatNames ks).Nodup) := by
  cases a with
  | container n m pr kids =>
    simp only [build] at h
    cases hi : inherit m inh with
    | error e => simp [hi] at h
    | ok i =>
      simp only [hi, ebind_ok] at h
      cases hk : buildKids f env i kids with
      | error e => simp [hk] at h
      | ok ks' =>
        simp only [hk, ebind_ok] at h
        cases hn : checkNames (flatNames ks') with
        | error e => simp [hn] at h
        | ok u =>
          simp only [hn, ebind_ok, epure, Except.ok.injEq, CN.mk.injEq] at h
          obtain ⟨rfl, rfl⟩ := h
          exact ⟨by simp, fun _ => (checkNames_ok_iff _).1 hn⟩
  | list n m keys mn mx kids =>
    simp only [build] at h
    cases hi : inherit m inh with
    | error e => simp [hi] at h
    | ok i =>
      simp only [hi, ebind_ok] at h
      cases hk : buildKids f env i kids with
      | error e => simp [hk] at h
      | ok ks' =>
        simp only [hk, ebind_ok] at h
        cases hn : checkNames (flatNames ks') with
        | error e => simp [hn] at h
        | ok u =>
          simp only [hn, ebind_ok, epure, Except.ok.injEq, CN.mk.injEq] at h
          obtain ⟨rfl, rfl⟩ := h
          exact ⟨by simp, fun _ => (checkNames_ok_iff _).1 hn⟩
  | case n m kids =>
    simp only [build] at h
    cases hi : inherit { m with cfg := none } inh with
    | error e => simp [hi] at h
    | ok i =>
      simp only [hi, ebind_ok] at h
      cases hk : buildKids f env i kids with
      | error e => simp [hk] at h
      | ok ks' =>
        simp only [hk, ebind_ok] at h
        cases hn : checkNames (caseKidNames ks') with
        | error e => simp [hn] at h
        | ok u =>
          simp only [hn, ebind_ok, epure, Except.ok.injEq, CN.mk.injEq] at h
          obtain ⟨rfl, rfl⟩ := h
          exact ⟨by simp, fun _ => List.Nodup.sublist (flatNames_sub_caseKidNames _) ((checkNames_ok_iff _).1 hn)⟩
  | leaf n m mand d =>
    simp only [build] at h
    cases hi : inherit m inh with
    | error e => simp [hi] at h
    | ok i =>
      simp only [hi, ebind_ok] at h
      by_cases hmd : (mand && d.isSome) = true
      · simp [hmd] at h
      · simp only [hmd, Bool.false_eq_true, if_false, epure, Except.ok.injEq, CN.mk.injEq] at h
        obtain ⟨rfl, rfl⟩ := h
        simp [flatNames, flatCaseNames, choiceMarks, kidMarks, dataNames, dataCaseNames]
  | leafList n m mn mx =>
    simp only [build] at h
    cases hi : inherit m inh with
    | error e => simp [hi] at h
    | ok i =>
      simp only [hi, ebind_ok, epure, Except.ok.injEq, CN.mk.injEq] at h
      obtain ⟨rfl, rfl⟩ := h
      simp [flatNames, flatCaseNames, choiceMarks, kidMarks, dataNames, dataCaseNames]
  | choice n m mand d cases =>
    simp only [build] at h
    cases hi : inherit m inh with
    | error e => simp [hi] at h
    | ok i =>
      simp only [hi, ebind_ok] at h
      cases hk : buildKids f env i cases with
      | error e => simp [hk] at h
      | ok ks' =>
        simp only [hk, ebind_ok] at h
        by_cases hdm : (d.isSome && mand) = true
        · simp [hdm] at h
        · simp only [hdm, Bool.false_eq_true, if_false] at h
          cases hn : checkNames (flatCaseNames ks') with
          | error e => simp [hn] at h
          | ok u =>
            simp only [hn, ebind_ok] at h
            cases d with
            | none =>
              simp only [epure, Except.ok.injEq, CN.mk.injEq] at h
              obtain ⟨rfl, rfl⟩ := h
              exact ⟨fun _ => (checkNames_ok_iff _).1 hn, by simp⟩
            | some dc =>
              simp only [] at h
              split at h
              · simp at h
              · simp only [epure, Except.ok.injEq, CN.mk.injEq] at h
                obtain ⟨rfl, rfl⟩ := h
                exact ⟨fun _ => (checkNames_ok_iff _).1 hn, by simp⟩

/-! ### uses = inline -/

theorem setMeta_meta (a : A) : a.setMeta a.meta = a := by cases a <;> rfl

theorem addIff_nil (a : A) : addIff [] a = a := by
  unfold addIff
  have : ({ a.meta with iff := a.meta.iff ++ [] } : Meta) = a.meta := by simp
  rw [this, setMeta_meta]

theorem map_addIff_nil : ∀ l : List A, l.map (addIff []) = l
  | [] => rfl
  | x :: r => by simp [addIff_nil, map_addIff_nil r]

theorem addIff_iff (fs : List Tok) (a : A) : (addIff fs a).meta.iff = a.meta.iff ++ fs := by
  cases a <;> simp [addIff, A.setMeta, A.meta]

theorem addIff_name (fs : List Tok) (a : A) : (addIff fs a).name = a.name := by
  cases a <;> simp [addIff, A.setMeta, A.name]

/-- a uses without refine, augment and if-feature is its grouping body written in place -/
theorem uses_is_inline (env : GEnv) (ns : Tok) (fuel : Nat) (g : Tok) (body r : List G)
    (hg : env.lookup g = some body) :
    expandKids env ns (fuel + 2) (.uses g [] [] [] :: r) =
      (do let a ← expandKids env ns fuel body
          let b ← expandKids env ns (fuel + 1) r
          pure (a ++ b)) := by
  simp only [expandKids, expandOne, hg]
  cases hb : expandKids env ns fuel body with
  | error e => simp
  | ok kids => simp [map_addIff_nil]

/-! ### what the nodes a uses introduces keep: namespace, if-feature -/

theorem atPath_pres (P : A → Prop) (change : A → Except String A)
    (hch : ∀ a a', change a = .ok a' → P a → P a') (hsk : ∀ a ks, P a → P (a.setKids ks)) :
    ∀ (nodes : List A) (path : List Tok) (nodes' : List A),
      atPath change path nodes = .ok nodes' → (∀ x ∈ nodes, P x) → ∀ x ∈ nodes', P x
  | [], path, nodes', h, _ => by
    cases path <;> simp [atPath] at h
  | a :: r, [], nodes', h, _ => by simp [atPath] at h
  | a :: r, p :: rest, nodes', h, hp => by
    rw [atPath] at h
    by_cases hn : a.name = p
    · simp only [hn, if_true] at h
      by_cases hr : rest.isEmpty = true
      · simp only [hr, if_true] at h
        cases hc : change a with
        | error e => simp [hc, Except.map] at h
        | ok a' =>
          simp only [hc, Except.map, Except.ok.injEq] at h
          subst h
          intro x hx
          simp only [List.mem_cons] at hx
          rcases hx with rfl | hx
          · exact hch a _ hc (hp a (by simp))
          · exact hp x (by simp [hx])
      · simp only [hr, Bool.false_eq_true, if_false] at h
        cases hc : atPath change rest a.kids with
        | error e => simp [hc, Except.map] at h
        | ok ks' =>
          simp only [hc, Except.map, Except.ok.injEq] at h
          subst h
          intro x hx
          simp only [List.mem_cons] at hx
          rcases hx with rfl | hx
          · exact hsk a ks' (hp a (by simp))
          · exact hp x (by simp [hx])
    · simp only [hn, if_false] at h
      cases hc : atPath change (p :: rest) r with
      | error e => simp [hc, Except.map] at h
      | ok r' =>
        simp only [hc, Except.map, Except.ok.injEq] at h
        subst h
        intro x hx
        simp only [List.mem_cons] at hx
        rcases hx with rfl | hx
        · exact hp x (by simp)
        · exact atPath_pres P change hch hsk r (p :: rest) r' hc (fun y hy => hp y (by simp [hy])) x hx

theorem setKids_meta (a : A) (ks : List A) : (a.setKids ks).meta = a.meta := by cases a <;> rfl

theorem setRefine_ns_iff (a : A) (p : RProp) (v : Bytes) :
    (setRefine a p v).meta.ns = a.meta.ns ∧ (setRefine a p v).meta.iff = a.meta.iff := by
  cases p <;> cases a <;> simp [setRefine, A.setMeta, A.meta]

theorem foldlM_pres {α β : Type} (P : β → Prop) (step : β → α → Except String β)
    (hs : ∀ b a b', step b a = .ok b' → P b → P b') :
    ∀ (l : List α) (b b' : β), l.foldlM step b = .ok b' → P b → P b'
  | [], b, b', h, hp => by simp [List.foldlM] at h; exact h ▸ hp
  | a :: r, b, b', h, hp => by
    simp only [List.foldlM] at h
    cases hst : step b a with
    | error e => simp [hst] at h
    | ok b1 =>
      simp only [hst, ebind_ok] at h
      exact foldlM_pres P step hs r b1 b' h (hs b a b1 hst hp)

theorem addIff_ns (fs : List Tok) (a : A) : (addIff fs a).meta.ns = a.meta.ns := by
  cases a <;> simp [addIff, A.setMeta, A.meta]

theorem addSt_ns (st : Nat) (a : A) : (addSt st a).meta.ns = a.meta.ns := by
  unfold addSt
  split
  · rfl
  · cases a <;> simp [A.setMeta, A.meta]

def AllNs (ns : Tok) (l : List A) : Prop := ∀ a ∈ l, a.meta.ns = ns

theorem applyRefine_ns (ns : Tok) (b : List A) (rf : Refine) (b' : List A)
    (h : applyRefine b rf = .ok b') (hb : AllNs ns b) : AllNs ns b' :=
  atPath_pres (fun a => a.meta.ns = ns) _
    (by intro a a' hc ha; simp only [epure, Except.ok.injEq] at hc; subst hc
        rw [(setRefine_ns_iff a rf.prop rf.val).1]; exact ha)
    (by intro a ks ha; rw [setKids_meta]; exact ha) b rf.path b' h hb

theorem addKidsAt_ns (ns : Tok) (b : List A) (path : List Tok) (ks b' : List A)
    (h : addKidsAt b path ks = .ok b') (hb : AllNs ns b) : AllNs ns b' :=
  atPath_pres (fun a => a.meta.ns = ns) _
    (by intro a a' hc ha
        split at hc
        · simp only [epure, Except.ok.injEq] at hc; subst hc; rw [setKids_meta]; exact ha
        · simp at hc)
    (by intro a ks ha; rw [setKids_meta]; exact ha) b path b' h hb

theorem applyUsesAug_ns (ns : Tok) (expand : List G → Except String (List A)) (b : List A) (ag : G) (b' : List A)
    (h : applyUsesAug expand b ag = .ok b') (hb : AllNs ns b) : AllNs ns b' := by
  cases ag <;> try (simp only [applyUsesAug, epure, Except.ok.injEq] at h; subst h; exact hb)
  case aug path aiff aks =>
    simp only [applyUsesAug] at h
    cases hk : expand aks with
    | error e => simp [hk] at h
    | ok aks' => simp only [hk, ebind_ok] at h; exact addKidsAt_ns ns b path _ b' h hb
  case stat st inner =>
    cases inner <;> try (simp only [applyUsesAug, epure, Except.ok.injEq] at h; subst h; exact hb)
    case aug path aiff aks =>
      simp only [applyUsesAug] at h
      cases hk : expand aks with
      | error e => simp [hk] at h
      | ok aks' => simp only [hk, ebind_ok] at h; exact addKidsAt_ns ns b path _ b' h hb

mutual
/-- every node the expansion produces at this level belongs to the module it is expanded in — also when
    the grouping was defined in another module -/
theorem expandKids_ns (env : GEnv) (ns : Tok) : ∀ (fuel : Nat) (gs : List G) (as : List A),
    expandKids env ns fuel gs = .ok as → AllNs ns as
  | 0, gs, as, h => by simp [expandKids] at h
  | fuel + 1, [], as, h => by simp [expandKids] at h; subst h; intro a ha; simp at ha
  | fuel + 1, g :: r, as, h => by
    simp only [expandKids] at h
    cases h1 : expandOne env ns fuel g with
    | error e => simp [h1] at h
    | ok here =>
      simp only [h1, ebind_ok] at h
      cases h2 : expandKids env ns fuel r with
      | error e => simp [h2] at h
      | ok rest =>
        simp only [h2, ebind_ok, epure, Except.ok.injEq] at h
        subst h
        intro a ha
        simp only [List.mem_append] at ha
        rcases ha with ha | ha
        · exact expandOne_ns env ns fuel g here h1 a ha
        · exact expandKids_ns env ns fuel r rest h2 a ha
theorem expandOne_ns (env : GEnv) (ns : Tok) : ∀ (fuel : Nat) (g : G) (as : List A),
    expandOne env ns fuel g = .ok as → AllNs ns as
  | 0, g, as, h => by simp [expandOne] at h
  | fuel + 1, .container n m p ks, as, h => by
    simp only [expandOne] at h
    cases hk : expandKids env ns fuel ks with
    | error e => simp [hk] at h
    | ok ks' => simp only [hk, ebind_ok, epure, Except.ok.injEq] at h; subst h; intro a ha; simp at ha; subst ha; simp [A.meta]
  | fuel + 1, .list n m keys mn mx ks, as, h => by
    simp only [expandOne] at h
    cases hk : expandKids env ns fuel ks with
    | error e => simp [hk] at h
    | ok ks' => simp only [hk, ebind_ok, epure, Except.ok.injEq] at h; subst h; intro a ha; simp at ha; subst ha; simp [A.meta]
  | fuel + 1, .leaf n m md d, as, h => by
    simp only [expandOne, epure, Except.ok.injEq] at h; subst h; intro a ha; simp at ha; subst ha; simp [A.meta]
  | fuel + 1, .leafList n m mn mx, as, h => by
    simp only [expandOne, epure, Except.ok.injEq] at h; subst h; intro a ha; simp at ha; subst ha; simp [A.meta]
  | fuel + 1, .choice n m md d cs, as, h => by
    simp only [expandOne] at h
    cases hk : expandKids env ns fuel cs with
    | error e => simp [hk] at h
    | ok ks' => simp only [hk, ebind_ok, epure, Except.ok.injEq] at h; subst h; intro a ha; simp at ha; subst ha; simp [A.meta]
  | fuel + 1, .case n m ks, as, h => by
    simp only [expandOne] at h
    cases hk : expandKids env ns fuel ks with
    | error e => simp [hk] at h
    | ok ks' => simp only [hk, ebind_ok, epure, Except.ok.injEq] at h; subst h; intro a ha; simp at ha; subst ha; simp [A.meta]
  | fuel + 1, .aug p i k, as, h => by
    simp only [expandOne, epure, Except.ok.injEq] at h; subst h; intro a ha; simp at ha
  | fuel + 1, .uses gn iff refines augs, as, h => by
    simp only [expandOne] at h
    cases hl : env.lookup gn with
    | none => simp [hl] at h
    | some body =>
      simp only [hl] at h
      cases hb : expandKids env ns fuel body with
      | error e => simp [hb] at h
      | ok kids =>
        simp only [hb, ebind_ok] at h
        have h0 : AllNs ns (kids.map (addIff iff)) := by
          intro a ha
          simp only [List.mem_map] at ha
          obtain ⟨b, hb', rfl⟩ := ha
          rw [addIff_ns]; exact expandKids_ns env ns fuel body kids hb b hb'
        cases hr : refines.foldlM applyRefine (kids.map (addIff iff)) with
        | error e => simp [hr] at h
        | ok k2 =>
          simp only [hr, ebind_ok] at h
          have h1 : AllNs ns k2 := foldlM_pres (AllNs ns) applyRefine (applyRefine_ns ns) refines _ _ hr h0
          exact foldlM_pres (AllNs ns) _ (applyUsesAug_ns ns _) augs _ _ h h1
  | fuel + 1, .stat st g, as, h => by
    simp only [expandOne] at h
    cases hr : expandOne env ns fuel g with
    | error e => simp [hr] at h
    | ok r =>
      simp only [hr, ebind_ok, epure, Except.ok.injEq] at h
      subst h
      intro a ha
      simp only [List.mem_map] at ha
      obtain ⟨b, hb, rfl⟩ := ha
      rw [addSt_ns]; exact expandOne_ns env ns fuel g r hr b hb
end

end YV.C
