/-
  Proofs.YRange — completeness of range / length narrowing: the loop of `createRangeBdry` over the base ranges
  (with its running "merged block") accepts a part exactly when the part lies inside one block of the base after
  adjacent ranges have been merged — so, with the order check, a restriction is accepted iff it is a valid
  restriction in the sense of the specification.
-/
import YV.Proofs.YTypes
import YV.Spec.YTypesS
namespace YV.T
open YV YV.Y YV.TS

/-- the part [start, stop] lies inside the interval -/
def inside (start stop : Int) (p : Int × Int) : Bool := decide (p.1 ≤ start) && decide (stop ≤ p.2)

/-- sorted with gaps or adjacency: each range is non-empty and starts after the previous one ends -/
def sortedBase : List (Int × Int) → Prop
  | [] => True
  | [(a, b)] => a ≤ b
  | (a, b) :: (c, d) :: rest => a ≤ b ∧ b < c ∧ sortedBase ((c, d) :: rest)

theorem sortedBase_tail {a b : Int} {rest : List (Int × Int)} (h : sortedBase ((a, b) :: rest)) : sortedBase rest := by
  cases rest with
  | nil => trivial
  | cons p r => obtain ⟨c, d⟩ := p; exact h.2.2

theorem sortedBase_merge {a b c d : Int} {r : List (Int × Int)} (hs : sortedBase ((a, b) :: (c, d) :: r)) :
    sortedBase ((a, d) :: r) := by
  have h1 := hs.1; have h2 := hs.2.1
  cases r with
  | nil => have := hs.2.2; simp only [sortedBase] at this ⊢; omega
  | cons q r' =>
    obtain ⟨e, g⟩ := q
    have := hs.2.2
    simp only [sortedBase] at this ⊢
    exact ⟨by omega, this.2.1, this.2.2⟩

theorem mergeAdj_cons2 (a b c d : Int) (rest : IntSet) :
    mergeAdj ((a, b) :: (c, d) :: rest) =
      if b + 1 = c then mergeAdj ((a, d) :: rest) else (a, b) :: mergeAdj ((c, d) :: rest) := by
  rw [mergeAdj]

theorem mergeAdj_single (a b : Int) : mergeAdj [(a, b)] = [(a, b)] := by rw [mergeAdj]

/-- the first merged block starts where the first range starts and reaches at least as far -/
theorem mergeAdj_head (n : Nat) : ∀ (a b : Int) (rest : IntSet), rest.length ≤ n →
    ∃ b' tl, mergeAdj ((a, b) :: rest) = (a, b') :: tl ∧ (rest = [] → b' = b) ∧
      (sortedBase ((a, b) :: rest) → b ≤ b') := by
  induction n with
  | zero =>
    intro a b rest h
    have : rest = [] := by cases rest <;> simp_all
    subst this
    exact ⟨b, [], mergeAdj_single a b, fun _ => rfl, fun _ => Int.le_refl _⟩
  | succ n ih =>
    intro a b rest h
    cases rest with
    | nil => exact ⟨b, [], mergeAdj_single a b, fun _ => rfl, fun _ => Int.le_refl _⟩
    | cons p r =>
      obtain ⟨c, d⟩ := p
      rw [mergeAdj_cons2]
      by_cases hadj : b + 1 = c
      · simp only [hadj, ↓reduceIte]
        obtain ⟨b', tl, h1, _, h3⟩ := ih a d r (by simp at h; omega)
        refine ⟨b', tl, h1, (fun hh => nomatch hh), fun hs => ?_⟩
        have hs' : sortedBase ((a, d) :: r) := sortedBase_merge hs
        have := h3 hs'
        have hcd : c ≤ d := by
          cases r with
          | nil => exact hs.2.2
          | cons q r' => obtain ⟨e, g⟩ := q; exact hs.2.2.1
        omega
      · simp only [hadj, ↓reduceIte]
        exact ⟨b, mergeAdj ((c, d) :: r), rfl, (fun hh => nomatch hh), fun _ => Int.le_refl _⟩

/-- every merged block of a sorted base starts at or after the first range -/
theorem mergeAdj_lower (n : Nat) : ∀ (a b : Int) (rest : IntSet), rest.length ≤ n → sortedBase ((a, b) :: rest) →
    ∀ p ∈ mergeAdj ((a, b) :: rest), a ≤ p.1 := by
  induction n with
  | zero =>
    intro a b rest h _ p hp
    have : rest = [] := by cases rest <;> simp_all
    subst this
    rw [mergeAdj_single] at hp; simp at hp; subst hp; exact Int.le_refl _
  | succ n ih =>
    intro a b rest h hs p hp
    cases rest with
    | nil => rw [mergeAdj_single] at hp; simp at hp; subst hp; exact Int.le_refl _
    | cons q r =>
      obtain ⟨c, d⟩ := q
      rw [mergeAdj_cons2] at hp
      by_cases hadj : b + 1 = c
      · simp only [hadj, ↓reduceIte] at hp
        have hs' : sortedBase ((a, d) :: r) := sortedBase_merge hs
        exact ih a d r (by simp at h; omega) hs' p hp
      · simp only [hadj, ↓reduceIte, List.mem_cons] at hp
        rcases hp with rfl | hp
        · exact Int.le_refl _
        · have := ih c d r (by simp at h; omega) hs.2.2 p hp
          have := hs.1; have := hs.2.1
          omega

theorem lastHiOf_merge (a b c d : Int) (r : List (Int × Int)) :
    lastHiOf ((a, b) :: (c, d) :: r) = lastHiOf ((a, d) :: r) := by
  cases r with
  | nil => simp [lastHiOf]
  | cons q r' => simp [lastHiOf]

/-- every merged block of a sorted base ends at or before the last range -/
theorem mergeAdj_upper (n : Nat) : ∀ (a b : Int) (rest : IntSet), rest.length ≤ n → sortedBase ((a, b) :: rest) →
    ∀ p ∈ mergeAdj ((a, b) :: rest), p.2 ≤ lastHiOf ((a, b) :: rest) := by
  induction n with
  | zero =>
    intro a b rest h _ p hp
    have : rest = [] := by cases rest <;> simp_all
    subst this
    rw [mergeAdj_single] at hp; simp at hp; subst hp; simp [lastHiOf]
  | succ n ih =>
    intro a b rest h hs p hp
    cases rest with
    | nil => rw [mergeAdj_single] at hp; simp at hp; subst hp; simp [lastHiOf]
    | cons q r =>
      obtain ⟨c, d⟩ := q
      rw [mergeAdj_cons2] at hp
      by_cases hadj : b + 1 = c
      · simp only [hadj, ↓reduceIte] at hp
        rw [lastHiOf_merge]
        exact ih a d r (by simp at h; omega) (sortedBase_merge hs) p hp
      · simp only [hadj, ↓reduceIte, List.mem_cons] at hp
        have hup := ih c d r (by simp at h; omega) hs.2.2
        rcases hp with rfl | hp
        · obtain ⟨b', tl, h1, _, h3⟩ := mergeAdj_head r.length c d r (Nat.le_refl _)
          have := hup (c, b') (by rw [h1]; simp)
          have := h3 hs.2.2
          have := hs.2.1
          have hcd : c ≤ d := by
            cases r with
            | nil => exact hs.2.2
            | cons q r' => obtain ⟨e, g⟩ := q; exact hs.2.2.1
          simp only [lastHiOf] at *
          omega
        · simpa [lastHiOf] using hup p hp

/-- the loop with a running block (mn, mx) that the part has already been compared with: mn ≤ start, mx < stop -/
theorem fits_complete_cur (start stop : Int) : ∀ (rest : List (Int × Int)) (mn mx : Int),
    sortedBase ((mn, mx) :: rest) → mn ≤ start → mx < stop → stop ≤ lastHiOf ((mn, mx) :: rest) →
    fitsBase intOps start stop (some (mn, mx)) rest = (mergeAdj ((mn, mx) :: rest)).any (inside start stop) := by
  intro rest
  induction rest with
  | nil => intro mn mx _ _ h2 h3; simp only [lastHiOf] at h3; omega
  | cons q r ih =>
    intro mn mx hs h1 h2 h3
    obtain ⟨cs, ce⟩ := q
    have hce : cs ≤ ce := by
      cases r with
      | nil => exact hs.2.2
      | cons q r' => obtain ⟨e, g⟩ := q; exact hs.2.2.1
    simp only [fitsBase, blockMin, intOps_contig, intOps_lt]
    rw [mergeAdj_cons2]
    by_cases hadj : mx + 1 = cs
    · subst hadj
      simp only [beq_self_eq_true, ↓reduceIte]
      obtain ⟨b', tl, e1, _, e3⟩ := mergeAdj_head r.length mn ce r (Nat.le_refl _)
      have hb' := e3 (sortedBase_merge hs)
      split
      · rename_i hc
        simp only [Bool.and_eq_true, Bool.not_eq_true', decide_eq_false_iff_not, Int.not_lt] at hc
        rw [e1]; simp [inside]; left; omega
      · rename_i hc
        simp only [Bool.and_eq_true, Bool.not_eq_true', decide_eq_false_iff_not, Int.not_lt, not_and, Int.not_le] at hc
        split
        · rename_i hl; simp at hl; omega
        · rw [lastHiOf_merge] at h3
          exact ih mn ce (sortedBase_merge hs) h1 (hc h1) h3
    · have hb : (mx + 1 == cs) = false := by simpa using hadj
      simp only [hb, hadj, ↓reduceIte, Bool.false_eq_true, List.any_cons]
      have hmx : inside start stop (mn, mx) = false := by simp [inside]; omega
      rw [hmx, Bool.false_or]
      obtain ⟨b', tl, e1, _, e3⟩ := mergeAdj_head r.length cs ce r (Nat.le_refl _)
      have hb' := e3 hs.2.2
      split
      · rename_i hc
        simp only [Bool.and_eq_true, Bool.not_eq_true', decide_eq_false_iff_not, Int.not_lt] at hc
        rw [e1]; simp [inside]; left; omega
      · rename_i hc
        simp only [Bool.and_eq_true, Bool.not_eq_true', decide_eq_false_iff_not, Int.not_lt, not_and, Int.not_le] at hc
        split
        · rename_i hl
          simp only [decide_eq_true_eq] at hl
          symm
          rw [List.any_eq_false]
          intro p hp
          have := mergeAdj_lower r.length cs ce r (Nat.le_refl _) hs.2.2 p hp
          simp [inside]; omega
        · rename_i hl
          simp only [decide_eq_true_eq, Int.not_lt] at hl
          exact ih cs ce hs.2.2 hl (hc hl) (by simpa [lastHiOf] using h3)

/-- **completeness of the loop**: on a sorted base, the part is let through exactly when it lies inside one merged block -/
theorem fits_complete (start stop : Int) (base : List (Int × Int)) (hne : base ≠ []) (hs : sortedBase base)
    (hstop : stop ≤ lastHiOf base) :
    fitsBase intOps start stop none base = subsetOf (start, stop) base := by
  cases base with
  | nil => exact absurd rfl hne
  | cons q r =>
    obtain ⟨cs, ce⟩ := q
    have hce : cs ≤ ce := by
      cases r with
      | nil => exact hs
      | cons q r' => obtain ⟨e, g⟩ := q; exact hs.1
    have hsub : subsetOf (start, stop) ((cs, ce) :: r) = (mergeAdj ((cs, ce) :: r)).any (inside start stop) := by
      simp only [subsetOf]
      congr 1
    rw [hsub]
    simp only [fitsBase, blockMin, intOps_lt]
    obtain ⟨b', tl, e1, _, e3⟩ := mergeAdj_head r.length cs ce r (Nat.le_refl _)
    have hb' := e3 hs
    by_cases hA : start < cs
    · have e : decide (start < cs) = true := decide_eq_true hA
      simp only [e, Bool.not_true, Bool.false_and, Bool.false_eq_true, ↓reduceIte]
      symm
      rw [List.any_eq_false]
      intro p hp
      have := mergeAdj_lower r.length cs ce r (Nat.le_refl _) hs p hp
      simp [inside]; omega
    · have e : decide (start < cs) = false := decide_eq_false hA
      by_cases hB : ce < stop
      · have e' : decide (ce < stop) = true := decide_eq_true hB
        simp only [e, e', Bool.not_true, Bool.not_false, Bool.and_false, Bool.false_eq_true, ↓reduceIte]
        exact fits_complete_cur start stop r cs ce hs (by omega) hB hstop
      · have e' : decide (ce < stop) = false := decide_eq_false hB
        simp only [e, e', Bool.not_false, Bool.and_self, ↓reduceIte]
        rw [e1]; simp [inside]; left; omega

/-! ### from the loop to the whole restriction -/

def resolve (base : List (Int × Int)) (p : Part Int) : Int × Int := (p.lo.getD (firstLo base), p.hi.getD (lastHi base))

theorem subsetOf_any (part : Int × Int) (base : IntSet) :
    subsetOf part base = (mergeAdj base).any (inside part.1 part.2) := by
  simp only [subsetOf]; congr 1

/-- `createRangeBdry` for one part: the three rejections together say exactly "not inside one merged block" -/
theorem stepPart_eq (base : List (Int × Int)) (hne : base ≠ []) (hs : sortedBase base) (p : Part Int) :
    stepPart intOps base p = if subsetOf (resolve base p) base then some (resolve base p) else none := by
  obtain ⟨q, r, rfl⟩ : ∃ q r, base = q :: r := by
    cases base with
    | nil => exact absurd rfl hne
    | cons q r => exact ⟨q, r, rfl⟩
  obtain ⟨cs, ce⟩ := q
  have hlo := mergeAdj_lower r.length cs ce r (Nat.le_refl _) hs
  have hup := mergeAdj_upper r.length cs ce r (Nat.le_refl _) hs
  have hmin : firstLo ((cs, ce) :: r) = cs := by simp [firstLo]
  have hmax : lastHi ((cs, ce) :: r) = lastHiOf ((cs, ce) :: r) := lastHi_eq _
  simp only [stepPart, resolve]
  simp only [hmin, hmax]
  by_cases h1 : (p.lo.isSome && intOps.lt (p.lo.getD cs) cs) = true
  · rw [if_pos h1]
    simp only [intOps_lt, Bool.and_eq_true, decide_eq_true_eq] at h1
    have : subsetOf (p.lo.getD cs, p.hi.getD (lastHiOf ((cs, ce) :: r))) ((cs, ce) :: r) = false := by
      rw [subsetOf_any, List.any_eq_false]
      intro b hb
      have := hlo b hb
      simp [inside]; omega
    simp [this]
  · rw [if_neg h1]
    by_cases h2 : (p.hi.isSome && intOps.lt (lastHiOf ((cs, ce) :: r)) (p.hi.getD (lastHiOf ((cs, ce) :: r)))) = true
    · rw [if_pos h2]
      simp only [intOps_lt, Bool.and_eq_true, decide_eq_true_eq] at h2
      have : subsetOf (p.lo.getD cs, p.hi.getD (lastHiOf ((cs, ce) :: r))) ((cs, ce) :: r) = false := by
        rw [subsetOf_any, List.any_eq_false]
        intro b hb
        have := hup b hb
        simp [inside]; omega
      simp [this]
    · rw [if_neg h2]
      have hstop : p.hi.getD (lastHiOf ((cs, ce) :: r)) ≤ lastHiOf ((cs, ce) :: r) := by
        cases hh : p.hi with
        | none => simp
        | some y => simp [hh] at h2 ⊢; exact h2
      rw [fits_complete _ _ _ hne hs hstop]
      cases subsetOf (p.lo.getD cs, p.hi.getD (lastHiOf ((cs, ce) :: r))) ((cs, ce) :: r) <;> simp

theorem mapM_ite {α β} (c : α → Bool) (f : α → β) : ∀ (l : List α),
    l.mapM (fun x => if c x then some (f x) else none) = if l.all c then some (l.map f) else none
  | [] => by simp
  | x :: r => by
    rw [List.mapM_cons, mapM_ite c f r]
    cases hx : c x <;> cases hr : r.all c <;> simp [hx, hr]

def asc (l : IntSet) : Bool := (l.zip (l.drop 1)).all fun ((_, b1), (a2, _)) => b1 < a2

/-- `validateRangeBoundaries` says: every part non-empty, each starts after the previous one ends -/
theorem orderedDisjoint_eq : ∀ (rs : List (Int × Int)),
    orderedDisjoint intOps rs = (rs.all (fun (a, b) => a ≤ b) && asc rs)
  | [] => by simp [orderedDisjoint, asc]
  | [(s, e)] => by simp [orderedDisjoint, asc]; by_cases h : s ≤ e <;> simp [h] <;> omega
  | (s1, e1) :: (s2, e2) :: rest => by
    have ih := orderedDisjoint_eq ((s2, e2) :: rest)
    rw [orderedDisjoint, ih]
    simp only [intOps_lt, asc, List.all_cons, List.drop_succ_cons, List.drop_zero, List.zip_cons_cons]
    by_cases h1 : s1 ≤ e1 <;> by_cases h2 : e1 < s2 <;> simp [h1, h2] <;> omega

theorem orderedDisjoint_sorted : ∀ (rs : List (Int × Int)), orderedDisjoint intOps rs = true → sortedBase rs
  | [], _ => trivial
  | [(s, e)], h => by simpa [orderedDisjoint, sortedBase] using h
  | (s1, e1) :: (s2, e2) :: rest, h => by
    rw [orderedDisjoint] at h
    simp only [intOps_lt, Bool.and_eq_true, Bool.not_eq_true', decide_eq_false_iff_not, Int.not_lt, decide_eq_true_eq] at h
    exact ⟨h.1.1.1, h.1.2, orderedDisjoint_sorted _ h.2⟩

/-- **range / length narrowing is exactly the specification** (integers and lengths): on a base that is sorted —
    which every base the compiler builds is, see `restrict_keeps_sorted` — the compiler accepts a restriction
    precisely when the specification does, with the same resulting set -/
theorem restrict_eq_spec (base : List (Int × Int)) (hne : base ≠ []) (hs : sortedBase base) (parts : List (Part Int)) :
    restrict intOps base parts = validRestriction base (parts.map fun p => (p.lo, p.hi)) := by
  have hstep : (stepPart intOps base) = fun p => if subsetOf (resolve base p) base then some (resolve base p) else none :=
    funext (stepPart_eq base hne hs)
  simp only [restrict, hstep, mapM_ite (fun p => subsetOf (resolve base p) base) (resolve base)]
  have hrs : (parts.map fun p => (p.lo, p.hi)).map (fun x : Option Int × Option Int =>
      (x.1.getD ((base.head?.map (·.1)).getD 0), x.2.getD ((base.getLast?.map (·.2)).getD 0))) = parts.map (resolve base) := by
    simp only [List.map_map]; rfl
  have hall : (parts.map (resolve base)).all (fun p => subsetOf p base) = parts.all (fun p => subsetOf (resolve base p) base) := by
    simp only [List.all_map]; rfl
  simp only [validRestriction]
  rw [hrs, hall]
  change _ = if (parts.map (resolve base)).isEmpty then none
    else if ((parts.map (resolve base)).all (fun (a, b) => a ≤ b) && asc (parts.map (resolve base)) &&
      parts.all (fun p => subsetOf (resolve base p) base)) then some (parts.map (resolve base)) else none
  rw [← orderedDisjoint_eq]
  cases hC : parts.all (fun p => subsetOf (resolve base p) base)
  · simp
  · simp only [↓reduceIte, Bool.and_true]

/-- the invariant that makes `restrict_eq_spec` apply at every level of a derivation chain -/
theorem restrict_keeps_sorted (base : List (Int × Int)) (parts : List (Part Int)) (rs : List (Int × Int))
    (h : restrict intOps base parts = some rs) : rs ≠ [] ∧ sortedBase rs := by
  simp only [restrict] at h
  split at h
  · cases h
  · rename_i rs' _
    split at h
    · cases h
    · rename_i hemp
      split at h
      · rename_i hod
        cases h
        exact ⟨by intro e; subst e; simp at hemp, orderedDisjoint_sorted _ hod⟩
      · cases h

end YV.T
