/-
  Proofs.XReject — constructs of XPath 1.0 outside the supported subset are refused: if the must / when parser
  accepts a token list without recording an error, it has not read an axis name, an '@', a '//' or a node-type
  test.  Invariant over the eleven mutually recursive parser functions: "either an action has set parseErr, or
  every token consumed so far is a supported one".
-/
import YV.Model.XParse
namespace YV.XP
open YV YV.X YV.XL

/-- tokens of unsupported constructs -/
def bad : Tok → Bool
  | .dblslash => true
  | .axisname _ => true
  | .nodetype _ => true
  | .ch c => c = chr '@'
  | _ => false

/-- unless parseErr is set, what has been consumed of `orig` contains no unsupported token -/
def InvB (orig : List LexedTok) (s : PSt) : Prop :=
  s.perr = none → ∃ pre, orig = pre ++ s.toks ∧ ∀ t ∈ pre, bad t.tok = false

def KeepsB (orig : List LexedTok) (r : P PSt) : Prop := ∀ s', r = .ok s' → InvB orig s'

variable {orig : List LexedTok}

theorem invB_adv {s : PSt} (h : InvB orig s) (hg : bad (peekTok s) = false) : InvB orig (adv s) := by
  intro hp
  obtain ⟨pre, h1, h2⟩ := h hp
  cases ht : s.toks with
  | nil => exact ⟨pre, by simpa [adv, ht] using h1, h2⟩
  | cons t r =>
    refine ⟨pre ++ [t], by simp [adv, ht, h1], ?_⟩
    intro x hx
    rcases List.mem_append.mp hx with hx | hx
    · exact h2 x hx
    · simp only [List.mem_singleton] at hx; subst hx
      simpa [peekTok, ht] using hg

theorem invB_emit {s : PSt} (h : InvB orig s) (i : PI) : InvB orig (emit s i) := h
theorem invB_setErr (s : PSt) (m : String) : InvB orig (setErr s m) := by intro hp; simp [setErr] at hp

theorem KB_pure {s : PSt} (h : InvB orig s) : KeepsB orig (pure s) := by
  intro s' hs; simp only [pure, Except.pure] at hs; injection hs with hs; subst hs; exact h
theorem KB_syn (s : PSt) : KeepsB orig (synErr s) := by intro s' hs; simp [synErr] at hs
theorem KB_err (e : PErr) : KeepsB orig (.error e) := by intro s' hs; simp at hs

theorem KB_bind (x : P PSt) (g : PSt → P PSt) (hx : KeepsB orig x) (hg : ∀ a, InvB orig a → KeepsB orig (g a)) :
    KeepsB orig (x >>= g) := by
  cases x with
  | error e => intro s' hs; simp [bind, Except.bind] at hs
  | ok a => simpa [bind, Except.bind] using hg a (hx a rfl)

theorem KB_expectCh (c : Char) (hc : chr c ≠ chr '@') {s : PSt} (h : InvB orig s) : KeepsB orig (expectCh c s) := by
  unfold expectCh
  split
  · rename_i hp
    exact KB_pure (invB_adv h (by rw [hp]; simp [bad, hc]))
  · exact KB_syn s

theorem KB_emitEnd (x : P PSt) (i : PI) (hx : KeepsB orig x) : KeepsB orig (x >>= fun s => pure (emit s i)) :=
  KB_bind _ _ hx (fun a ha => KB_pure (invB_emit ha i))

structure InvBK (orig : List LexedTok) (f : Nat) : Prop where
  level : ∀ lvl s, InvB orig s → KeepsB orig (pLevel f lvl s)
  levelRest : ∀ lvl s, InvB orig s → KeepsB orig (pLevelRest f lvl s)
  unary : ∀ s, InvB orig s → KeepsB orig (pUnary f s)
  unionRest : ∀ s, InvB orig s → KeepsB orig (pUnionRest f s)
  path : ∀ s, InvB orig s → KeepsB orig (pPath f s)
  locPath : ∀ s, InvB orig s → KeepsB orig (pLocationPath f s)
  filterPath : ∀ s, InvB orig s → KeepsB orig (pFilterPath f s)
  primary : ∀ s, InvB orig s → KeepsB orig (pPrimary f s)
  preds : ∀ s, InvB orig s → KeepsB orig (pPreds f s)
  relPath : ∀ s, InvB orig s → KeepsB orig (pRelPath f s)
  step : ∀ s, InvB orig s → KeepsB orig (pStep f s)

theorem invBK_zero : InvBK orig 0 := by
  constructor <;> intros
  all_goals (simp only [pLevel, pLevelRest, pUnary, pUnionRest, pPath, pLocationPath, pFilterPath, pPrimary, pPreds, pRelPath, pStep]; exact KB_err _)

theorem bad_of_binOp (lvl : Nat) (t : Tok) (i : PI) (h : binOpAt lvl t = some i) : bad t = false := by
  unfold binOpAt at h
  split at h <;> (try rfl)
  all_goals (first
    | (rename_i c; by_cases e : c = chr '@'
       · subst e; simp [chr] at h
       · simp [bad, e])
    | simp at h)

theorem bstep_level (f : Nat) (ih : InvBK orig f) (lvl : Nat) (s : PSt) (h : InvB orig s) : KeepsB orig (pLevel (f + 1) lvl s) := by
  simp only [pLevel]
  split
  · exact ih.unary s h
  · exact KB_bind _ _ (ih.level (lvl + 1) s h) (fun a ha => ih.levelRest lvl a ha)

theorem bstep_levelRest (f : Nat) (ih : InvBK orig f) (lvl : Nat) (s : PSt) (h : InvB orig s) :
    KeepsB orig (pLevelRest (f + 1) lvl s) := by
  simp only [pLevelRest]
  split
  · exact KB_pure h
  · rename_i i hi
    exact KB_bind _ _ (ih.level (lvl + 1) (adv s) (invB_adv h (bad_of_binOp lvl _ i hi)))
      (fun a ha => ih.levelRest lvl (emit a i) (invB_emit ha i))

theorem bstep_unary (f : Nat) (ih : InvBK orig f) (s : PSt) (h : InvB orig s) : KeepsB orig (pUnary (f + 1) s) := by
  simp only [pUnary]
  split
  · rename_i hp
    exact KB_emitEnd _ _ (ih.unary (adv s) (invB_adv h (by rw [hp]; simp [bad, chr])))
  · exact KB_bind _ _ (ih.path s h) (fun a ha => ih.unionRest a ha)

theorem bstep_unionRest (f : Nat) (ih : InvBK orig f) (s : PSt) (h : InvB orig s) : KeepsB orig (pUnionRest (f + 1) s) := by
  simp only [pUnionRest]
  split
  · rename_i hp
    exact KB_bind _ _ (ih.path (adv s) (invB_adv h (by rw [hp]; simp [bad, chr])))
      (fun a ha => ih.unionRest (emit a .union) (invB_emit ha _))
  · exact KB_pure h

theorem bstep_preds (f : Nat) (ih : InvBK orig f) (s : PSt) (h : InvB orig s) : KeepsB orig (pPreds (f + 1) s) := by
  simp only [pPreds]
  split
  · rename_i hp
    apply KB_bind _ _ (ih.level 0 (emit (adv s) .predStart) (invB_emit (invB_adv h (by rw [hp]; simp [bad, chr])) _))
    intro a ha
    apply KB_bind _ _ (KB_expectCh ']' (by simp [chr]) ha)
    intro b hb
    exact ih.preds (emit b .predEnd) (invB_emit hb _)
  · exact KB_pure h

theorem keepsB_nodeTest (f : Nat) (ih : InvBK orig f) (s : PSt) (h : InvB orig s) :
    KeepsB orig (match peekTok s with
      | .nametest px l => do
        let s := emit (adv s) (.namePush px l)
        if peekTok s = .ch (chr '[') then do
          let s ← pPreds f (emit s .predicatesStart)
          pure (emit s .predicatesEnd)
        else pure s
      | _ => synErr s) := by
  split
  · rename_i px l hp
    have h1 : InvB orig (emit (adv s) (.namePush px l)) := invB_emit (invB_adv h (by rw [hp]; rfl)) _
    simp only []
    split
    · exact KB_emitEnd _ _ (ih.preds _ (invB_emit h1 _))
    · exact KB_pure h1
  · exact KB_syn _

theorem bstep_step (f : Nat) (ih : InvBK orig f) (s : PSt) (h : InvB orig s) : KeepsB orig (pStep (f + 1) s) := by
  simp only [pStep]
  split
  · rename_i c hp
    split
    · rename_i hc
      exact KB_pure (invB_adv h (by rw [hp, hc]; simp [bad, chr]))
    · split
      · exact keepsB_nodeTest f ih _ (invB_setErr _ _)
      · exact KB_syn _
  · rename_i hp
    exact KB_pure (invB_emit (invB_adv h (by rw [hp]; rfl)) _)
  · split
    · exact keepsB_nodeTest f ih _ (invB_setErr _ _)
    · exact KB_syn _
  · exact keepsB_nodeTest f ih s h
  · exact KB_syn _

theorem bstep_relPath (f : Nat) (ih : InvBK orig f) (s : PSt) (h : InvB orig s) : KeepsB orig (pRelPath (f + 1) s) := by
  simp only [pRelPath]
  apply KB_bind _ _ (ih.step s h)
  intro a ha
  split
  · rename_i c hp
    split
    · rename_i hc
      exact ih.relPath (adv a) (invB_adv ha (by rw [hp, hc]; simp [bad, chr]))
    · exact KB_pure ha
  · exact ih.relPath _ (invB_setErr _ _)
  · exact KB_pure ha

theorem invB_fin {s : PSt} (h : InvB orig s) (c : Prop) [Decidable c] (m : String) (fn : Fn) :
    InvB orig (emit (if c then setErr s m else s) (.bltin fn)) := by
  split
  · exact invB_emit (invB_setErr _ _) _
  · exact invB_emit h _

theorem rparen_good : bad (.ch (chr ')')) = false := by simp [bad, chr]

theorem bstep_primary (f : Nat) (ih : InvBK orig f) (s : PSt) (h : InvB orig s) : KeepsB orig (pPrimary (f + 1) s) := by
  simp only [pPrimary]
  split
  · rename_i c hp
    split
    · rename_i hc
      have hopen : InvB orig (adv s) := invB_adv h (by rw [hp, hc]; simp [bad, chr])
      split
      · rename_i hp2
        split
        · exact KB_syn _
        · exact KB_pure (invB_adv hopen (by rw [hp2]; exact rparen_good))
      · exact KB_bind _ _ (ih.level 0 (adv s) hopen) (fun a ha => KB_expectCh ')' (by simp [chr]) ha)
    · exact KB_syn _
  · rename_i l hp
    exact KB_pure (invB_emit (invB_adv h (by rw [hp]; rfl)) _)
  · rename_i x hp
    exact KB_pure (invB_emit (invB_adv h (by rw [hp]; rfl)) _)
  · exact KB_pure (invB_setErr _ _)
  · rename_i hp
    apply KB_bind _ _ (KB_expectCh '(' (by simp [chr]) (invB_adv h (by rw [hp]; rfl)))
    intro a ha
    exact KB_expectCh ')' (by simp [chr]) ha
  · rename_i fn hp
    apply KB_bind _ _ (KB_expectCh '(' (by simp [chr]) (invB_adv h (by rw [hp]; rfl)))
    intro a ha
    split
    · rename_i hp2
      exact KB_pure (invB_fin (invB_adv ha (by rw [hp2]; exact rparen_good)) _ _ _)
    · apply KB_bind _ _ (ih.level 0 a ha)
      intro b hb
      split
      · rename_i hp2
        exact KB_pure (invB_fin (invB_adv hb (by rw [hp2]; exact rparen_good)) _ _ _)
      · apply KB_bind _ _ (KB_expectCh ',' (by simp [chr]) hb)
        intro c hc
        apply KB_bind _ _ (ih.level 0 c hc)
        intro d hd
        split
        · rename_i hp2
          exact KB_pure (invB_fin (invB_adv hd (by rw [hp2]; exact rparen_good)) _ _ _)
        · apply KB_bind _ _ (KB_expectCh ',' (by simp [chr]) hd)
          intro e he
          apply KB_bind _ _ (ih.level 0 e he)
          intro g hg
          apply KB_bind _ _ (KB_expectCh ')' (by simp [chr]) hg)
          intro k hk
          exact KB_pure (invB_fin hk _ _ _)
  · exact KB_syn _

theorem slash_good : bad (.ch (chr '/')) = false := by simp [bad, chr]

theorem bstep_filterPath (f : Nat) (ih : InvBK orig f) (s : PSt) (h : InvB orig s) : KeepsB orig (pFilterPath (f + 1) s) := by
  simp only [pFilterPath]
  apply KB_bind _ _ (ih.primary s h)
  intro a ha
  apply KB_bind _ _ (ih.preds a ha)
  intro b hb
  split
  · rename_i c hp
    split
    · rename_i hc
      have : bad (peekTok (emit b .filterExprEnd)) = false := by
        show bad (peekTok b) = false
        rw [hp, hc]; exact slash_good
      exact KB_emitEnd _ _ (ih.relPath _ (invB_adv (invB_emit hb .filterExprEnd) this))
    · exact KB_pure hb
  · exact KB_emitEnd _ _ (ih.relPath _ (invB_setErr _ _))
  · exact KB_pure hb

theorem keepsB_optRel (f : Nat) (ih : InvBK orig f) (s : PSt) (h : InvB orig s) :
    KeepsB orig (if peekTok s = .ch (chr '/') then pRelPath f (adv s) else pure s) := by
  split
  · rename_i hp
    exact ih.relPath (adv s) (invB_adv h (by rw [hp]; exact slash_good))
  · exact KB_pure h

theorem bstep_locPath (f : Nat) (ih : InvBK orig f) (s : PSt) (h : InvB orig s) : KeepsB orig (pLocationPath (f + 1) s) := by
  simp only [pLocationPath]
  split
  · rename_i c hp
    split
    · rename_i hc
      have hr : InvB orig (emit (adv s) .pathRoot) := invB_emit (invB_adv h (by rw [hp, hc]; exact slash_good)) _
      split
      · exact ih.relPath _ hr
      · exact KB_pure hr
    · split
      · exact ih.relPath s h
      · exact KB_syn _
  · exact ih.relPath _ (invB_setErr _ _)
  · exact ih.relPath s h
  · exact ih.relPath s h
  · exact ih.relPath s h
  · rename_i hp
    apply KB_bind _ _ (KB_expectCh '(' (by simp [chr]) (invB_adv h (by rw [hp]; rfl)))
    intro a ha
    apply KB_bind _ _ (KB_expectCh ')' (by simp [chr]) ha)
    intro b hb
    exact keepsB_optRel f ih _ (invB_emit hb _)
  · rename_i hp
    apply KB_bind _ _ (KB_expectCh '(' (by simp [chr]) (invB_adv h (by rw [hp]; rfl)))
    intro a ha
    apply KB_bind _ _ (ih.locPath a ha)
    intro b hb
    apply KB_bind _ _ (KB_expectCh ')' (by simp [chr]) hb)
    intro c hc
    exact keepsB_optRel f ih _ (invB_emit hc _)
  · exact KB_syn _

theorem bstep_path (f : Nat) (ih : InvBK orig f) (s : PSt) (h : InvB orig s) : KeepsB orig (pPath (f + 1) s) := by
  have hrel : KeepsB orig (pRelPath f s >>= fun s => pure (emit s .evalLocPath)) := KB_emitEnd _ _ (ih.relPath s h)
  have hfil := ih.filterPath s h
  simp only [pPath]
  split
  · rename_i c hp
    split
    · exact hfil
    · split
      · rename_i hc
        have hr : InvB orig (emit (adv s) .pathRoot) := invB_emit (invB_adv h (by rw [hp, hc]; exact slash_good)) _
        split
        · exact KB_emitEnd _ _ (ih.relPath _ hr)
        · exact KB_emitEnd _ _ (KB_pure hr)
      · split
        · exact hrel
        · exact KB_syn _
  · exact KB_emitEnd _ _ (ih.relPath _ (invB_setErr _ _))
  · exact hrel
  · exact hrel
  · exact hrel
  · rename_i hp
    apply KB_bind _ _ (KB_expectCh '(' (by simp [chr]) (invB_adv h (by rw [hp]; rfl)))
    intro a ha
    apply KB_bind _ _ (KB_expectCh ')' (by simp [chr]) ha)
    intro b hb
    split
    · rename_i hp2
      have : bad (peekTok (emit b .pathSetCurrent)) = false := by
        show bad (peekTok b) = false
        have hp3 : peekTok b = .ch (chr '/') := hp2
        rw [hp3]; exact slash_good
      exact KB_emitEnd _ _ (ih.relPath _ (invB_adv (invB_emit hb _) this))
    · exact KB_emitEnd _ _ (KB_pure (invB_emit hb _))
  · rename_i hp
    apply KB_bind _ _ (KB_expectCh '(' (by simp [chr]) (invB_adv h (by rw [hp]; rfl)))
    intro a ha
    apply KB_bind _ _ (ih.locPath a ha)
    intro b hb
    apply KB_bind _ _ (KB_expectCh ')' (by simp [chr]) hb)
    intro c hc
    split
    · rename_i hp2
      have : bad (peekTok (emit c .deref)) = false := by
        show bad (peekTok c) = false
        have hp3 : peekTok c = .ch (chr '/') := hp2
        rw [hp3]; exact slash_good
      exact KB_emitEnd _ _ (ih.relPath _ (invB_adv (invB_emit hc _) this))
    · exact KB_emitEnd _ _ (KB_pure (invB_emit hc _))
  · exact hfil
  · exact hfil
  · exact hfil
  · exact hfil
  · exact hfil
  · exact KB_syn _

theorem invBK_all (f : Nat) : InvBK orig f := by
  induction f with
  | zero => exact invBK_zero
  | succ f ih =>
    exact ⟨bstep_level f ih, bstep_levelRest f ih, bstep_unary f ih, bstep_unionRest f ih, bstep_path f ih,
      bstep_locPath f ih, bstep_filterPath f ih, bstep_primary f ih, bstep_preds f ih, bstep_relPath f ih,
      bstep_step f ih⟩

/-- **unsupported constructs are refused**: an accepted token list (no parse error, no error recorded by an action)
    contains no axis name, '@', '//' or node-type test before its end-of-input token -/
theorem parseExprToks_rejects (strict : Bool) (toks : List LexedTok) (s : PSt)
    (h : parseExprToks strict toks = .ok s) (hp : s.perr = none) :
    ∃ pre rest, toks = pre ++ rest ∧ (∀ t ∈ pre, bad t.tok = false) ∧ (rest.head?.map (·.tok)).getD .eof = .eof := by
  unfold parseExprToks at h
  have hinit : InvB toks ({ toks := toks, strict := strict } : PSt) := fun _ => ⟨[], rfl, fun _ hx => by cases hx⟩
  cases h1 : pLevel (24 * toks.length + 24) 0 { toks := toks, strict := strict } with
  | error e => simp [h1, bind, Except.bind] at h
  | ok s1 =>
    have hk := (invBK_all (orig := toks) _).level 0 _ hinit s1 h1
    simp only [h1, bind, Except.bind] at h
    split at h
    · rename_i heof
      simp only [pure, Except.pure, Except.ok.injEq] at h
      subst h
      obtain ⟨pre, e1, e2⟩ := hk hp
      refine ⟨pre, s1.toks, e1, e2, ?_⟩
      have : peekTok s1 = .eof := heof
      unfold peekTok at this
      cases hs : s1.toks with
      | nil => rfl
      | cons t r => simp [hs] at this; simp [this]
    · simp [synErr] at h

theorem ite_ne_machine (c : Prop) [Decidable c] (a : String) (m : Int) (k : String) (prog : List PI) :
    (if c then Built.panic a else Built.error m k) ≠ .machine prog := by
  split <;> simp

theorem built_of_parse (fixed : Bool) (toks : List LexedTok) (n : Nat) (r : P PSt) (prog : List PI)
    (h : (match r with
      | .error .fuel => Built.diverge
      | .error (.syntax pos actionFirst) =>
        let rest := if actionFirst then 0 else match toks[pos]? with
          | some t => if fixed then t.restFixed else t.rest
          | none => 0
        let lexErr : Bool := match toks[pos]? with | some t => t.lerr | none => false
        let mark : Int := Int.ofNat n - Int.ofNat rest
        if mark < 0 then .panic "slice bounds out of range in CreateProgram"
        else .error mark (if lexErr then "lex" else "syntax")
      | .ok s =>
        match s.perr with
        | some m => .error (Int.ofNat n) ("parse:" ++ m)
        | none => .machine s.out.reverse) = Built.machine prog) :
    ∃ s, r = .ok s ∧ s.perr = none := by
  cases r with
  | error e =>
    cases e with
    | fuel => simp at h
    | «syntax» pos af =>
      exact absurd h (ite_ne_machine _ _ _ _ _)
  | ok s =>
    cases hpe : s.perr with
    | some m => simp [hpe] at h
    | none => exact ⟨s, rfl, hpe⟩

/-- the same at the level of `NewExprMachine`: if a machine is built for a must / when expression, the lexer has
    not delivered an unsupported token before the end of the text -/
theorem build_rejects (strict fixed : Bool) (g : Grammar) (hg : g ≠ .leafref) (pm : PfxMap) (bs : List Nat) (prog : List PI)
    (h : build strict fixed g pm bs = .machine prog) :
    ∃ pre rest, (lexAll strict g pm bs).1 = pre ++ rest ∧ (∀ t ∈ pre, bad t.tok = false) ∧
      (rest.head?.map (·.tok)).getD .eof = .eof := by
  unfold build at h
  by_cases hb : bs.isEmpty = true
  · simp [hb] at h
  · simp only [hb, Bool.false_eq_true, ↓reduceIte] at h
    cases g with
    | leafref => exact absurd rfl hg
    | expr =>
      obtain ⟨s, h1, h2⟩ := built_of_parse fixed _ _ _ prog h
      exact parseExprToks_rejects strict _ s h1 h2
    | pathEval =>
      obtain ⟨s, h1, h2⟩ := built_of_parse fixed _ _ _ prog h
      exact parseExprToks_rejects strict _ s h1 h2

end YV.XP
