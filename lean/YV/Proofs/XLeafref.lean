/-
  Proofs.XLeafref — the leafref path parser accepts exactly the RFC 6020 path-arg language (token level).

    path-arg            = absolute-path / relative-path
    absolute-path       = 1*("/" (node-identifier *path-predicate))
    relative-path       = 1*(".." "/") descendant-path
    descendant-path     = node-identifier [*path-predicate absolute-path]
    path-predicate      = "[" path-equality-expr "]"
    path-equality-expr  = node-identifier "=" path-key-expr
    path-key-expr       = current-function-invocation "/" rel-path-keyexpr
    rel-path-keyexpr    = 1*(".." "/") *(node-identifier "/") node-identifier

  `LPath` is the syntax tree of this grammar, `LPath.toks` its token sequence, `LPath.code` the program the grammar
  actions emit.  `parse_complete`: every tree's tokens are accepted, with that program.  `parse_sound`: whatever
  token list the parser accepts is the token sequence of a tree.
-/
import YV.Model.XParse
namespace YV.XP
open YV YV.X YV.XL

abbrev QN := List Rune × List Rune
def QN.tok (q : QN) : Tok := .nametest q.1 q.2
def QN.push (q : QN) : PI := .namePush q.1 q.2

/-- `n` further "../" -/
def upsToks : Nat → List Tok
  | 0 => []
  | n + 1 => .dotdot :: .ch (chr '/') :: upsToks n
def upsCode : Nat → List PI
  | 0 => []
  | n + 1 => .pathDotDot :: upsCode n

/-- *(node-identifier "/") -/
def namesToks : List QN → List Tok
  | [] => []
  | q :: r => q.tok :: .ch (chr '/') :: namesToks r
def namesCode : List QN → List PI
  | [] => []
  | q :: r => q.push :: namesCode r

structure LPred where
  key : QN
  fn : Fn
  ups : Nat            -- "../" beyond the first
  names : List QN
  last : QN

def LPred.toks (p : LPred) : List Tok :=
  .ch (chr '[') :: p.key.tok :: .eq :: .func p.fn :: .ch (chr '(') :: .ch (chr ')') :: .ch (chr '/') ::
    (upsToks (p.ups + 1) ++ (namesToks p.names ++ [p.last.tok, .ch (chr ']')]))
def LPred.code (p : LPred) : List PI :=
  .lrefPredStart :: p.key.push :: .lrefEquals :: (upsCode (p.ups + 1) ++ (namesCode p.names ++ [p.last.push, .lrefPredEnd]))

def predsToks : List LPred → List Tok
  | [] => []
  | p :: r => p.toks ++ predsToks r
def predsCode : List LPred → List PI
  | [] => []
  | p :: r => p.code ++ predsCode r

structure LStep where
  name : QN
  preds : List LPred

def LStep.toks (s : LStep) : List Tok := s.name.tok :: predsToks s.preds
def LStep.code (s : LStep) : List PI := s.name.push :: predsCode s.preds

/-- *("/" step) -/
def restToks : List LStep → List Tok
  | [] => []
  | s :: r => .ch (chr '/') :: (s.toks ++ restToks r)
def restCode : List LStep → List PI
  | [] => []
  | s :: r => s.code ++ restCode r

inductive LPath where
  | abs (first : LStep) (rest : List LStep)
  | rel (ups : Nat) (first : QN) (tail : Option (List LPred × LStep × List LStep))

def LPath.toks : LPath → List Tok
  | .abs f r => .ch (chr '/') :: (f.toks ++ restToks r)
  | .rel n q none => upsToks (n + 1) ++ [q.tok]
  | .rel n q (some (ps, s, r)) => upsToks (n + 1) ++ (q.tok :: (predsToks ps ++ (.ch (chr '/') :: (s.toks ++ restToks r))))

def LPath.code : LPath → List PI
  | .abs f r => .pathRoot :: (f.code ++ restCode r)
  | .rel n q none => upsCode (n + 1) ++ [q.push]
  | .rel n q (some (ps, s, r)) => upsCode (n + 1) ++ (q.push :: (predsCode ps ++ (s.code ++ restCode r)))

/-! ### what a run of the parser consumed and emitted -/

def tkl (s : PSt) : List Tok := s.toks.map (·.tok)

/-- from `s` to `s'`: the tokens `ts` were read and `code` was emitted, nothing else changed -/
def Con (s s' : PSt) (ts : List Tok) (code : List PI) : Prop :=
  tkl s = ts ++ tkl s' ∧ s'.out = code.reverse ++ s.out ∧ s'.perr = s.perr ∧ s'.strict = s.strict

theorem Con.refl (s : PSt) : Con s s [] [] := ⟨rfl, rfl, rfl, rfl⟩

theorem Con.trans {s s1 s2 : PSt} {a b : List Tok} {c d : List PI} (h1 : Con s s1 a c) (h2 : Con s1 s2 b d) :
    Con s s2 (a ++ b) (c ++ d) := by
  refine ⟨?_, ?_, ?_, ?_⟩
  · rw [h1.1, h2.1]; simp
  · rw [h2.2.1, h1.2.1]; simp
  · rw [h2.2.2.1, h1.2.2.1]
  · rw [h2.2.2.2, h1.2.2.2]

theorem Con.emit (s : PSt) (i : PI) : Con s (emit s i) [] [i] := ⟨rfl, rfl, rfl, rfl⟩

theorem peek_tkl (s : PSt) : peekTok s = (tkl s).headD .eof := by
  unfold peekTok tkl; cases s.toks <;> rfl

/-- reading the token that is there -/
theorem Con.adv (s : PSt) (t : Tok) (h : peekTok s = t) (ht : t ≠ .eof) : Con s (adv s) [t] [] := by
  refine ⟨?_, rfl, rfl, rfl⟩
  unfold peekTok at h
  unfold tkl XP.adv
  cases hs : s.toks with
  | nil => rw [hs] at h; exact absurd h.symm ht
  | cons a r => rw [hs] at h; simp at h; simp [h]

theorem expectCh_con (c : Char) (s s' : PSt) (h : expectCh c s = .ok s') : Con s s' [.ch (chr c)] [] := by
  unfold expectCh at h
  split at h
  · rename_i hp
    cases h
    exact Con.adv s _ hp (by simp)
  · cases h

theorem lNodeId_con (s s' : PSt) (h : lNodeId s = .ok s') : ∃ q : QN, Con s s' [q.tok] [q.push] := by
  unfold lNodeId at h
  split at h
  · rename_i p l hp
    cases h
    exact ⟨(p, l), (Con.adv s _ hp (by simp)).trans (Con.emit _ _)⟩
  · cases h

theorem bind_ok {α β : Type} {x : P α} {f : α → P β} {b : β} (h : (x >>= f) = .ok b) :
    ∃ a, x = .ok a ∧ f a = .ok b := by
  cases x with
  | error e => cases h
  | ok a => exact ⟨a, rfl, h⟩

/-! ### soundness: what the parser accepts is a tree's token sequence -/

theorem lKeyNames_sound : ∀ (f : Nat) (s s' : PSt), lKeyPath.lKeyNames f s = .ok s' →
    ∃ (names : List QN) (last : QN), Con s s' (namesToks names ++ [last.tok]) (namesCode names ++ [last.push]) := by
  intro f
  induction f with
  | zero => intro s s' h; cases h
  | succ f ih =>
    intro s s' h
    rw [lKeyPath.lKeyNames] at h
    obtain ⟨s1, h1, h2⟩ := bind_ok h
    obtain ⟨q, hq⟩ := lNodeId_con s s1 h1
    by_cases hp : peekTok s1 = .ch (chr '/')
    · simp only [hp, ↓reduceIte] at h2
      obtain ⟨names, last, hc⟩ := ih _ _ h2
      exact ⟨q :: names, last, (hq.trans ((Con.adv s1 _ hp (by simp)).trans hc))⟩
    · simp only [hp, ↓reduceIte] at h2
      cases h2
      exact ⟨[], q, hq⟩

theorem lKeyPath_sound : ∀ (f : Nat) (seen : Bool) (s s' : PSt), lKeyPath f seen s = .ok s' →
    ∃ (n : Nat) (names : List QN) (last : QN), (seen = false → 1 ≤ n) ∧
      Con s s' (upsToks n ++ (namesToks names ++ [last.tok])) (upsCode n ++ (namesCode names ++ [last.push])) := by
  intro f
  induction f with
  | zero => intro seen s s' h; cases h
  | succ f ih =>
    intro seen s s' h
    rw [lKeyPath] at h
    split at h
    · rename_i hp
      obtain ⟨s1, h1, h2⟩ := bind_ok h
      obtain ⟨n, names, last, _, hc⟩ := ih true s1 s' h2
      have c1 := (Con.adv s _ hp (by simp)).trans ((Con.emit _ .pathDotDot).trans (expectCh_con '/' _ s1 h1))
      exact ⟨n + 1, names, last, fun _ => by omega, c1.trans hc⟩
    · rename_i p l hp
      by_cases hs : seen = true
      · subst hs
        simp only [Bool.not_true, Bool.false_eq_true, ↓reduceIte] at h
        obtain ⟨names, last, hc⟩ := lKeyNames_sound f s s' h
        exact ⟨0, names, last, fun e => (by cases e), hc⟩
      · have : seen = false := by simpa using hs
        subst this
        simp [synErr] at h
    · cases h

theorem lPred_sound (f : Nat) (s s' : PSt) (hp : peekTok s = .ch (chr '[')) (h : lPred f s = .ok s') :
    ∃ p : LPred, Con s s' p.toks p.code := by
  unfold lPred at h
  obtain ⟨s1, h1, h⟩ := bind_ok h
  obtain ⟨key, c1⟩ := lNodeId_con _ s1 h1
  obtain ⟨s2, h2, h⟩ := bind_ok h
  have c2 : Con s1 s2 [.eq] [] := by
    unfold lExpectTok at h2
    split at h2
    · rename_i he; cases h2; exact Con.adv s1 _ he (by simp)
    · cases h2
  dsimp only at h
  split at h
  case h_2 => cases h
  rename_i fn hf
  obtain ⟨s3, h3, h⟩ := bind_ok h
  cases h3
  have c3 : Con (emit s2 .lrefEquals) (adv (emit s2 .lrefEquals)) [.func fn] [] := Con.adv _ _ hf (by simp)
  obtain ⟨s4, h4, h⟩ := bind_ok h
  obtain ⟨s5, h5, h⟩ := bind_ok h
  obtain ⟨s6, h6, h⟩ := bind_ok h
  obtain ⟨s7, h7, h⟩ := bind_ok h
  obtain ⟨s8, h8, h⟩ := bind_ok h
  cases h
  obtain ⟨n, names, last, hn, c7⟩ := lKeyPath_sound f false s6 s7 h7
  obtain ⟨m, rfl⟩ : ∃ m, n = m + 1 := ⟨n - 1, by have := hn rfl; omega⟩
  refine ⟨⟨key, fn, m, names, last⟩, ?_⟩
  have c0 : Con s (emit (adv s) .lrefPredStart) [.ch (chr '[')] [.lrefPredStart] :=
    (Con.adv s _ hp (by simp)).trans (Con.emit _ _)
  have call := c0.trans (c1.trans (c2.trans ((Con.emit s2 .lrefEquals).trans (c3.trans
    ((expectCh_con '(' _ _ h4).trans ((expectCh_con ')' _ _ h5).trans ((expectCh_con '/' _ _ h6).trans
      (c7.trans ((expectCh_con ']' _ _ h8).trans (Con.emit s8 .lrefPredEnd))))))))))
  simpa [LPred.toks, LPred.code] using call

theorem lSteps_sound : ∀ (f : Nat),
    (∀ s s', lSteps f s = .ok s' → ∃ (st : LStep) (r : List LStep),
      Con s s' (st.toks ++ restToks r) (st.code ++ restCode r)) ∧
    (∀ s s', lSteps.lAfterNode f s = .ok s' → ∃ (ps : List LPred) (r : List LStep),
      Con s s' (predsToks ps ++ restToks r) (predsCode ps ++ restCode r)) := by
  intro f
  induction f with
  | zero => exact ⟨fun s s' h => (by cases h), fun s s' h => (by cases h)⟩
  | succ f ih =>
    refine ⟨fun s s' h => ?_, fun s s' h => ?_⟩
    · rw [lSteps] at h
      obtain ⟨s1, h1, h2⟩ := bind_ok h
      obtain ⟨q, cq⟩ := lNodeId_con s s1 h1
      obtain ⟨ps, r, c⟩ := ih.2 s1 s' h2
      exact ⟨⟨q, ps⟩, r, by simpa [LStep.toks, LStep.code] using cq.trans c⟩
    · rw [lSteps.lAfterNode] at h
      by_cases hb : peekTok s = .ch (chr '[')
      · simp only [hb, ↓reduceIte] at h
        obtain ⟨s1, h1, h2⟩ := bind_ok h
        obtain ⟨p, cp⟩ := lPred_sound f s s1 hb h1
        obtain ⟨ps, r, c⟩ := ih.2 s1 s' h2
        exact ⟨p :: ps, r, by simpa [predsToks, predsCode] using cp.trans c⟩
      · by_cases hsl : peekTok s = .ch (chr '/')
        · simp only [hb, ↓reduceIte, hsl] at h
          obtain ⟨st, r, c⟩ := ih.1 (adv s) s' h
          exact ⟨[], st :: r, by simpa [predsToks, predsCode, restToks, restCode] using (Con.adv s _ hsl (by simp)).trans c⟩
        · simp only [hb, ↓reduceIte, hsl] at h
          cases h
          exact ⟨[], [], Con.refl s⟩

theorem lPreds_sound : ∀ (f : Nat) (s s' : PSt), peekTok s = .ch (chr '[') → lPreds f s = .ok s' →
    ∃ (p : LPred) (ps : List LPred), Con s s' (predsToks (p :: ps)) (predsCode (p :: ps)) := by
  intro f
  induction f with
  | zero => intro s s' _ h; cases h
  | succ f ih =>
    intro s s' hp h
    rw [lPreds] at h
    obtain ⟨s1, h1, h2⟩ := bind_ok h
    obtain ⟨p, cp⟩ := lPred_sound f s s1 hp h1
    by_cases hb : peekTok s1 = .ch (chr '[')
    · simp only [hb, ↓reduceIte] at h2
      obtain ⟨p2, ps, c⟩ := ih s1 s' hb h2
      exact ⟨p, p2 :: ps, by simpa [predsToks, predsCode] using cp.trans c⟩
    · simp only [hb, ↓reduceIte] at h2
      cases h2
      exact ⟨p, [], by simpa [predsToks, predsCode] using cp⟩

def descToks (q : QN) : Option (List LPred × LStep × List LStep) → List Tok
  | none => [q.tok]
  | some (ps, s, r) => q.tok :: (predsToks ps ++ (.ch (chr '/') :: (s.toks ++ restToks r)))
def descCode (q : QN) : Option (List LPred × LStep × List LStep) → List PI
  | none => [q.push]
  | some (ps, s, r) => q.push :: (predsCode ps ++ (s.code ++ restCode r))

theorem lDesc_sound (f : Nat) (s s' : PSt) (h : lDesc f s = .ok s') :
    ∃ q tail, Con s s' (descToks q tail) (descCode q tail) := by
  unfold lDesc at h
  obtain ⟨s1, h1, h2⟩ := bind_ok h
  obtain ⟨q, cq⟩ := lNodeId_con s s1 h1
  by_cases hb : peekTok s1 = .ch (chr '[')
  · simp only [hb, ↓reduceIte] at h2
    obtain ⟨s2, h3, h2⟩ := bind_ok h2
    obtain ⟨s3, h4, h2⟩ := bind_ok h2
    obtain ⟨p, ps, cp⟩ := lPreds_sound f s1 s2 hb h3
    obtain ⟨st, r, c⟩ := (lSteps_sound f).1 s3 s' h2
    exact ⟨q, some (p :: ps, st, r), by
      simpa [descToks, descCode] using cq.trans (cp.trans ((expectCh_con '/' _ _ h4).trans c))⟩
  · by_cases hsl : peekTok s1 = .ch (chr '/')
    · simp only [hb, ↓reduceIte, hsl] at h2
      obtain ⟨st, r, c⟩ := (lSteps_sound f).1 (adv s1) s' h2
      exact ⟨q, some ([], st, r), by
        simpa [descToks, descCode, predsToks, predsCode] using cq.trans ((Con.adv s1 _ hsl (by simp)).trans c)⟩
    · simp only [hb, ↓reduceIte, hsl] at h2
      cases h2
      exact ⟨q, none, cq⟩

theorem lRel_sound : ∀ (f : Nat) (s s' : PSt), lRel f s = .ok s' →
    ∃ n q tail, Con s s' (upsToks (n + 1) ++ descToks q tail) (upsCode (n + 1) ++ descCode q tail) := by
  intro f
  induction f with
  | zero => intro s s' h; cases h
  | succ f ih =>
    intro s s' h
    rw [lRel] at h
    split at h
    · rename_i hp
      obtain ⟨s1, h1, h2⟩ := bind_ok h
      have c1 := (Con.adv s _ hp (by simp)).trans ((Con.emit _ .pathDotDot).trans (expectCh_con '/' _ s1 h1))
      split at h2
      · obtain ⟨n, q, tail, c⟩ := ih s1 s' h2
        exact ⟨n + 1, q, tail, by simpa [upsToks, upsCode] using c1.trans c⟩
      · obtain ⟨q, tail, c⟩ := lDesc_sound f s1 s' h2
        exact ⟨0, q, tail, by simpa [upsToks, upsCode] using c1.trans c⟩
    · cases h

/-- the whole parser: whatever it accepts is a path-arg tree's tokens up to the end-of-input token -/
theorem parse_sound (toks : List LexedTok) (s' : PSt) (h : parseLeafrefToks toks = .ok s') :
    ∃ (p : LPath) (rest : List Tok), toks.map (·.tok) = p.toks ++ rest ∧ rest.headD .eof = .eof ∧
      s'.out.reverse = p.code ++ [.evalLocPath, .store] := by
  unfold parseLeafrefToks at h
  dsimp only at h
  have fin : ∀ (p : LPath) (s1 : PSt), Con { toks := toks } s1 p.toks p.code →
      (if peekTok (emit s1 .evalLocPath) = .eof then pure (emit (emit s1 .evalLocPath) .store)
        else synErr (emit s1 .evalLocPath) : P PSt) = .ok s' →
      ∃ (p : LPath) (rest : List Tok), toks.map (·.tok) = p.toks ++ rest ∧ rest.headD .eof = .eof ∧
        s'.out.reverse = p.code ++ [.evalLocPath, .store] := by
    intro p s1 c h2
    by_cases he : peekTok (emit s1 .evalLocPath) = .eof
    · simp only [he, ↓reduceIte] at h2
      cases h2
      refine ⟨p, tkl s1, c.1, ?_, ?_⟩
      · rw [← peek_tkl]; exact he
      · simp [emit, c.2.1]
    · simp only [he, ↓reduceIte] at h2
      cases h2
  split at h
  · rename_i c hc
    by_cases hsl : c = chr '/'
    · subst hsl
      simp only [↓reduceIte] at h
      obtain ⟨s1, h1, h2⟩ := bind_ok h
      obtain ⟨st, r, cc⟩ := (lSteps_sound _).1 _ _ h1
      exact fin (.abs st r) s1 (by
        simpa [LPath.toks, LPath.code] using (Con.adv _ _ hc (by simp)).trans ((Con.emit _ .pathRoot).trans cc)) h2
    · simp only [hsl, ↓reduceIte] at h
      cases h
  · obtain ⟨s1, h1, h2⟩ := bind_ok h
    obtain ⟨n, q, tail, cc⟩ := lRel_sound _ _ _ h1
    cases tail with
    | none => exact fin (.rel n q none) s1 (by simpa [LPath.toks, LPath.code, descToks, descCode] using cc) h2
    | some t =>
      obtain ⟨ps, st, r⟩ := t
      exact fin (.rel n q (some (ps, st, r))) s1 (by simpa [LPath.toks, LPath.code, descToks, descCode] using cc) h2
  · cases h

/-! ### completeness: the tokens of every tree are accepted -/

theorem peek_of_tkl {s : PSt} {t : Tok} {r : List Tok} (h : tkl s = t :: r) : peekTok s = t := by
  rw [peek_tkl, h]; rfl

theorem tkl_adv (s : PSt) : tkl (adv s) = (tkl s).drop 1 := by simp [tkl, adv, List.map_drop]
theorem tkl_emit (s : PSt) (i : PI) : tkl (emit s i) = tkl s := rfl

/-- what is left after a run that consumed `ts` -/
theorem Con.left {s s' : PSt} {ts rest : List Tok} {c : List PI} (h : Con s s' ts c) (ht : tkl s = ts ++ rest) :
    tkl s' = rest := by
  have := h.1
  rw [ht] at this
  exact (List.append_cancel_left this).symm

theorem lNodeId_ok (s : PSt) (q : QN) (rest : List Tok) (h : tkl s = q.tok :: rest) :
    ∃ s', lNodeId s = .ok s' ∧ Con s s' [q.tok] [q.push] := by
  have hp : peekTok s = .nametest q.1 q.2 := peek_of_tkl h
  refine ⟨emit (adv s) q.push, ?_, (Con.adv s _ hp (by simp)).trans (Con.emit _ _)⟩
  simp only [lNodeId, hp]; rfl

theorem expectCh_ok' (c : Char) (s : PSt) (rest : List Tok) (h : tkl s = .ch (chr c) :: rest) :
    expectCh c s = .ok (adv s) ∧ Con s (adv s) [.ch (chr c)] [] := by
  have hp : peekTok s = .ch (chr c) := peek_of_tkl h
  exact ⟨by simp only [expectCh, hp, ↓reduceIte]; rfl, Con.adv s _ hp (by simp)⟩

theorem lKeyNames_ok : ∀ (names : List QN) (last : QN) (f : Nat) (s : PSt) (rest : List Tok),
    tkl s = namesToks names ++ (last.tok :: rest) → rest.headD .eof ≠ .ch (chr '/') → names.length < f →
    ∃ s', lKeyPath.lKeyNames f s = .ok s' ∧
      Con s s' (namesToks names ++ [last.tok]) (namesCode names ++ [last.push]) := by
  intro names
  induction names with
  | nil =>
    intro last f s rest ht hr hf
    obtain ⟨f', rfl⟩ : ∃ f', f = f' + 1 := ⟨f - 1, by omega⟩
    obtain ⟨s1, h1, c1⟩ := lNodeId_ok s last rest (by simpa [namesToks] using ht)
    have hl := c1.left (rest := rest) (by simpa [namesToks] using ht)
    have hp : peekTok s1 ≠ .ch (chr '/') := by rw [peek_tkl, hl]; exact hr
    exact ⟨s1, by rw [lKeyPath.lKeyNames, h1]; simp only [bind, Except.bind, hp, ↓reduceIte]; rfl, c1⟩
  | cons q names ih =>
    intro last f s rest ht hr hf
    obtain ⟨f', rfl⟩ : ∃ f', f = f' + 1 := ⟨f - 1, by omega⟩
    have ht' : tkl s = q.tok :: (.ch (chr '/') :: (namesToks names ++ (last.tok :: rest))) := by simpa [namesToks] using ht
    obtain ⟨s1, h1, c1⟩ := lNodeId_ok s q _ ht'
    have hl := c1.left (rest := _) ht'
    have hp : peekTok s1 = .ch (chr '/') := peek_of_tkl hl
    obtain ⟨s2, h2, c2⟩ := ih last f' (adv s1) rest (by rw [tkl_adv, hl]; rfl) hr (by simp at hf; omega)
    refine ⟨s2, ?_, by simpa [namesToks, namesCode] using c1.trans ((Con.adv s1 _ hp (by simp)).trans c2)⟩
    rw [lKeyPath.lKeyNames, h1]
    simp only [bind, Except.bind, hp, ↓reduceIte]
    exact h2

theorem lKeyPath_ok : ∀ (n : Nat) (names : List QN) (last : QN) (seen : Bool) (f : Nat) (s : PSt) (rest : List Tok),
    (seen = false → 1 ≤ n) → tkl s = upsToks n ++ (namesToks names ++ (last.tok :: rest)) →
    rest.headD .eof ≠ .ch (chr '/') → n + names.length + 1 < f →
    ∃ s', lKeyPath f seen s = .ok s' ∧
      Con s s' (upsToks n ++ (namesToks names ++ [last.tok])) (upsCode n ++ (namesCode names ++ [last.push])) := by
  intro n
  induction n with
  | zero =>
    intro names last seen f s rest hs ht hr hf
    obtain ⟨f', rfl⟩ : ∃ f', f = f' + 1 := ⟨f - 1, by omega⟩
    have hseen : seen = true := by
      cases seen with
      | true => rfl
      | false => have := hs rfl; omega
    subst hseen
    have ht' : tkl s = namesToks names ++ (last.tok :: rest) := by simpa [upsToks] using ht
    obtain ⟨s1, h1, c1⟩ := lKeyNames_ok names last f' s rest ht' hr (by omega)
    have hp : ∃ p l, peekTok s = .nametest p l := by
      cases names with
      | nil => exact ⟨last.1, last.2, peek_of_tkl (by simpa [namesToks, QN.tok] using ht')⟩
      | cons q r => exact ⟨q.1, q.2, peek_of_tkl (by simpa [namesToks, QN.tok] using ht')⟩
    obtain ⟨p, l, hp⟩ := hp
    refine ⟨s1, ?_, by simpa [upsToks, upsCode] using c1⟩
    rw [lKeyPath]
    simp only [hp, Bool.not_true, Bool.false_eq_true, ↓reduceIte]
    exact h1
  | succ n ih =>
    intro names last seen f s rest _ ht hr hf
    obtain ⟨f', rfl⟩ : ∃ f', f = f' + 1 := ⟨f - 1, by omega⟩
    have ht' : tkl s = .dotdot :: (.ch (chr '/') :: (upsToks n ++ (namesToks names ++ (last.tok :: rest)))) := by
      simpa [upsToks] using ht
    have hp : peekTok s = .dotdot := peek_of_tkl ht'
    have c0 : Con s (emit (adv s) .pathDotDot) [.dotdot] [.pathDotDot] := (Con.adv s _ hp (by simp)).trans (Con.emit _ _)
    have hl := c0.left (rest := _) ht'
    obtain ⟨e1, c1⟩ := expectCh_ok' '/' _ _ hl
    have hl2 := c1.left (rest := _) hl
    obtain ⟨s2, h2, c2⟩ := ih names last true f' _ rest (fun e => by cases e) hl2 hr (by omega)
    refine ⟨s2, ?_, by simpa [upsToks, upsCode] using c0.trans (c1.trans c2)⟩
    rw [lKeyPath]
    simp only [hp]
    rw [e1]
    exact h2

theorem lPred_ok (p : LPred) (f : Nat) (s : PSt) (rest : List Tok) (ht : tkl s = p.toks ++ rest)
    (hf : p.ups + p.names.length + 2 < f) : ∃ s', lPred f s = .ok s' ∧ Con s s' p.toks p.code := by
  have h0 : tkl s = .ch (chr '[') :: (p.key.tok :: (.eq :: (.func p.fn :: (.ch (chr '(') :: (.ch (chr ')') ::
      (.ch (chr '/') :: (upsToks (p.ups + 1) ++ (namesToks p.names ++ (p.last.tok :: (.ch (chr ']') :: rest)))))))))) := by
    simpa [LPred.toks] using ht
  have hp : peekTok s = .ch (chr '[') := peek_of_tkl h0
  have c0 : Con s (emit (adv s) .lrefPredStart) [.ch (chr '[')] [.lrefPredStart] :=
    (Con.adv s _ hp (by simp)).trans (Con.emit _ _)
  have l0 := c0.left (rest := _) h0
  obtain ⟨s1, e1, c1⟩ := lNodeId_ok _ p.key _ l0
  have l1 := c1.left (rest := _) l0
  have hp1 : peekTok s1 = .eq := peek_of_tkl l1
  have c2 : Con s1 (emit (adv s1) .lrefEquals) [.eq] [.lrefEquals] := (Con.adv s1 _ hp1 (by simp)).trans (Con.emit _ _)
  have l2 := c2.left (rest := _) l1
  have hp2 : peekTok (emit (adv s1) .lrefEquals) = .func p.fn := peek_of_tkl l2
  have c3 := Con.adv _ _ hp2 (by simp)
  have l3 := c3.left (rest := _) l2
  obtain ⟨e4, c4⟩ := expectCh_ok' '(' _ _ l3
  have l4 := c4.left (rest := _) l3
  obtain ⟨e5, c5⟩ := expectCh_ok' ')' _ _ l4
  have l5 := c5.left (rest := _) l4
  obtain ⟨e6, c6⟩ := expectCh_ok' '/' _ _ l5
  have l6 := c6.left (rest := _) l5
  obtain ⟨s7, e7, c7⟩ := lKeyPath_ok (p.ups + 1) p.names p.last false f _ (.ch (chr ']') :: rest) (fun _ => by omega)
    (by simpa [upsToks] using l6) (by simp [chr]) (by omega)
  have l7 := c7.left (rest := .ch (chr ']') :: rest) (by simpa [upsToks] using l6)
  obtain ⟨e8, c8⟩ := expectCh_ok' ']' _ _ l7
  refine ⟨emit (adv s7) .lrefPredEnd, ?_, ?_⟩
  · unfold lPred
    dsimp only
    rw [e1]
    simp only [bind, Except.bind, lExpectTok, hp1, ↓reduceIte, pure, Except.pure, hp2]
    rw [e4]; dsimp only
    rw [e5]; dsimp only
    rw [e6]; dsimp only
    rw [e7]; dsimp only
    rw [e8]
  · have call := c0.trans (c1.trans (c2.trans (c3.trans (c4.trans (c5.trans (c6.trans (c7.trans (c8.trans
      (Con.emit _ .lrefPredEnd)))))))))
    simpa [LPred.toks, LPred.code] using call

theorem pred_fuel (p : LPred) : p.ups + p.names.length + 2 < p.toks.length := by
  have h1 : ∀ n, (upsToks n).length = 2 * n := by
    intro n; induction n with
    | zero => rfl
    | succ n ih => simp [upsToks, ih]; omega
  have h2 : ∀ l : List QN, (namesToks l).length = 2 * l.length := by
    intro l; induction l with
    | nil => rfl
    | cons a l ih => simp [namesToks, ih]; omega
  simp [LPred.toks, h1, h2]; omega

/-- after a node identifier: predicates, then further steps, up to something that is neither `[` nor `/` -/
theorem lAfter_ok : ∀ (r : List LStep) (ps : List LPred) (f : Nat) (s : PSt) (rest : List Tok),
    tkl s = predsToks ps ++ (restToks r ++ rest) → rest.headD .eof ≠ .ch (chr '[') → rest.headD .eof ≠ .ch (chr '/') →
    (predsToks ps ++ restToks r).length < f →
    ∃ s', lSteps.lAfterNode f s = .ok s' ∧ Con s s' (predsToks ps ++ restToks r) (predsCode ps ++ restCode r) := by
  intro r
  induction r with
  | nil =>
    intro ps
    induction ps with
    | nil =>
      intro f s rest ht h1 h2 hf
      obtain ⟨f', rfl⟩ : ∃ f', f = f' + 1 := ⟨f - 1, by omega⟩
      have hp : peekTok s = rest.headD .eof := by rw [peek_tkl, ht]; rfl
      refine ⟨s, ?_, Con.refl s⟩
      rw [lSteps.lAfterNode]
      simp only [hp, h1, h2, ↓reduceIte]; rfl
    | cons p ps ihp =>
      intro f s rest ht h1 h2 hf
      obtain ⟨f', rfl⟩ : ∃ f', f = f' + 1 := ⟨f - 1, by omega⟩
      have ht' : tkl s = p.toks ++ (predsToks ps ++ (restToks [] ++ rest)) := by simpa [predsToks] using ht
      have hp : peekTok s = .ch (chr '[') := peek_of_tkl (r := _) (by rw [ht']; rfl)
      have := pred_fuel p
      obtain ⟨s1, e1, c1⟩ := lPred_ok p f' s _ ht' (by simp [predsToks] at hf; omega)
      obtain ⟨s2, e2, c2⟩ := ihp f' s1 rest (c1.left ht') h1 h2 (by simp [predsToks] at hf ⊢; omega)
      refine ⟨s2, ?_, by simpa [predsToks, predsCode] using c1.trans c2⟩
      rw [lSteps.lAfterNode]
      simp only [hp, ↓reduceIte]
      rw [e1]; exact e2
  | cons st r ih =>
    intro ps
    induction ps with
    | nil =>
      intro f s rest ht h1 h2 hf
      obtain ⟨f', rfl⟩ : ∃ f', f = f' + 1 := ⟨f - 1, by omega⟩
      have ht' : tkl s = .ch (chr '/') :: (st.name.tok :: (predsToks st.preds ++ (restToks r ++ rest))) := by
        simpa [predsToks, restToks, LStep.toks] using ht
      have hp : peekTok s = .ch (chr '/') := peek_of_tkl ht'
      have c0 := Con.adv s _ hp (by simp)
      have l0 := c0.left (rest := _) ht'
      obtain ⟨f'', rfl⟩ : ∃ f'', f' = f'' + 1 := ⟨f' - 1, by simp [predsToks, restToks, LStep.toks] at hf; omega⟩
      obtain ⟨s1, e1, c1⟩ := lNodeId_ok _ st.name _ l0
      obtain ⟨s2, e2, c2⟩ := ih st.preds f'' s1 rest (c1.left l0) h1 h2
        (by simp [predsToks, restToks, LStep.toks] at hf ⊢; omega)
      refine ⟨s2, ?_, by simpa [predsToks, predsCode, restToks, restCode, LStep.toks, LStep.code] using c0.trans (c1.trans c2)⟩
      rw [lSteps.lAfterNode]
      simp only [hp, show (Tok.ch (chr '/')) ≠ .ch (chr '[') by simp [chr], ↓reduceIte]
      rw [lSteps, e1]; exact e2
    | cons p ps ihp =>
      intro f s rest ht h1 h2 hf
      obtain ⟨f', rfl⟩ : ∃ f', f = f' + 1 := ⟨f - 1, by omega⟩
      have ht' : tkl s = p.toks ++ (predsToks ps ++ (restToks (st :: r) ++ rest)) := by simpa [predsToks] using ht
      have hp : peekTok s = .ch (chr '[') := peek_of_tkl (r := _) (by rw [ht']; rfl)
      have := pred_fuel p
      obtain ⟨s1, e1, c1⟩ := lPred_ok p f' s _ ht' (by simp [predsToks] at hf; omega)
      obtain ⟨s2, e2, c2⟩ := ihp f' s1 rest (c1.left ht') h1 h2 (by simp [predsToks] at hf ⊢; omega)
      refine ⟨s2, ?_, by simpa [predsToks, predsCode] using c1.trans c2⟩
      rw [lSteps.lAfterNode]
      simp only [hp, ↓reduceIte]
      rw [e1]; exact e2

theorem lSteps_ok (st : LStep) (r : List LStep) (f : Nat) (s : PSt) (rest : List Tok)
    (ht : tkl s = st.toks ++ (restToks r ++ rest)) (h1 : rest.headD .eof ≠ .ch (chr '[')) (h2 : rest.headD .eof ≠ .ch (chr '/'))
    (hf : (st.toks ++ restToks r).length < f) :
    ∃ s', lSteps f s = .ok s' ∧ Con s s' (st.toks ++ restToks r) (st.code ++ restCode r) := by
  obtain ⟨f', rfl⟩ : ∃ f', f = f' + 1 := ⟨f - 1, by omega⟩
  have ht' : tkl s = st.name.tok :: (predsToks st.preds ++ (restToks r ++ rest)) := by simpa [LStep.toks] using ht
  obtain ⟨s1, e1, c1⟩ := lNodeId_ok s st.name _ ht'
  obtain ⟨s2, e2, c2⟩ := lAfter_ok r st.preds f' s1 rest (c1.left ht') h1 h2 (by simp [LStep.toks] at hf ⊢; omega)
  refine ⟨s2, ?_, by simpa [LStep.toks, LStep.code] using c1.trans c2⟩
  rw [lSteps, e1]; exact e2

theorem lPreds_ok : ∀ (ps : List LPred) (p : LPred) (f : Nat) (s : PSt) (rest : List Tok),
    tkl s = predsToks (p :: ps) ++ rest → rest.headD .eof ≠ .ch (chr '[') → (predsToks (p :: ps)).length < f →
    ∃ s', lPreds f s = .ok s' ∧ Con s s' (predsToks (p :: ps)) (predsCode (p :: ps)) := by
  intro ps
  induction ps with
  | nil =>
    intro p f s rest ht h1 hf
    obtain ⟨f', rfl⟩ : ∃ f', f = f' + 1 := ⟨f - 1, by omega⟩
    have ht' : tkl s = p.toks ++ rest := by simpa [predsToks] using ht
    have := pred_fuel p
    obtain ⟨s1, e1, c1⟩ := lPred_ok p f' s _ ht' (by simp [predsToks] at hf; omega)
    have hp : peekTok s1 ≠ .ch (chr '[') := by rw [peek_tkl, c1.left ht']; exact h1
    refine ⟨s1, ?_, by simpa [predsToks, predsCode] using c1⟩
    rw [lPreds, e1]
    simp only [bind, Except.bind, hp, ↓reduceIte]; rfl
  | cons p2 ps ih =>
    intro p f s rest ht h1 hf
    obtain ⟨f', rfl⟩ : ∃ f', f = f' + 1 := ⟨f - 1, by omega⟩
    have ht' : tkl s = p.toks ++ (predsToks (p2 :: ps) ++ rest) := by simpa [predsToks] using ht
    have := pred_fuel p
    obtain ⟨s1, e1, c1⟩ := lPred_ok p f' s _ ht' (by simp [predsToks] at hf; omega)
    have l1 := c1.left ht'
    have hp : peekTok s1 = .ch (chr '[') := peek_of_tkl (r := _) (by rw [l1]; rfl)
    obtain ⟨s2, e2, c2⟩ := ih p2 f' s1 rest l1 h1 (by simp [predsToks] at hf ⊢; omega)
    refine ⟨s2, ?_, by simpa [predsToks, predsCode] using c1.trans c2⟩
    rw [lPreds, e1]
    simp only [bind, Except.bind, hp, ↓reduceIte]
    exact e2

theorem lDesc_ok (q : QN) (tail : Option (List LPred × LStep × List LStep)) (f : Nat) (s : PSt) (rest : List Tok)
    (ht : tkl s = descToks q tail ++ rest) (h1 : rest.headD .eof ≠ .ch (chr '[')) (h2 : rest.headD .eof ≠ .ch (chr '/'))
    (hf : (descToks q tail).length < f) :
    ∃ s', lDesc f s = .ok s' ∧ Con s s' (descToks q tail) (descCode q tail) := by
  cases tail with
  | none =>
    have ht' : tkl s = q.tok :: rest := by simpa [descToks] using ht
    obtain ⟨s1, e1, c1⟩ := lNodeId_ok s q _ ht'
    have hp := c1.left ht'
    refine ⟨s1, ?_, c1⟩
    unfold lDesc
    rw [e1]
    have p1 : peekTok s1 ≠ .ch (chr '[') := by rw [peek_tkl, hp]; exact h1
    have p2 : peekTok s1 ≠ .ch (chr '/') := by rw [peek_tkl, hp]; exact h2
    simp only [bind, Except.bind, p1, p2, ↓reduceIte]; rfl
  | some t =>
    obtain ⟨ps, st, r⟩ := t
    have ht' : tkl s = q.tok :: (predsToks ps ++ (.ch (chr '/') :: (st.toks ++ (restToks r ++ rest)))) := by
      simpa [descToks] using ht
    obtain ⟨s1, e1, c1⟩ := lNodeId_ok s q _ ht'
    have l1 := c1.left ht'
    cases ps with
    | nil =>
      have l1' : tkl s1 = .ch (chr '/') :: (st.toks ++ (restToks r ++ rest)) := by simpa [predsToks] using l1
      have hp : peekTok s1 = .ch (chr '/') := peek_of_tkl l1'
      have c2 := Con.adv s1 _ hp (by simp)
      obtain ⟨s3, e3, c3⟩ := lSteps_ok st r f (adv s1) rest (c2.left l1') h1 h2 (by simp [descToks, predsToks] at hf ⊢; omega)
      refine ⟨s3, ?_, by simpa [descToks, descCode, predsToks, predsCode] using c1.trans (c2.trans c3)⟩
      unfold lDesc
      rw [e1]
      simp only [bind, Except.bind, hp, show (Tok.ch (chr '/')) ≠ .ch (chr '[') by simp [chr], ↓reduceIte]
      exact e3
    | cons p ps =>
      have hp : peekTok s1 = .ch (chr '[') := peek_of_tkl (r := _) (by rw [l1]; rfl)
      obtain ⟨s2, e2, c2⟩ := lPreds_ok ps p f s1 (.ch (chr '/') :: (st.toks ++ (restToks r ++ rest)))
        (by simpa using l1) (by simp [chr]) (by simp [descToks] at hf ⊢; omega)
      have l2 := c2.left (rest := .ch (chr '/') :: (st.toks ++ (restToks r ++ rest))) (by simpa using l1)
      obtain ⟨e3, c3⟩ := expectCh_ok' '/' s2 _ l2
      obtain ⟨s4, e4, c4⟩ := lSteps_ok st r f (adv s2) rest (c3.left l2) h1 h2 (by simp [descToks] at hf ⊢; omega)
      refine ⟨s4, ?_, by simpa [descToks, descCode] using c1.trans (c2.trans (c3.trans c4))⟩
      unfold lDesc
      rw [e1]
      simp only [bind, Except.bind, hp, ↓reduceIte]
      rw [e2]; dsimp only
      rw [e3]; exact e4

theorem ups_length (n : Nat) : (upsToks n).length = 2 * n := by
  induction n with
  | zero => rfl
  | succ n ih => simp [upsToks, ih]; omega

theorem desc_head (q : QN) (tail) (rest : List Tok) : (descToks q tail ++ rest).headD .eof = q.tok := by
  cases tail with
  | none => rfl
  | some t => obtain ⟨ps, st, r⟩ := t; rfl

theorem lRel_ok : ∀ (n : Nat) (q : QN) (tail : Option (List LPred × LStep × List LStep)) (f : Nat) (s : PSt)
    (rest : List Tok), tkl s = upsToks (n + 1) ++ (descToks q tail ++ rest) → rest.headD .eof ≠ .ch (chr '[') →
    rest.headD .eof ≠ .ch (chr '/') → (upsToks (n + 1) ++ descToks q tail).length < f →
    ∃ s', lRel f s = .ok s' ∧ Con s s' (upsToks (n + 1) ++ descToks q tail) (upsCode (n + 1) ++ descCode q tail) := by
  intro n
  induction n with
  | zero =>
    intro q tail f s rest ht h1 h2 hf
    obtain ⟨f', rfl⟩ : ∃ f', f = f' + 1 := ⟨f - 1, by omega⟩
    have ht' : tkl s = .dotdot :: (.ch (chr '/') :: (descToks q tail ++ rest)) := by simpa [upsToks] using ht
    have hp : peekTok s = .dotdot := peek_of_tkl ht'
    have c0 : Con s (emit (adv s) .pathDotDot) [.dotdot] [.pathDotDot] := (Con.adv s _ hp (by simp)).trans (Con.emit _ _)
    have l0 := c0.left (rest := _) ht'
    obtain ⟨e1, c1⟩ := expectCh_ok' '/' _ _ l0
    have l1 := c1.left (rest := _) l0
    obtain ⟨s2, e2, c2⟩ := lDesc_ok q tail f' _ rest l1 h1 h2 (by simp [upsToks] at hf; omega)
    have hp2 : peekTok (adv (emit (adv s) .pathDotDot)) = q.tok := by rw [peek_tkl, l1]; exact desc_head q tail rest
    refine ⟨s2, ?_, by simpa [upsToks, upsCode] using c0.trans (c1.trans c2)⟩
    rw [lRel]
    simp only [hp]
    rw [e1]
    simp only [bind, Except.bind, hp2, QN.tok]
    exact e2
  | succ n ih =>
    intro q tail f s rest ht h1 h2 hf
    obtain ⟨f', rfl⟩ : ∃ f', f = f' + 1 := ⟨f - 1, by omega⟩
    have ht' : tkl s = .dotdot :: (.ch (chr '/') :: (upsToks (n + 1) ++ (descToks q tail ++ rest))) := by
      simpa [upsToks] using ht
    have hp : peekTok s = .dotdot := peek_of_tkl ht'
    have c0 : Con s (emit (adv s) .pathDotDot) [.dotdot] [.pathDotDot] := (Con.adv s _ hp (by simp)).trans (Con.emit _ _)
    have l0 := c0.left (rest := _) ht'
    obtain ⟨e1, c1⟩ := expectCh_ok' '/' _ _ l0
    have l1 := c1.left (rest := _) l0
    obtain ⟨s2, e2, c2⟩ := ih q tail f' _ rest l1 h1 h2 (by simp [upsToks] at hf ⊢; omega)
    have hp2 : peekTok (adv (emit (adv s) .pathDotDot)) = .dotdot := peek_of_tkl (r := _) (by rw [l1])
    refine ⟨s2, ?_, by simpa [upsToks, upsCode] using c0.trans (c1.trans c2)⟩
    rw [lRel]
    simp only [hp]
    rw [e1]
    simp only [bind, Except.bind, hp2]
    exact e2

theorem path_len (p : LPath) : 1 ≤ p.toks.length := by
  cases p with
  | abs f r => simp [LPath.toks]
  | rel n q tail => cases tail with
    | none => simp [LPath.toks]
    | some t => obtain ⟨ps, st, r⟩ := t; simp [LPath.toks]; omega

/-- the whole parser: the tokens of every path-arg tree, followed by the end-of-input token, are accepted, and the
    program is the tree's, then evalLocPath and store -/
theorem parse_complete (p : LPath) (toks : List LexedTok) (rest : List Tok) (ht : toks.map (·.tok) = p.toks ++ rest)
    (hr : rest.headD .eof = .eof) :
    ∃ s', parseLeafrefToks toks = .ok s' ∧ s'.out.reverse = p.code ++ [.evalLocPath, .store] ∧ s'.perr = none := by
  have hlen : p.toks.length ≤ toks.length := by
    have := congrArg List.length ht; simp at this; omega
  have h1 : rest.headD .eof ≠ .ch (chr '[') := by rw [hr]; simp
  have h2 : rest.headD .eof ≠ .ch (chr '/') := by rw [hr]; simp
  have fin : ∀ s1 : PSt, Con { toks := toks } s1 p.toks p.code →
      (if peekTok (emit s1 .evalLocPath) = .eof then pure (emit (emit s1 .evalLocPath) .store)
        else synErr (emit s1 .evalLocPath) : P PSt) = .ok (emit (emit s1 .evalLocPath) .store) ∧
      (emit (emit s1 .evalLocPath) .store).out.reverse = p.code ++ [.evalLocPath, .store] ∧
      (emit (emit s1 .evalLocPath) .store).perr = none := by
    intro s1 c
    have hl : tkl s1 = rest := c.left (s := { toks := toks }) ht
    have hp : peekTok (emit s1 .evalLocPath) = .eof := by
      show peekTok s1 = .eof
      rw [peek_tkl, hl]; exact hr
    refine ⟨by simp only [hp, ↓reduceIte]; rfl, by simp [emit, c.2.1], ?_⟩
    show s1.perr = none
    rw [c.2.2.1]
  unfold parseLeafrefToks
  dsimp only
  cases p with
  | abs st r =>
    have ht0 : tkl { toks := toks } = .ch (chr '/') :: (st.toks ++ (restToks r ++ rest)) := by
      simpa [LPath.toks, tkl] using ht
    have hp : peekTok { toks := toks } = .ch (chr '/') := peek_of_tkl ht0
    have c0 : Con { toks := toks } (emit (adv { toks := toks }) .pathRoot) [.ch (chr '/')] [.pathRoot] :=
      (Con.adv _ _ hp (by simp)).trans (Con.emit _ _)
    obtain ⟨s1, e1, c1⟩ := lSteps_ok st r (8 * toks.length + 8) _ rest (c0.left ht0) h1 h2
      (by simp [LPath.toks] at hlen; simp; omega)
    obtain ⟨f1, f2, f3⟩ := fin s1 (by simpa [LPath.toks, LPath.code] using c0.trans c1)
    refine ⟨_, ?_, f2, f3⟩
    simp only [hp, ↓reduceIte]
    rw [e1]
    exact f1
  | rel n q tail =>
    have ht0 : tkl { toks := toks } = upsToks (n + 1) ++ (descToks q tail ++ rest) := by
      cases tail with
      | none => simpa [LPath.toks, tkl, descToks] using ht
      | some t => obtain ⟨ps, st, r⟩ := t; simpa [LPath.toks, tkl, descToks] using ht
    have hp : peekTok { toks := toks } = .dotdot := peek_of_tkl (r := _) (by rw [ht0]; rfl)
    have hlen2 : (upsToks (n + 1) ++ descToks q tail).length = (LPath.rel n q tail).toks.length := by
      cases tail with
      | none => simp [LPath.toks, descToks]
      | some t => obtain ⟨ps, st, r⟩ := t; simp [LPath.toks, descToks]
    obtain ⟨s1, e1, c1⟩ := lRel_ok n q tail (8 * toks.length + 8) _ rest ht0 h1 h2 (by rw [hlen2]; omega)
    have cc : Con { toks := toks } s1 (LPath.rel n q tail).toks (LPath.rel n q tail).code := by
      cases tail with
      | none => simpa [LPath.toks, LPath.code, descToks, descCode] using c1
      | some t => obtain ⟨ps, st, r⟩ := t; simpa [LPath.toks, LPath.code, descToks, descCode] using c1
    obtain ⟨f1, f2, f3⟩ := fin s1 cc
    refine ⟨_, ?_, f2, f3⟩
    simp only [hp]
    rw [e1]
    exact f1

end YV.XP
