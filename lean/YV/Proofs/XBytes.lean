/-
  Proofs.XBytes — byte accounting of the XPath lexer: what `CommonLex.Error` takes for the unread rest of the
  expression (after the repair: a read-ahead invalid byte counts as the one byte it is) never exceeds the
  expression, so the position the error text marks lies inside the expression and `CreateProgram` cannot
  slice out of bounds.
-/
import YV.Model.XParse
namespace YV.XL
open YV YV.X

/-- bytes `restLen true` counts for a peeked rune -/
def pb (c : Rune) : Nat := if c = 0 then 0 else if c = ERR then 1 else encLen c

def sumW (l : List SrcRune) : Nat := l.foldl (fun a r => a + r.w) 0

theorem foldl_add_w (l : List SrcRune) (a : Nat) : l.foldl (fun a r => a + r.w) a = a + sumW l := by
  unfold sumW
  induction l generalizing a with
  | nil => simp
  | cons r t ih => simp only [List.foldl_cons]; rw [ih, ih (0 + r.w)]; omega

theorem sumW_cons (r : SrcRune) (t : List SrcRune) : sumW (r :: t) = r.w + sumW t := by
  unfold sumW; simp only [List.foldl_cons]; rw [foldl_add_w]; unfold sumW; omega

theorem restLen_eq (s : LexSt) : restLen true s = pb s.peek + sumW s.line := by
  unfold restLen pb sumW; simp

/-- a source rune gives back at most the bytes it was read from -/
def WFr (r : SrcRune) : Prop := 1 ≤ r.w ∧ pb r.cp ≤ r.w

theorem pb_le1 (c : Rune) (h : c < 128) : pb c ≤ 1 := by
  unfold pb encLen; simp only [ERR]; (repeat' split) <;> omega
theorem pb_le2 (c : Rune) (h : c < 2048) : pb c ≤ 2 := by
  unfold pb encLen; simp only [ERR]; (repeat' split) <;> omega
theorem pb_le3 (c : Rune) (h : c < 65536) : pb c ≤ 3 := by
  unfold pb encLen; simp only [ERR]; (repeat' split) <;> omega
theorem pb_le4 (c : Rune) : pb c ≤ 4 := by
  unfold pb encLen
  split
  · omega
  · split
    · omega
    · split
      · omega
      · split
        · omega
        · split
          · omega
          · split
            · omega
            · split <;> omega
theorem pb_ERR : pb ERR ≤ 1 := by simp [pb, ERR]

theorem wf_bad : WFr ⟨ERR, 1⟩ := ⟨Nat.le_refl _, pb_ERR⟩

theorem decodeOne_spec (bs : List Nat) (r : SrcRune) (rest : List Nat) (h : decodeOne bs = some (r, rest)) :
    WFr r ∧ rest.length + r.w = bs.length := by
  cases bs with
  | nil => simp [decodeOne] at h
  | cons b0 t =>
    simp only [decodeOne] at h
    by_cases h1 : b0 < 128
    · simp only [h1, ↓reduceIte, Option.some.injEq, Prod.mk.injEq] at h
      obtain ⟨rfl, rfl⟩ := h
      exact ⟨⟨Nat.le_refl _, pb_le1 _ h1⟩, by simp⟩
    · simp only [h1, ↓reduceIte] at h
      by_cases h2 : (decide (194 ≤ b0) && decide (b0 ≤ 223)) = true
      · simp only [h2, ↓reduceIte] at h
        simp only [Bool.and_eq_true, decide_eq_true_eq] at h2
        cases t with
        | nil =>
          simp only [Option.some.injEq, Prod.mk.injEq] at h
          obtain ⟨rfl, rfl⟩ := h; exact ⟨wf_bad, by simp⟩
        | cons b1 r1 =>
          simp only [] at h
          by_cases hc : (decide (128 ≤ b1) && decide (b1 ≤ 191)) = true
          · simp only [hc, ↓reduceIte, Option.some.injEq, Prod.mk.injEq] at h
            simp only [Bool.and_eq_true, decide_eq_true_eq] at hc
            obtain ⟨rfl, rfl⟩ := h
            exact ⟨⟨by simp, pb_le2 _ (by show (b0 - 192) * 64 + (b1 - 128) < 2048; omega)⟩, by simp⟩
          · simp only [hc, Bool.false_eq_true, ↓reduceIte, Option.some.injEq, Prod.mk.injEq] at h
            obtain ⟨rfl, rfl⟩ := h; exact ⟨wf_bad, by simp⟩
      · simp only [h2, Bool.false_eq_true, ↓reduceIte] at h
        by_cases h3 : (decide (224 ≤ b0) && decide (b0 ≤ 239)) = true
        · simp only [h3, ↓reduceIte] at h
          simp only [Bool.and_eq_true, decide_eq_true_eq] at h3
          have hbadc : ∀ tt : List Nat, (some ((⟨ERR, 1⟩ : SrcRune), tt) = some (r, rest)) →
              WFr r ∧ rest.length + r.w = (b0 :: tt).length := by
            intro tt hh
            simp only [Option.some.injEq, Prod.mk.injEq] at hh
            obtain ⟨rfl, rfl⟩ := hh; exact ⟨wf_bad, by simp⟩
          cases t with
          | nil => exact hbadc [] h
          | cons b1 t1 =>
            cases t1 with
            | nil => exact hbadc [b1] h
            | cons b2 r2 =>
              have hhi : (if b0 = 237 then 159 else 191) ≤ 191 := by split <;> omega
              generalize (if b0 = 237 then 159 else 191) = hi at h hhi
              generalize (if b0 = 224 then 160 else 128) = lo at h
              dsimp only at h
              generalize hcnd : (decide (lo ≤ b1) && decide (b1 ≤ hi) && (decide (128 ≤ b2) && decide (b2 ≤ 191))) = cnd at h
              cases cnd with
              | false => rw [if_neg Bool.false_ne_true] at h; exact hbadc _ h
              | true =>
                rw [if_pos rfl] at h
                simp only [Option.some.injEq, Prod.mk.injEq] at h
                obtain ⟨rfl, rfl⟩ := h
                simp only [Bool.and_eq_true, decide_eq_true_eq] at hcnd
                refine ⟨⟨by simp, pb_le3 _ ?_⟩, by simp⟩
                show (b0 - 224) * 4096 + (b1 - 128) * 64 + (b2 - 128) < 65536
                omega
        · simp only [h3, Bool.false_eq_true, ↓reduceIte] at h
          by_cases h4 : (decide (240 ≤ b0) && decide (b0 ≤ 244)) = true
          · simp only [h4, ↓reduceIte] at h
            have hbadc : ∀ tt : List Nat, (some ((⟨ERR, 1⟩ : SrcRune), tt) = some (r, rest)) →
                WFr r ∧ rest.length + r.w = (b0 :: tt).length := by
              intro tt hh
              simp only [Option.some.injEq, Prod.mk.injEq] at hh
              obtain ⟨rfl, rfl⟩ := hh; exact ⟨wf_bad, by simp⟩
            cases t with
            | nil => exact hbadc [] h
            | cons b1 t1 =>
              cases t1 with
              | nil => exact hbadc [b1] h
              | cons b2 t2 =>
                cases t2 with
                | nil => exact hbadc [b1, b2] h
                | cons b3 r3 =>
                  generalize (if b0 = 244 then 143 else 191) = hi at h
                  generalize (if b0 = 240 then 144 else 128) = lo at h
                  dsimp only at h
                  generalize (decide (lo ≤ b1) && decide (b1 ≤ hi) && (decide (128 ≤ b2) && decide (b2 ≤ 191)) &&
                    (decide (128 ≤ b3) && decide (b3 ≤ 191))) = cnd at h
                  cases cnd with
                  | false => rw [if_neg Bool.false_ne_true] at h; exact hbadc _ h
                  | true =>
                    rw [if_pos rfl] at h
                    simp only [Option.some.injEq, Prod.mk.injEq] at h
                    obtain ⟨rfl, rfl⟩ := h
                    exact ⟨⟨by simp, pb_le4 _⟩, by simp⟩
          · simp only [h4, Bool.false_eq_true, ↓reduceIte, Option.some.injEq, Prod.mk.injEq] at h
            obtain ⟨rfl, rfl⟩ := h; exact ⟨wf_bad, by simp⟩


theorem decodeAux_spec (f : Nat) (bs : List Nat) :
    (∀ r ∈ decodeAux f bs, WFr r) ∧ sumW (decodeAux f bs) ≤ bs.length := by
  induction f generalizing bs with
  | zero => simp [decodeAux, sumW]
  | succ f ih =>
    simp only [decodeAux]
    cases h : decodeOne bs with
    | none => simp [sumW]
    | some v =>
      obtain ⟨r, rest⟩ := v
      obtain ⟨hw, hl⟩ := decodeOne_spec bs r rest h
      obtain ⟨h1, h2⟩ := ih rest
      simp only []
      refine ⟨fun x hx => ?_, ?_⟩
      · rcases List.mem_cons.mp hx with rfl | hx
        · exact hw
        · exact h1 x hx
      · rw [sumW_cons]; omega

/-- the lexer state owes at most `N` bytes, and every rune still to be read is well-formed -/
def Le (N : Nat) (s : LexSt) : Prop := (∀ r ∈ s.line, WFr r) ∧ restLen true s ≤ N

theorem Le_init (bs : List Nat) : Le bs.length { line := decode bs } := by
  have := decodeAux_spec bs.length bs
  refine ⟨this.1, ?_⟩
  rw [restLen_eq]; simp only [pb]; unfold decode; simp; exact this.2

/-- `next`: what it hands out, it has taken off the account -/
theorem next_peek (s : LexSt) (hp : s.peek ≠ 0) : next s = (s.peek, { s with peek := 0, peekW := 0 }) := by
  unfold next; rw [if_pos hp]

theorem next_nil (s : LexSt) (hp : s.peek = 0) (hl : s.line = []) : next s = (EOF, s) := by
  unfold next; rw [if_neg (by simp [hp]), hl]

theorem next_cons (s : LexSt) (hp : s.peek = 0) (r : SrcRune) (rest : List SrcRune) (hl : s.line = r :: rest) :
    next s = (if r.cp = 0 then ERR else r.cp, { s with line := rest }) := by
  unfold next; rw [if_neg (by simp [hp]), hl]

theorem next_spec (N : Nat) (s : LexSt) (h : Le N s) :
    (∀ r ∈ (next s).2.line, WFr r) ∧ sumW (next s).2.line + pb (next s).1 ≤ N ∧
      restLen true (next s).2 ≤ N := by
  obtain ⟨hw, hl⟩ := h
  rw [restLen_eq] at hl
  by_cases hp : s.peek ≠ 0
  · rw [next_peek s hp]
    refine ⟨hw, by simp only []; omega, ?_⟩
    rw [restLen_eq]; simp only [pb]; simp; omega
  · have hp0 : s.peek = 0 := by simpa using hp
    cases hline : s.line with
    | nil =>
      rw [next_nil s hp0 hline]
      refine ⟨by simp [hline], by simp only [hline, sumW, pb, EOF]; simp, ?_⟩
      rw [restLen_eq]; omega
    | cons r rest =>
      rw [next_cons s hp0 r rest hline]
      have hr : WFr r := hw r (by rw [hline]; simp)
      rw [hline, sumW_cons, hp0] at hl
      have hpb : pb (if r.cp = 0 then ERR else r.cp) ≤ r.w := by
        split
        · have := pb_ERR; have := hr.1; omega
        · exact hr.2
      refine ⟨fun x hx => hw x (by rw [hline]; exact List.mem_cons_of_mem _ hx), by simp only []; omega, ?_⟩
      rw [restLen_eq]; simp only [hp0, pb]; simp; omega

theorem Le_next (N : Nat) (s : LexSt) (h : Le N s) : Le N (next s).2 :=
  ⟨(next_spec N s h).1, (next_spec N s h).2.2⟩

/-- putting back the rune that `next` has just handed out (possibly noting an error) stays within the account -/
theorem Le_unread (N : Nat) (s : LexSt) (h : Le N s) (e : Option String) :
    Le N (setPeek { (next s).2 with err := e } (next s).1) := by
  obtain ⟨h1, h2, _⟩ := next_spec N s h
  refine ⟨h1, ?_⟩
  rw [restLen_eq]
  simp only [setPeek]
  omega

theorem Le_err (N : Nat) (s : LexSt) (h : Le N s) (e : Option String) : Le N { s with err := e } := h
theorem Le_prec (N : Nat) (s : LexSt) (h : Le N s) (p : Option Tok) : Le N { s with prec := p } := h


theorem Le_unread' (N : Nat) (s : LexSt) (h : Le N s) : Le N (setPeek (next s).2 (next s).1) :=
  Le_unread N s h (next s).2.err

theorem Le_constructToken_go (N : Nat) (m : Rune → Bool) (tn : String) (fuel : Nat) (acc : List Rune) (s : LexSt)
    (h : Le N s) : Le N (constructToken.go m tn fuel acc s).2 := by
  induction fuel generalizing acc s with
  | zero => simpa [constructToken.go] using h
  | succ f ih =>
    simp only [constructToken.go]
    split
    · split
      · exact Le_unread N s h _
      · split
        · exact Le_unread N s h _
        · exact ih _ _ (Le_next N s h)
    · exact Le_unread' N s h

theorem Le_constructToken (N : Nat) (c : Rune) (m : Rune → Bool) (tn : String) (s : LexSt) (h : Le N s) :
    Le N (constructToken c m tn s).2 := by
  unfold constructToken
  exact Le_constructToken_go N m tn _ _ s h

theorem Le_nextNonWS_go (N : Nat) (f : Nat) (c : Rune) (s : LexSt) (h : Le N s) : Le N (nextNonWS.go f c s).2 := by
  induction f generalizing c s with
  | zero => simpa [nextNonWS.go] using h
  | succ f ih =>
    simp only [nextNonWS.go]
    split
    · exact ih _ _ (Le_next N s h)
    · exact h

theorem Le_nextNonWS (N : Nat) (s : LexSt) (h : Le N s) : Le N (nextNonWS s).2 := by
  unfold nextNonWS
  exact Le_nextNonWS_go N _ _ _ (Le_next N s h)


def LeP (N : Nat) (x : Tok × LexSt) : Prop := Le N x.2

theorem LeP_ite (N : Nat) (c : Prop) [Decidable c] (a b : Tok × LexSt) (ha : LeP N a) (hb : LeP N b) :
    LeP N (if c then a else b) := by split <;> assumption

theorem LeP_mk (N : Nat) (t : Tok) (s : LexSt) (h : Le N s) : LeP N (t, s) := h

theorem LeP_fnMatch (N : Nat) (o : Option Fn) (s1 : LexSt) (h : Le N s1) :
    LeP N (match o with
      | some f => ((.func f, s1) : Tok × LexSt)
      | none => (.err, { s1 with err := some "Unknown function or node type" })) := by
  cases o <;> exact h

theorem LeP_numMatch (N : Nat) (o : Option SF) (s1 : LexSt) (h : Le N s1) :
    LeP N (match o with
      | some x => ((.num x, s1) : Tok × LexSt)
      | none => (.err, { s1 with err := some "bad number" })) := by
  cases o <;> exact h

macro "le_tac" : tactic => `(tactic|
  repeat (first | assumption | apply Le_err | apply Le_prec | apply Le_nextNonWS | apply Le_constructToken
                | apply Le_unread' | apply Le_unread | apply Le_next))

theorem LeP_lexNameCommon (N : Nat) (strict : Bool) (pm : PfxMap) (c : Rune) (s : LexSt) (h : Le N s) :
    LeP N (lexNameCommon strict pm c s) := by
  unfold lexNameCommon
  have hct := Le_constructToken N c nameCharCommon "NAME" s h
  generalize constructToken c nameCharCommon "NAME" s = ct at hct
  obtain ⟨name, s1⟩ := ct
  simp only [] at hct ⊢
  have h1 : Le N (nextNonWS s1).2 := Le_nextNonWS N _ hct
  generalize nextNonWS s1 = ns1 at h1 ⊢
  have h2 : Le N (nextNonWS ns1.2).2 := Le_nextNonWS N _ h1
  generalize nextNonWS ns1.2 = ns2 at h2 ⊢
  have h3 := Le_constructToken N ns2.1 nameCharCommon "NAME" _ h2
  generalize constructToken ns2.1 nameCharCommon "NAME" ns2.2 = ct2 at h3 ⊢
  repeat' (first | apply LeP_ite | exact LeP_fnMatch _ _ _ hct | exact hct | exact h1 | exact h2 | exact h3)

theorem LeP_lexNameLeafref (N : Nat) (strict : Bool) (pm : PfxMap) (c : Rune) (s : LexSt) (h : Le N s) :
    LeP N (lexNameLeafref strict pm c s) := by
  unfold lexNameLeafref
  have hct := Le_constructToken N c nameCharLeafref "NAME" s h
  generalize constructToken c nameCharLeafref "NAME" s = ct at hct
  obtain ⟨name, s1⟩ := ct
  simp only [] at hct ⊢
  have h1 : Le N (nextNonWS s1).2 := Le_nextNonWS N _ hct
  generalize nextNonWS s1 = ns1 at h1 ⊢
  have h2 : Le N (nextNonWS ns1.2).2 := Le_nextNonWS N _ h1
  generalize nextNonWS ns1.2 = ns2 at h2 ⊢
  have h3 := Le_constructToken N ns2.1 nameCharLeafref "NAME" _ h2
  generalize constructToken ns2.1 nameCharLeafref "NAME" ns2.2 = ct2 at h3 ⊢
  repeat' (first | apply LeP_ite | exact hct | exact h1 | exact h2 | exact h3)


theorem LeP_lexTok (N : Nat) (strict : Bool) (g : Grammar) (pm : PfxMap) (c : Rune) (s : LexSt) (h : Le N s) :
    LeP N (lexTok strict g pm c s) := by
  unfold lexTok
  simp only []
  have hnc := LeP_lexNameCommon N strict pm c s h
  have hnl := LeP_lexNameLeafref N strict pm c s h
  generalize lexNameCommon strict pm c s = nc at hnc ⊢
  generalize lexNameLeafref strict pm c s = nl at hnl ⊢
  have hc1 := Le_constructToken N c isNumChar "NUM" s h
  generalize constructToken c isNumChar "NUM" s = ct1 at hc1 ⊢
  have hn := Le_next N s h
  have hu := Le_unread' N s h
  generalize next s = ns at hn hu ⊢
  have hc2 := Le_constructToken N c isNumChar "NUM" _ hu
  generalize constructToken c isNumChar "NUM" (setPeek ns.2 ns.1) = ct2 at hc2 ⊢
  have hl1 : ∀ m : Rune → Bool, Le N (constructToken ns.1 m "Literal" ns.2).2 :=
    fun m => Le_constructToken N ns.1 m "Literal" _ hn
  have hl2 : ∀ m : Rune → Bool, Le N (next (constructToken ns.1 m "Literal" ns.2).2).2 :=
    fun m => Le_next N _ (hl1 m)
  repeat' (first | apply LeP_ite | exact LeP_numMatch _ _ _ hc1 | exact LeP_numMatch _ _ _ hc2
                 | exact hnc | exact hnl | exact h | exact hn | exact hu | exact hc1 | exact hc2 | exact hl1 _ | exact hl2 _)


theorem Le_skip (N : Nat) (f : Nat) (s : LexSt) (h : Le N s) : Le N (lexCommon.skip f s).2 := by
  induction f generalizing s with
  | zero => simp only [lexCommon.skip]; exact Le_next N s h
  | succ f ih =>
    simp only [lexCommon.skip]
    split
    · exact ih _ (Le_next N s h)
    · exact Le_next N s h

theorem Le_lexCommon (N : Nat) (strict : Bool) (g : Grammar) (pm : PfxMap) (s : LexSt) (h : Le N s) :
    Le N (lexCommon strict g pm s).2 := by
  unfold lexCommon
  simp only []
  have h1 := Le_skip N (s.line.length + 2) s h
  generalize lexCommon.skip (s.line.length + 2) s = sk at h1 ⊢
  have h2 := LeP_lexTok N strict g pm sk.1 sk.2 h1
  generalize lexTok strict g pm sk.1 sk.2 = lt at h2 ⊢
  split
  · exact h2
  · exact h2

theorem lexAllAux_rest (N : Nat) (strict : Bool) (g : Grammar) (pm : PfxMap) (f : Nat) (s : LexSt) (h : Le N s) :
    ∀ lt ∈ (lexAllAux strict g pm f s).1, lt.restFixed ≤ N := by
  induction f generalizing s with
  | zero => intro lt hm; simp [lexAllAux] at hm
  | succ f ih =>
    intro lt hm
    have hc := Le_lexCommon N strict g pm s h
    simp only [lexAllAux] at hm
    split at hm
    · simp only [List.mem_singleton] at hm
      subst hm
      exact hc.2
    · simp only [List.mem_cons] at hm
      rcases hm with rfl | hm
      · exact hc.2
      · exact ih _ hc lt hm

/-- **every token knows a rest that lies inside the expression** -/
theorem lexAll_rest (strict : Bool) (g : Grammar) (pm : PfxMap) (bs : List Nat) :
    ∀ lt ∈ (lexAll strict g pm bs).1, lt.restFixed ≤ bs.length := by
  unfold lexAll
  exact lexAllAux_rest bs.length strict g pm _ _ (Le_init bs)

end YV.XL

namespace YV.XP
open YV YV.X YV.XL

/-- **after the repair the marked position lies inside the expression**: building never panics, and an error
    marks an index between 0 and the length of the expression -/
theorem build_mark (strict : Bool) (g : Grammar) (pm : PfxMap) (bs : List Nat) :
    (∀ why, build strict true g pm bs ≠ .panic why) ∧
    (∀ mark kind, build strict true g pm bs = .error mark kind → 0 ≤ mark ∧ mark ≤ bs.length) := by
  unfold build
  split
  · refine ⟨fun why => by simp, fun mark kind h => ?_⟩
    simp only [Built.error.injEq] at h
    obtain ⟨rfl, _⟩ := h
    simp
  · simp only []
    have hrest := lexAll_rest strict g pm bs
    generalize (lexAll strict g pm bs).1 = toks at hrest ⊢
    split
    · refine ⟨fun why => by simp, fun mark kind h => by simp at h⟩
    · rename_i pos af _
      -- the rest that is subtracted is at most the length
      have key : ∀ (rest : Nat) (k : String), rest ≤ bs.length →
          (∀ why, (if ((bs.length : Nat) : Int) - ((rest : Nat) : Int) < 0 then Built.panic "slice bounds out of range in CreateProgram"
            else Built.error (((bs.length : Nat) : Int) - ((rest : Nat) : Int)) k) ≠ .panic why) ∧
          (∀ mark kind, (if ((bs.length : Nat) : Int) - ((rest : Nat) : Int) < 0 then Built.panic "slice bounds out of range in CreateProgram"
            else Built.error (((bs.length : Nat) : Int) - ((rest : Nat) : Int)) k) = .error mark kind →
              0 ≤ mark ∧ mark ≤ bs.length) := by
        intro rest k hr
        have hm : ¬ (((bs.length : Nat) : Int) - ((rest : Nat) : Int) < 0) := by omega
        simp only [hm, ↓reduceIte]
        refine ⟨fun why => by simp, fun mark kind h => ?_⟩
        simp only [Built.error.injEq] at h
        obtain ⟨rfl, _⟩ := h
        constructor <;> omega
      split
      · exact key 0 _ (by omega)
      · split
        · rename_i t ht
          exact key t.restFixed _ (hrest t (List.mem_of_getElem? ht))
        · exact key 0 _ (by omega)
    · split
      · refine ⟨fun why => by simp, fun mark kind h => ?_⟩
        simp only [Built.error.injEq] at h
        obtain ⟨rfl, _⟩ := h
        constructor
        · exact Int.natCast_nonneg _
        · exact Int.le_refl _
      · refine ⟨fun why => by simp, fun mark kind h => by simp at h⟩

end YV.XP
