/-
  Proofs.YPath — the path walker over child maps (Model.YSchema) says, for every schema and every token
  path, what the specification over the data view (Spec.YPathS) says.
-/
import YV.Spec.YPathS
namespace YV.SS
open YV YV.Y YV.SC

variable {τ : Type}

theorem assoc_append {β : Type} (k : Tok) (a b : List (Tok × β)) :
    assoc k (a ++ b) = (assoc k a).orElse fun _ => assoc k b := by
  induction a with
  | nil => simp [assoc]
  | cons x a ih =>
    obtain ⟨k', v⟩ := x
    simp only [List.cons_append, assoc]
    by_cases h : k' = k
    · simp [h]
    · simp [h, ih]

theorem lookup_append (k : Tok) (a b : List (SN τ)) :
    lookup k (a ++ b) = (lookup k a).orElse fun _ => lookup k b := by
  induction a with
  | nil => simp [lookup]
  | cons x a ih =>
    simp only [List.cons_append, lookup]
    by_cases h : x.name = k
    · simp [h]
    · simp [h, ih]

mutual
theorem assoc_viewKids (k : Tok) : ∀ l : List (SN τ), assoc k (viewKids l) = (lookup k (dataKids l)).map view
  | [] => by simp [viewKids, dataKids, assoc, lookup]
  | .choice _ _ _ cases :: r => by
    simp only [viewKids, dataKids, assoc_append, lookup_append, assoc_viewCases k cases, assoc_viewKids k r]
    cases lookup k (caseKids cases) <;> simp
  | .container n pr kids :: r => by
    simp only [viewKids, dataKids, assoc, lookup, SN.name, assoc_viewKids k r]
    by_cases h : n = k <;> simp [h]
  | .list n ks mn mx u kids :: r => by
    simp only [viewKids, dataKids, assoc, lookup, SN.name, assoc_viewKids k r]
    by_cases h : n = k <;> simp [h]
  | .leaf n ty d m :: r => by
    simp only [viewKids, dataKids, assoc, lookup, SN.name, assoc_viewKids k r]
    by_cases h : n = k <;> simp [h]
  | .leafList n ty mn mx :: r => by
    simp only [viewKids, dataKids, assoc, lookup, SN.name, assoc_viewKids k r]
    by_cases h : n = k <;> simp [h]
  | .case n kids :: r => by
    simp only [viewKids, dataKids, assoc, lookup, SN.name, assoc_viewKids k r]
    by_cases h : n = k <;> simp [h]
theorem assoc_viewCases (k : Tok) : ∀ l : List (SN τ), assoc k (viewCases l) = (lookup k (caseKids l)).map view
  | [] => by simp [viewCases, caseKids, assoc, lookup]
  | .case _ kids :: r => by
    simp only [viewCases, caseKids, assoc_append, lookup_append, assoc_viewKids k kids, assoc_viewCases k r]
    cases lookup k (dataKids kids) <;> simp
  | .container n pr kids :: r => by
    simp only [viewCases, caseKids, assoc, lookup, SN.name, assoc_viewCases k r]
    by_cases h : n = k <;> simp [h]
  | .list n ks mn mx u kids :: r => by
    simp only [viewCases, caseKids, assoc, lookup, SN.name, assoc_viewCases k r]
    by_cases h : n = k <;> simp [h]
  | .leaf n ty d m :: r => by
    simp only [viewCases, caseKids, assoc, lookup, SN.name, assoc_viewCases k r]
    by_cases h : n = k <;> simp [h]
  | .leafList n ty mn mx :: r => by
    simp only [viewCases, caseKids, assoc, lookup, SN.name, assoc_viewCases k r]
    by_cases h : n = k <;> simp [h]
  | .choice n m d cs :: r => by
    simp only [viewCases, caseKids, assoc, lookup, SN.name, assoc_viewCases k r]
    by_cases h : n = k <;> simp [h]
end

theorem proj_typeCheck (sem : TySem τ) (ty : τ) (path : List Tok) (h : Tok) :
    proj (typeCheck sem ty (path ++ [h]) h) = if valueOK sem ty h then .ok else .bad path.length .value := by
  unfold typeCheck valueOK
  by_cases he : sem.isEmpty ty = true
  · by_cases hv : h.isEmpty = true <;> simp [he, hv, proj]
  · by_cases ha : sem.accepts ty h = true <;> simp [he, ha, proj]

theorem typeCheck_ok (sem : TySem τ) (ty : τ) (path : List Tok) (h : Tok) :
    (typeCheck sem ty path h = .ok ()) ↔ valueOK sem ty h = true := by
  unfold typeCheck valueOK
  by_cases he : sem.isEmpty ty = true
  · by_cases hv : h.isEmpty = true <;> simp [he, hv]
  · by_cases ha : sem.accepts ty h = true <;> simp [he, ha]

theorem proj_error_ne_ok (e : VErr) : proj (.error e) ≠ .ok := by
  cases e <;> simp [proj]

theorem proj_leafTail (sem : TySem τ) (ai : Bool) (ty : τ) (isLeaf : Bool) (path p : List Tok) :
    proj (leafTail sem ai ty isLeaf path p) = leafS sem ai (!(isLeaf && sem.isEmpty ty)) ty path.length p := by
  match p with
  | [] =>
    simp only [leafTail, leafS]
    by_cases h : ((isLeaf && sem.isEmpty ty) || ai) = true
    · simp only [h, if_true, proj]; simp at h; cases isLeaf <;> cases ai <;> simp_all
    · simp only [h]; simp at h; cases isLeaf <;> cases ai <;> simp_all [proj]
  | [h] =>
    simp only [leafTail, leafS]
    have := proj_typeCheck sem ty path h
    cases hc : typeCheck sem ty (path ++ [h]) h with
    | error e => rw [hc] at this; simpa using this
    | ok u => cases u; rw [hc] at this; simpa [proj] using this
  | h :: x :: r =>
    simp only [leafTail, leafS]
    have := proj_typeCheck sem ty path h
    cases hc : typeCheck sem ty (path ++ [h]) h with
    | error e =>
      rw [hc] at this
      by_cases hv : valueOK sem ty h = true
      · have h2 := (typeCheck_ok sem ty (path ++ [h]) h).2 hv
        rw [hc] at h2; cases h2
      · simp only [hv] at this ⊢; simpa using this
    | ok u =>
      cases u
      have hv := (typeCheck_ok sem ty (path ++ [h]) h).1 hc
      simp [hv, proj]

/-- the walker on a node of the tree = the specification on its data view -/
theorem proj_vnode (sem : TySem τ) (ai : Bool) :
    ∀ (n : Nat) (p : List Tok), p.length = n → ∀ (nd : SN τ) (path : List Tok),
      proj (vnode sem ai nd path p) = walkS sem ai (view nd) path.length p := by
  intro n
  induction n using Nat.strongRecOn with
  | _ n ih =>
    intro p hp nd path
    cases nd with
    | leaf nm ty d m =>
      rw [vnode, view, walkS, proj_leafTail]; simp
    | leafList nm ty mn mx =>
      rw [vnode, view, walkS, proj_leafTail]; simp
    | choice nm m d cs => rw [vnode, view, walkS]; simp [proj]
    | case nm ks => rw [vnode, view, walkS]; simp [proj]
    | container nm pr kids =>
      rw [vnode.eq_def, view, walkS.eq_def]; simp only []
      cases p with
      | nil => by_cases h : (pr || ai) = true <;> simp [h, proj]
      | cons h t =>
        simp only [SN.children, SN.kids, assoc_viewKids]
        cases hl : lookup h (dataKids kids) with
        | none => simp [proj]
        | some c =>
          simp only [Option.map_some]
          have := ih t.length (by simp at hp; omega) t rfl c (path ++ [h])
          simpa using this
    | list nm keys mn mx u kids =>
      rw [vnode.eq_def, view, walkS.eq_def]; simp only []
      cases p with
      | nil => by_cases h : ai = true <;> simp [h, proj]
      | cons kv rest =>
        simp only [SN.children, SN.kids, assoc_viewKids]
        cases hk : keys.head? with
        | none => simp [proj]
        | some k =>
          simp only [Option.bind_some]
          cases hl : lookup k (dataKids kids) with
          | none => simp [proj]
          | some kn =>
            cases kn <;> try (simp [view, leafTy, proj]; done)
            case leaf knm kty kd km =>
              simp only [Option.map_some, view, leafTy, Option.bind_some]
              have hT := proj_leafTail sem ai kty true path [kv]
              simp only [leafS] at hT
              cases hc : leafTail sem ai kty true path [kv] with
              | error e =>
                rw [hc] at hT
                by_cases hv : valueOK sem kty kv = true
                · simp only [hv, if_true] at hT
                  exact absurd hT (proj_error_ne_ok e)
                · simp only [hv] at hT ⊢; simpa using hT
              | ok uu =>
                cases uu
                rw [hc] at hT
                have hv : valueOK sem kty kv = true := by
                  by_cases hv : valueOK sem kty kv = true
                  · exact hv
                  · simp [hv, proj] at hT
                simp only [hv]
                cases rest with
                | nil => simp [proj]
                | cons h t =>
                  cases hl2 : lookup h (dataKids kids) with
                  | none => simp [proj, hl2]
                  | some c =>
                    have := ih t.length (by simp at hp; omega) t rfl c (path ++ [kv, h])
                    simpa [hl2] using this

end YV.SS
