/-
  Proofs.YData — the five mandatory-node functions of schema/validate.go together report exactly what the
  one-recursion specification requires; cardinality; explicit data is kept by the decoration.
-/
import YV.Spec.YDataS
namespace YV.DS
open YV YV.Y YV.SC YV.D

variable {τ : Type}

/-- below an absent container nothing is configured: `hasMandatoryChildren` = the specification with an
    empty configuration (same errors, same order) -/
theorem hasMandKids_eq (path : List Tok) : ∀ kids : List (SN τ), hasMandKids path kids = required [] path kids
  | [] => by simp [hasMandKids, required]
  | .leaf n t d m :: r => by simp [hasMandKids, required, hasMandKids_eq path r]
  | .list n k mn mx u ks :: r => by simp [hasMandKids, required, hasMandKids_eq path r]
  | .leafList n t mn mx :: r => by simp [hasMandKids, required, hasMandKids_eq path r]
  | .container n pr kids :: r => by
    simp only [hasMandKids, required, hasMandKids_eq path r, hasMandKids_eq (path ++ [n]) kids]
    cases pr <;> simp
  | .choice n m d cases :: r => by
    simp [hasMandKids, required, hasMandKids_eq path r, activeCases]
  | .case n ks :: r => by simp [hasMandKids, required, hasMandKids_eq path r]

mutual
/-- `checkMandatory` + `choiceHasMandatory` (+ the functions they call) report an error iff the
    specification requires it -/
theorem mem_checkMand (cfg path : List Tok) (e : DErr) :
    ∀ kids : List (SN τ), (e ∈ missingOf cfg path kids ∨ e ∈ choiceHasMand cfg path kids) ↔ e ∈ required cfg path kids
  | [] => by simp [missingOf, choiceHasMand, required]
  | .leaf n t d m :: r => by
    have ih := mem_checkMand cfg path e r
    simp only [missingOf, choiceHasMand, required, List.mem_append]; rw [← ih]; constructor <;> intro h <;> grind
  | .list n k mn mx u ks :: r => by
    have ih := mem_checkMand cfg path e r
    simp only [missingOf, choiceHasMand, required, List.mem_append]; rw [← ih]; constructor <;> intro h <;> grind
  | .leafList n t mn mx :: r => by
    have ih := mem_checkMand cfg path e r
    simp only [missingOf, choiceHasMand, required, List.mem_append]; rw [← ih]; constructor <;> intro h <;> grind
  | .container n pr kids :: r => by
    have ih := mem_checkMand cfg path e r
    simp only [missingOf, choiceHasMand, required, List.mem_append, hasMandKids_eq]; rw [← ih]
    constructor <;> intro h <;> grind
  | .case n ks :: r => by
    have ih := mem_checkMand cfg path e r
    simp only [missingOf, choiceHasMand, required, List.mem_append]; rw [← ih]
  | .choice n m d cases :: r => by
    have ih := mem_checkMand cfg path e r
    have ihc := mem_caseHasMand cfg path e cases
    simp only [missingOf, choiceHasMand, required, List.mem_append, hasOneOf, activeCases]; rw [← ih]
    by_cases ha : ((caseKids cases).any fun n => cfg.contains n.name) = true
    · simp only [ha, if_true]; rw [← ihc]; constructor <;> intro h <;> grind
    · simp only [ha]; constructor <;> intro h <;> grind
theorem mem_caseHasMand (cfg path : List Tok) (e : DErr) :
    ∀ cases : List (SN τ), e ∈ caseHasMand cfg path cases ↔ e ∈ requiredCases cfg path cases
  | [] => by simp [caseHasMand, requiredCases]
  | .case n kids :: r => by
    have ih := mem_caseHasMand cfg path e r
    have ihk := mem_checkMand cfg path e kids
    simp only [caseHasMand, requiredCases, List.mem_append, hasOneOf, active]; rw [← ih]
    by_cases ha : ((dataKids kids).any fun n => cfg.contains n.name) = true
    · simp only [ha, if_true, List.mem_append]; rw [← ihk]
    · simp only [ha]; simp
  | .choice n m d cs :: r => by simp only [caseHasMand, requiredCases]; exact mem_caseHasMand cfg path e r
  | .container n pr ks :: r => by simp only [caseHasMand, requiredCases]; exact mem_caseHasMand cfg path e r
  | .list n k mn mx u ks :: r => by simp only [caseHasMand, requiredCases]; exact mem_caseHasMand cfg path e r
  | .leaf n t d m :: r => by simp only [caseHasMand, requiredCases]; exact mem_caseHasMand cfg path e r
  | .leafList n t mn mx :: r => by simp only [caseHasMand, requiredCases]; exact mem_caseHasMand cfg path e r
end

theorem mem_checkMand_iff (kids : List (SN τ)) (cfg path : List Tok) (e : DErr) :
    e ∈ checkMand kids cfg path ↔ e ∈ required cfg path kids := by
  simp only [checkMand, List.mem_append]; exact mem_checkMand cfg path e kids

theorem cardBad_eq (mn : Nat) (mx : Option Nat) (len : Nat) (h : mx ≠ some 0) :
    cardBad mn mx len = cardViolated mn mx len := by
  unfold cardBad cardViolated
  cases mx with
  | none => by_cases h1 : mn > 0 <;> by_cases h2 : len < mn <;> simp [h1, h2] <;> omega
  | some m =>
    have hm : m > 0 := by cases m with | zero => simp at h | succ k => omega
    by_cases h1 : mn > 0 <;> by_cases h2 : len < mn <;> by_cases h3 : len > m <;> simp [h1, h2, h3, hm] <;> omega

end YV.DS

namespace YV.DS
open YV YV.Y YV.SC YV.D
variable {τ : Type}

mutual
/-- the part of a decorated tree that lies where the nodes of the original tree lie: the first
    `|children|` children at every level -/
def restrictTo : DN → DN → DN
  | .mk n ks' v, .mk _ ks _ => .mk n (restrictList ks' ks) v
def restrictList : List DN → List DN → List DN
  | k' :: r', k :: r => restrictTo k' k :: restrictList r' r
  | [], _ :: _ => []
  | _, [] => []
end

theorem restrictList_append (a b : List DN) : ∀ (ds : List DN), a.length = ds.length →
    restrictList (a ++ b) ds = restrictList a ds := by
  induction a with
  | nil => intro ds h; cases ds with
    | nil => cases b <;> simp [restrictList]
    | cons d r => simp at h
  | cons x a ih =>
    intro ds h
    cases ds with
    | nil => simp at h
    | cons d r => simp only [List.cons_append, restrictList]; rw [ih r (by simpa using h)]

theorem decorateEach_length (kids : List (SN τ)) : ∀ ds : List DN, (decorateEach kids ds).length = ds.length
  | [] => by simp [decorateEach]
  | d :: r => by simp [decorateEach, decorateEach_length kids r]

theorem decorateEntries_length (kids : List (SN τ)) : ∀ ds : List DN, (decorateEntries kids ds).length = ds.length
  | [] => by simp [decorateEntries]
  | .mk n k v :: r => by simp [decorateEntries, decorateEntries_length kids r]

mutual
theorem restrict_decorateNode : ∀ (sn : SN τ) (d : DN), restrictTo (decorateNode sn d) d = d
  | .container _ _ kids, .mk n dk v => by
    simp only [decorateNode, restrictTo, decorateKids]
    rw [restrictList_append _ _ _ (decorateEach_length kids dk), restrict_decorateEach kids dk]
  | .list _ _ _ _ _ kids, .mk n es v => by
    simp only [decorateNode, restrictTo]; rw [restrict_decorateEntries kids es]
  | .leaf .., .mk n k v => by simp only [decorateNode, restrictTo]; rw [restrict_self_list k]
  | .leafList .., .mk n k v => by simp only [decorateNode, restrictTo]; rw [restrict_self_list k]
  | .choice .., .mk n k v => by simp only [decorateNode, restrictTo]; rw [restrict_self_list k]
  | .case .., .mk n k v => by simp only [decorateNode, restrictTo]; rw [restrict_self_list k]
theorem restrict_decorateEach (kids : List (SN τ)) : ∀ ds : List DN, restrictList (decorateEach kids ds) ds = ds
  | [] => by simp [decorateEach, restrictList]
  | d :: r => by
    simp only [decorateEach, restrictList, restrict_decorateEach kids r]
    cases h : lookup d.name (dataKids kids) with
    | none => simp only []; rw [restrict_self d]
    | some sn => simp only []; rw [restrict_decorateNode sn d]
theorem restrict_decorateEntries (kids : List (SN τ)) : ∀ es : List DN, restrictList (decorateEntries kids es) es = es
  | [] => by simp [decorateEntries, restrictList]
  | .mk n ek v :: r => by
    simp only [decorateEntries, restrictList, restrictTo, decorateKids, restrict_decorateEntries kids r]
    rw [restrictList_append _ _ _ (decorateEach_length kids ek), restrict_decorateEach kids ek]
theorem restrict_self : ∀ d : DN, restrictTo d d = d
  | .mk n k v => by simp only [restrictTo]; rw [restrict_self_list k]
theorem restrict_self_list : ∀ ds : List DN, restrictList ds ds = ds
  | [] => by simp [restrictList]
  | d :: r => by simp only [restrictList]; rw [restrict_self d, restrict_self_list r]
end

/-- explicit data is never altered: it sits, unchanged in names, values and order, at the front of every
    child list of the decorated tree -/
theorem restrict_decorate (top : List (SN τ)) (root : DN) : restrictTo (decorate top root) root = root := by
  cases root with
  | mk n dk v =>
    simp only [decorate, restrictTo, decorateKids]
    rw [restrictList_append _ _ _ (decorateEach_length top dk), restrict_decorateEach top dk]

end YV.DS

namespace YV.DS
open YV YV.Y YV.SC YV.D
variable {τ : Type}

theorem mem_dataKids_append_case {x : SN τ} {a b : List (SN τ)} : x ∈ a ++ b ↔ x ∈ a ∨ x ∈ b := List.mem_append

mutual
/-- every default the specification instantiates is the default of a data node of that parent -/
theorem defaultsS_names (cfg : List Tok) (x : DN) :
    ∀ kids : List (SN τ), x ∈ defaultsS cfg kids → ∃ n ∈ dataKids kids, n.name = x.name
  | [], h => by rw [defaultsS.eq_def] at h; simp at h
  | .leaf n t d m :: r, h => by
    rw [defaultsS.eq_def] at h; simp only [List.mem_append] at h
    rcases h with h | h
    · cases d with
      | none => simp at h
      | some dv =>
        simp only [] at h
        split at h
        · simp at h; subst h; exact ⟨.leaf n t (some dv) m, by simp [dataKids], by simp [SN.name, DN.name]⟩
        · simp at h
    · obtain ⟨k, hk, hn⟩ := defaultsS_names cfg x r h; exact ⟨k, by simp [dataKids, hk], hn⟩
  | .container n pr kids :: r, h => by
    rw [defaultsS.eq_def] at h; simp only [List.mem_append] at h
    rcases h with h | h
    · split at h
      · split at h
        · simp at h
        · simp at h; subst h; exact ⟨.container n pr kids, by simp [dataKids], by simp [SN.name, DN.name]⟩
      · simp at h
    · obtain ⟨k, hk, hn⟩ := defaultsS_names cfg x r h; exact ⟨k, by simp [dataKids, hk], hn⟩
  | .choice n m d cases :: r, h => by
    rw [defaultsS.eq_def] at h; simp only [List.mem_append] at h
    rcases h with h | h
    · split at h
      · obtain ⟨k, hk, hn⟩ := defaultsActive_names cfg x cases h
        exact ⟨k, by simp [dataKids, hk], hn⟩
      · cases d with
        | none => simp at h
        | some dc =>
          obtain ⟨k, hk, hn⟩ := defaultsOfCase_names dc x cases h
          exact ⟨k, by simp [dataKids, hk], hn⟩
    · obtain ⟨k, hk, hn⟩ := defaultsS_names cfg x r h; exact ⟨k, by simp [dataKids, hk], hn⟩
  | .list n k mn mx u ks :: r, h => by
    rw [defaultsS.eq_def] at h; simp only [] at h
    obtain ⟨k, hk, hn⟩ := defaultsS_names cfg x r h; exact ⟨k, by simp [dataKids, hk], hn⟩
  | .leafList n t mn mx :: r, h => by
    rw [defaultsS.eq_def] at h; simp only [] at h
    obtain ⟨k, hk, hn⟩ := defaultsS_names cfg x r h; exact ⟨k, by simp [dataKids, hk], hn⟩
  | .case n ks :: r, h => by
    rw [defaultsS.eq_def] at h; simp only [] at h
    obtain ⟨k, hk, hn⟩ := defaultsS_names cfg x r h; exact ⟨k, by simp [dataKids, hk], hn⟩
theorem defaultsActive_names (cfg : List Tok) (x : DN) :
    ∀ cases : List (SN τ), x ∈ defaultsActive cfg cases → ∃ n ∈ caseKids cases, n.name = x.name
  | [], h => by simp [defaultsActive] at h
  | .case n kids :: r, h => by
    simp only [defaultsActive, List.mem_append] at h
    rcases h with h | h
    · split at h
      · obtain ⟨k, hk, hn⟩ := defaultsS_names cfg x kids h; exact ⟨k, by simp [caseKids, hk], hn⟩
      · simp at h
    · obtain ⟨k, hk, hn⟩ := defaultsActive_names cfg x r h; exact ⟨k, by simp [caseKids, hk], hn⟩
  | .choice n m d cs :: r, h => by
    simp only [defaultsActive] at h
    obtain ⟨k, hk, hn⟩ := defaultsActive_names cfg x r h; exact ⟨k, by simp [caseKids, hk], hn⟩
  | .container n pr ks :: r, h => by
    simp only [defaultsActive] at h
    obtain ⟨k, hk, hn⟩ := defaultsActive_names cfg x r h; exact ⟨k, by simp [caseKids, hk], hn⟩
  | .list n k mn mx u ks :: r, h => by
    simp only [defaultsActive] at h
    obtain ⟨k, hk, hn⟩ := defaultsActive_names cfg x r h; exact ⟨k, by simp [caseKids, hk], hn⟩
  | .leaf n t d m :: r, h => by
    simp only [defaultsActive] at h
    obtain ⟨k, hk, hn⟩ := defaultsActive_names cfg x r h; exact ⟨k, by simp [caseKids, hk], hn⟩
  | .leafList n t mn mx :: r, h => by
    simp only [defaultsActive] at h
    obtain ⟨k, hk, hn⟩ := defaultsActive_names cfg x r h; exact ⟨k, by simp [caseKids, hk], hn⟩
theorem defaultsOfCase_names (dc : Tok) (x : DN) :
    ∀ cases : List (SN τ), x ∈ defaultsOfCase dc cases → ∃ n ∈ caseKids cases, n.name = x.name
  | [], h => by simp [defaultsOfCase] at h
  | .case n kids :: r, h => by
    simp only [defaultsOfCase] at h
    split at h
    · obtain ⟨k, hk, hn⟩ := defaultsS_names [] x kids h; exact ⟨k, by simp [caseKids, hk], hn⟩
    · obtain ⟨k, hk, hn⟩ := defaultsOfCase_names dc x r h; exact ⟨k, by simp [caseKids, hk], hn⟩
  | .choice n m d cs :: r, h => by
    simp only [defaultsOfCase] at h
    obtain ⟨k, hk, hn⟩ := defaultsOfCase_names dc x r h; exact ⟨k, by simp [caseKids, hk], hn⟩
  | .container n pr ks :: r, h => by
    simp only [defaultsOfCase] at h
    obtain ⟨k, hk, hn⟩ := defaultsOfCase_names dc x r h; exact ⟨k, by simp [caseKids, hk], hn⟩
  | .list n k mn mx u ks :: r, h => by
    simp only [defaultsOfCase] at h
    obtain ⟨k, hk, hn⟩ := defaultsOfCase_names dc x r h; exact ⟨k, by simp [caseKids, hk], hn⟩
  | .leaf n t d m :: r, h => by
    simp only [defaultsOfCase] at h
    obtain ⟨k, hk, hn⟩ := defaultsOfCase_names dc x r h; exact ⟨k, by simp [caseKids, hk], hn⟩
  | .leafList n t mn mx :: r, h => by
    simp only [defaultsOfCase] at h
    obtain ⟨k, hk, hn⟩ := defaultsOfCase_names dc x r h; exact ⟨k, by simp [caseKids, hk], hn⟩
end

mutual
/-- a default is only ever added for a node that is absent -/
theorem defaultsS_absent (cfg : List Tok) (x : DN) :
    ∀ kids : List (SN τ), x ∈ defaultsS cfg kids → cfg.contains x.name = false
  | [], h => by rw [defaultsS.eq_def] at h; simp at h
  | .leaf n t d m :: r, h => by
    rw [defaultsS.eq_def] at h; simp only [List.mem_append] at h
    rcases h with h | h
    · cases d with
      | none => simp at h
      | some dv =>
        simp only [] at h
        split at h
        · rename_i hc; simp at h; subst h; simp at hc; simpa [DN.name] using hc.2
        · simp at h
    · exact defaultsS_absent cfg x r h
  | .container n pr kids :: r, h => by
    rw [defaultsS.eq_def] at h; simp only [List.mem_append] at h
    rcases h with h | h
    · split at h
      · rename_i hc
        split at h
        · simp at h
        · simp at h; subst h; simp at hc; simpa [DN.name] using hc.2
      · simp at h
    · exact defaultsS_absent cfg x r h
  | .choice n m d cases :: r, h => by
    rw [defaultsS.eq_def] at h; simp only [List.mem_append] at h
    rcases h with h | h
    · split at h
      · exact defaultsActive_absent cfg x cases h
      · rename_i hna
        cases d with
        | none => simp at h
        | some dc =>
          obtain ⟨k, hk, hn⟩ := defaultsOfCase_names dc x cases h
          simp only [activeCases, List.any_eq_true, not_exists, not_and, Bool.not_eq_true] at hna
          rw [← hn]; exact hna k hk
    · exact defaultsS_absent cfg x r h
  | .list n k mn mx u ks :: r, h => by rw [defaultsS.eq_def] at h; simp only [] at h; exact defaultsS_absent cfg x r h
  | .leafList n t mn mx :: r, h => by rw [defaultsS.eq_def] at h; simp only [] at h; exact defaultsS_absent cfg x r h
  | .case n ks :: r, h => by rw [defaultsS.eq_def] at h; simp only [] at h; exact defaultsS_absent cfg x r h
theorem defaultsActive_absent (cfg : List Tok) (x : DN) :
    ∀ cases : List (SN τ), x ∈ defaultsActive cfg cases → cfg.contains x.name = false
  | [], h => by simp [defaultsActive] at h
  | .case n kids :: r, h => by
    simp only [defaultsActive, List.mem_append] at h
    rcases h with h | h
    · split at h
      · exact defaultsS_absent cfg x kids h
      · simp at h
    · exact defaultsActive_absent cfg x r h
  | .choice n m d cs :: r, h => by simp only [defaultsActive] at h; exact defaultsActive_absent cfg x r h
  | .container n pr ks :: r, h => by simp only [defaultsActive] at h; exact defaultsActive_absent cfg x r h
  | .list n k mn mx u ks :: r, h => by simp only [defaultsActive] at h; exact defaultsActive_absent cfg x r h
  | .leaf n t d m :: r, h => by simp only [defaultsActive] at h; exact defaultsActive_absent cfg x r h
  | .leafList n t mn mx :: r, h => by simp only [defaultsActive] at h; exact defaultsActive_absent cfg x r h
end

end YV.DS
