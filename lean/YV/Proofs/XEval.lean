/-
  Proofs.XEval — compiler correctness of the postfix stack machine: running the code the yacc
  actions emit for an expression tree is the same as evaluating the tree bottom-up with the
  machine's own primitive operations (`evalM`).  Induction on the expression, generalised over
  the rest of the program and the stack; no bound on nesting depth.
-/
import YV.Model.XEval
namespace YV.X

/-- tree evaluation with the machine's primitives (conversion, comparison and function bodies
    are literally those of the machine) -/
def binM (op : BinOp) (a b : Datum) : M Datum :=
  match op with
  | .add => do let y ← b.toNum; let x ← a.toNum; pure (.num (SF.add x y))
  | .sub => do let y ← b.toNum; let x ← a.toNum; pure (.num (SF.sub x y))
  | .mul => do let y ← b.toNum; let x ← a.toNum; pure (.num (SF.mul x y))
  | .div => do let y ← b.toNum; let x ← a.toNum; pure (.num (SF.div x y))
  | .mod => do let y ← b.toNum; let x ← a.toNum; pure (.num (SF.fmod x y))
  | .and => do let y ← b.toBool; let x ← a.toBool; pure (.bool (x && y))
  | .or => do let y ← b.toBool; let x ← a.toBool; pure (.bool (x || y))
  | .eq => do pure (.bool (← compare .eq a b))
  | .ne => do pure (.bool (← compare .ne a b))
  | .lt => do pure (.bool (← compare .lt a b))
  | .gt => do pure (.bool (← compare .gt a b))
  | .le => do pure (.bool (← compare .le a b))
  | .ge => do pure (.bool (← compare .ge a b))

/-- convert the evaluated arguments in the machine's order (last argument first) -/
def convArgsRev : List ArgKind → List Datum → M (List Datum)
  | [], _ => pure []
  | k :: ks, d :: ds => do let d' ← convertArg k d; let r ← convArgsRev ks ds; pure (d' :: r)
  | _ :: _, [] => .error "Stack underflow"

mutual
def evalM (env : Env) : Expr → M Datum
  | .num x => pure (.num x)
  | .lit s => pure (.lit s)
  | .env id => pure (env id)
  | .neg e => do let v ← evalM env e; let x ← v.toNum; pure (.num (SF.neg x))
  | .bin op a b => do let x ← evalM env a; let y ← evalM env b; binM op x y
  | .call f args => do
    let vs ← evalListM env args
    -- the machine pops `f.sig.1.length` arguments, last first
    let cs ← convArgsRev f.sig.1.reverse vs.reverse
    bltin f cs.reverse
def evalListM (env : Env) : List Expr → M (List Datum)
  | [] => pure []
  | e :: es => do let v ← evalM env e; let vs ← evalListM env es; pure (v :: vs)
end

/- arity-correct calls (what `CodeBltin` enforces at compile time) -/
mutual
def WellFormed : Expr → Prop
  | .num _ | .lit _ | .env _ => True
  | .neg e => WellFormed e
  | .bin _ a b => WellFormed a ∧ WellFormed b
  | .call f args => args.length = f.sig.1.length ∧ WellFormedList args
def WellFormedList : List Expr → Prop
  | [] => True
  | e :: es => WellFormed e ∧ WellFormedList es
end

theorem exec_append (env : Env) (p q : List Instr) (st : St) :
    exec env (p ++ q) st = (exec env p st >>= fun st' => exec env q st') := by
  induction p generalizing st with
  | nil => simp [exec]
  | cons i p ih =>
    simp only [List.cons_append, exec]
    cases h : step env i st with
    | error e => simp [bind, Except.bind]
    | ok st' => simp [bind, Except.bind, ih]

end YV.X

namespace YV.X

@[simp] theorem bind_ok {α β} (a : α) (f : α → M β) : ((Except.ok a : M α) >>= f) = f a := rfl
@[simp] theorem bind_err {α β} (e : String) (f : α → M β) : ((Except.error e : M α) >>= f) = Except.error e := rfl
@[simp] theorem pure_eq_ok {α} (a : α) : (pure a : M α) = Except.ok a := rfl

theorem popArgsRev_append (ks : List ArgKind) (ds σ : List Datum) (h : ds.length = ks.length) :
    popArgsRev ks (ds ++ σ) = (convArgsRev ks ds >>= fun cs => pure (cs, σ)) := by
  induction ks generalizing ds with
  | nil =>
    cases ds with
    | nil => simp [popArgsRev, convArgsRev]
    | cons d ds => simp at h
  | cons k ks ih =>
    cases ds with
    | nil => simp at h
    | cons d ds =>
      simp only [List.length_cons, Nat.add_right_cancel_iff] at h
      simp only [List.cons_append, popArgsRev, pop, convArgsRev, bind_ok]
      cases hc : convertArg k d with
      | error e => simp
      | ok d' =>
        simp only [bind_ok, ih ds h]
        cases hr : convArgsRev ks ds with
        | error e => simp
        | ok r => simp

theorem step_bin (env : Env) (op : BinOp) (a b : Datum) (st : St) :
    step env (.bin op) { st with stack := b :: a :: st.stack } =
      (binM op a b >>= fun v => pure { st with stack := v :: st.stack }) := by
  cases op <;>
    simp only [step, stepBin, popNum, popBool, pop, binM, bind_ok, pure_eq_ok] <;>
    first
    | (cases hb : b.toNum <;> simp only [bind_ok, bind_err] <;>
        cases ha : a.toNum <;> simp [bind_ok, bind_err])
    | (cases hb : b.toBool <;> simp only [bind_ok, bind_err] <;>
        cases ha : a.toBool <;> simp [bind_ok, bind_err])
    | (cases hc : compare _ a b <;> simp [bind_ok, bind_err])

theorem evalListM_length (env : Env) (es : List Expr) (vs : List Datum)
    (h : evalListM env es = .ok vs) : vs.length = es.length := by
  induction es generalizing vs with
  | nil => simp [evalListM] at h; simp [← h]
  | cons e es ih =>
    simp only [evalListM] at h
    cases he : evalM env e with
    | error x => simp [he] at h
    | ok v =>
      cases hl : evalListM env es with
      | error x => simp [he, hl] at h
      | ok ws =>
        simp [he, hl] at h
        simp [← h, ih ws hl]

mutual
theorem exec_compile (env : Env) (e : Expr) (hw : WellFormed e) (k : List Instr) (st : St) :
    exec env (compile e ++ k) st =
      (evalM env e >>= fun v => exec env k { st with stack := v :: st.stack }) := by
  cases e with
  | num x => simp [compile, exec, step, evalM]
  | lit s => simp [compile, exec, step, evalM]
  | env id => simp [compile, exec, step, evalM]
  | neg a =>
    simp only [WellFormed] at hw
    simp only [compile, List.append_assoc, evalM]
    rw [exec_compile env a hw]
    cases ha : evalM env a with
    | error e => simp
    | ok v =>
      simp only [bind_ok, List.cons_append, List.nil_append, exec, step, popNum, pop]
      cases hn : v.toNum with
      | error e => simp
      | ok x => simp
  | bin op a b =>
    simp only [WellFormed] at hw
    simp only [compile, List.append_assoc, evalM]
    rw [exec_compile env a hw.1]
    cases ha : evalM env a with
    | error e => simp
    | ok x =>
      simp only [bind_ok]
      rw [exec_compile env b hw.2]
      cases hb : evalM env b with
      | error e => simp
      | ok y =>
        simp only [bind_ok, List.cons_append, List.nil_append, exec]
        rw [step_bin env op x y st]
        cases hm : binM op x y with
        | error e => simp
        | ok v => simp
  | call f args =>
    simp only [WellFormed] at hw
    simp only [compile, List.append_assoc, evalM]
    rw [exec_compileList env args hw.2]
    cases hl : evalListM env args with
    | error e => simp
    | ok vs =>
      have hlen : vs.length = args.length := evalListM_length env args vs hl
      simp only [bind_ok, List.cons_append, List.nil_append, exec, step, popArgs]
      rw [popArgsRev_append _ _ _ (by simp [hlen, hw.1])]
      cases hc : convArgsRev f.sig.1.reverse vs.reverse with
      | error e => simp
      | ok cs =>
        simp only [bind_ok, pure_eq_ok]
        cases hb : bltin f cs.reverse with
        | error e => simp
        | ok v => simp
theorem exec_compileList (env : Env) (es : List Expr) (hw : WellFormedList es) (k : List Instr) (st : St) :
    exec env (compileList es ++ k) st =
      (evalListM env es >>= fun vs => exec env k { st with stack := vs.reverse ++ st.stack }) := by
  cases es with
  | nil => simp [compileList, evalListM]
  | cons e es =>
    simp only [WellFormedList] at hw
    simp only [compileList, List.append_assoc, evalListM]
    rw [exec_compile env e hw.1]
    cases he : evalM env e with
    | error x => simp
    | ok v =>
      simp only [bind_ok]
      rw [exec_compileList env es hw.2]
      cases hl : evalListM env es with
      | error x => simp
      | ok vs => simp
end

end YV.X
