/-
  Proofs.YRangeLex — the range / length argument check of the model (parse/arg.go: split at "|", split at "..",
  trim optsep off every boundary) accepts exactly the texts the ABNF scanner of Spec.YRange accepts — apart from
  which side of ".." a keyword may stand on, which the scanner leaves open.
-/
import YV.Model.YCheck
import YV.Spec.YRange
namespace YV.YC
open YV YV.Y

/-- a boundary as the lexical rule has it: a keyword or a number -/
def boundaryLex (numOK : Bytes → Bool) (a : Bytes) : Bool := a = msg "min" || a = msg "max" || numOK a

/-- the model's check without the sides of the keywords -/
def rangeLikeLex (numOK : Bytes → Bool) (s : Bytes) : Bool :=
  (splitOnByte 124 s).all fun part =>
    match boundariesOf part with
    | [a] => boundaryLex numOK a
    | [a, b] => boundaryLex numOK a && boundaryLex numOK b
    | _ => false

/-- `min` only before "..", `max` only after it -/
def sidesOK (s : Bytes) : Bool :=
  (splitOnByte 124 s).all fun part =>
    match boundariesOf part with
    | [a, b] => a ≠ msg "max" && b ≠ msg "min"
    | _ => true

/-! ### the keywords as byte lists -/

theorem msg_min : msg "min" = [109, 105, 110] := by decide +kernel
theorem msg_max : msg "max" = [109, 97, 120] := by decide +kernel
theorem numBoundaryOK_min : numBoundaryOK (msg "min") = false := by rw [msg_min]; decide
theorem numBoundaryOK_max : numBoundaryOK (msg "max") = false := by rw [msg_max]; decide

/-! ### the model is the lexical rule plus the sides -/

theorem all_and' (l : List Bytes) (p q : Bytes → Bool) : l.all (fun a => p a && q a) = (l.all p && l.all q) := by
  induction l with
  | nil => rfl
  | cons a l ih => simp only [List.all_cons, ih]; cases p a <;> cases q a <;> simp

theorem all_congr' (l : List Bytes) (p q : Bytes → Bool) (h : ∀ a, p a = q a) : l.all p = l.all q := by
  have : p = q := funext h
  rw [this]

/-- the model is the lexical rule plus the sides of the keywords -/
theorem rangeLikeOK_eq (numOK : Bytes → Bool) (hmin : numOK (msg "min") = false) (hmax : numOK (msg "max") = false)
    (s : Bytes) : rangeLikeOK numOK s = (rangeLikeLex numOK s && sidesOK s) := by
  unfold rangeLikeOK rangeLikeLex sidesOK
  rw [← all_and']
  apply all_congr'
  intro part
  generalize boundariesOf part = l
  match l with
  | [] => rfl
  | [a] => simp [boundaryLex]
  | [a, b] =>
    simp only [boundaryLex]
    by_cases ha : a = msg "max"
    · subst ha; rw [msg_max] at hmax; simp [hmax, msg_min, msg_max]
    · by_cases hb : b = msg "min"
      · subst hb; rw [msg_min] at hmin; simp [hmin, msg_min, msg_max]
      · simp [ha, hb]
  | _ :: _ :: _ :: _ => rfl

/-! ### the two splitters, written by structural recursion -/

/-- put `pre` in front of the first piece -/
def consHead (pre : Bytes) : List Bytes → List Bytes
  | hd :: tl => (pre ++ hd) :: tl
  | [] => []

theorem consHead_cons (pre hd : Bytes) (tl : List Bytes) : consHead pre (hd :: tl) = (pre ++ hd) :: tl := rfl

theorem consHead_nil (l : List Bytes) : consHead [] l = l := by cases l <;> rfl

theorem consHead_append (a b : Bytes) (l : List Bytes) : consHead (a ++ b) l = consHead a (consHead b l) := by
  cases l <;> simp [consHead]

/-- `splitOnByte` by structural recursion -/
def sob (sep : Nat) : Bytes → List Bytes
  | [] => [[]]
  | c :: r => if c = sep then [] :: sob sep r else consHead [c] (sob sep r)

theorem splitOnByte_go_eq (sep : Nat) (s : Bytes) : ∀ cur acc,
    splitOnByte.go sep cur acc s = acc.reverse ++ consHead cur.reverse (sob sep s) := by
  induction s with
  | nil => intro cur acc; simp [splitOnByte.go, sob, consHead]
  | cons c r ih =>
    intro cur acc
    by_cases h : c = sep
    · simp [splitOnByte.go, sob, h, ih, consHead_cons, consHead_nil]
    · simp [splitOnByte.go, sob, h, ih, consHead_append]

theorem splitOnByte_eq (sep : Nat) (s : Bytes) : splitOnByte sep s = sob sep s := by
  unfold splitOnByte
  rw [splitOnByte_go_eq]
  simp [consHead_nil]

theorem sob_noSep (sep : Nat) (p : Bytes) (h : ∀ c ∈ p, c ≠ sep) : sob sep p = [p] := by
  induction p with
  | nil => rfl
  | cons c r ih =>
    have hc : c ≠ sep := h c (by simp)
    have hr : ∀ x ∈ r, x ≠ sep := fun x hx => h x (by simp [hx])
    simp [sob, hc, ih hr, consHead]

theorem sob_append (sep : Nat) (p rest : Bytes) (h : ∀ c ∈ p, c ≠ sep) :
    sob sep (p ++ sep :: rest) = p :: sob sep rest := by
  induction p with
  | nil => simp [sob]
  | cons c r ih =>
    have hc : c ≠ sep := h c (by simp)
    have hr : ∀ x ∈ r, x ≠ sep := fun x hx => h x (by simp [hx])
    simp [sob, hc, ih hr, consHead]

/-- a text either has no separator or splits at its first one -/
theorem split_first (sep : Nat) (s : Bytes) :
    (∀ c ∈ s, c ≠ sep) ∨ ∃ p rest, s = p ++ sep :: rest ∧ ∀ c ∈ p, c ≠ sep := by
  induction s with
  | nil => left; simp
  | cons c r ih =>
    by_cases hc : c = sep
    · right; exact ⟨[], r, by simp [hc], by simp⟩
    · rcases ih with h | ⟨p, rest, h1, h2⟩
      · left; intro x hx; simp at hx; rcases hx with rfl | hx; exact hc; exact h x hx
      · right; refine ⟨c :: p, rest, by simp [h1], ?_⟩
        intro x hx; simp at hx; rcases hx with rfl | hx; exact hc; exact h2 x hx

/-- `splitDotDot` by structural recursion -/
def sdd : Bytes → List Bytes
  | [] => [[]]
  | 46 :: 46 :: r => [] :: sdd r
  | c :: r => consHead [c] (sdd r)

theorem splitDotDot_go_eq (s : Bytes) : ∀ cur acc,
    splitDotDot.go cur acc s = acc.reverse ++ consHead cur.reverse (sdd s) := by
  fun_induction sdd s with
  | case1 => intro cur acc; simp [splitDotDot.go, consHead]
  | case2 r ih => intro cur acc; simp [splitDotDot.go, ih, consHead_cons, consHead_nil]
  | case3 c r hne ih =>
    intro cur acc
    rw [splitDotDot.go]
    · rw [ih]; simp [consHead_append]
    · intro r' h; exact hne r' h

theorem splitDotDot_eq (s : Bytes) : splitDotDot s = sdd s := by
  unfold splitDotDot
  rw [splitDotDot_go_eq]
  simp [consHead_nil]

theorem sdd_nil : sdd [] = [[]] := by rw [sdd]
theorem sdd_dd (r : Bytes) : sdd (46 :: 46 :: r) = [] :: sdd r := by rw [sdd]
theorem sdd_cons_ne (c : Nat) (r : Bytes) (h : c ≠ 46) : sdd (c :: r) = consHead [c] (sdd r) := by
  rw [sdd]; intro r' h' _; exact h h'
theorem sdd_dot_ne (d : Nat) (r : Bytes) (h : d ≠ 46) : sdd (46 :: d :: r) = consHead [46] (sdd (d :: r)) := by
  rw [sdd]; intro r' _ h'; simp at h'; exact h h'.1
theorem sdd_dot : sdd [46] = [[46]] := by
  rw [sdd]
  · rw [sdd_nil]; rfl
  · intro r' _ h'; simp at h'

theorem sdd_ne_nil (q : Bytes) : sdd q ≠ [] := by
  fun_induction sdd q with
  | case1 => simp
  | case2 r ih => simp
  | case3 c r hne ih =>
    cases h : sdd r with
    | nil => exact absurd h ih
    | cons a l => simp [consHead_cons]

/-- no ".." in the text, and no "." at its end that could pair with one after it -/
def noDD : Bytes → Bool
  | [] => true
  | c :: r => if c = 46 then (match r with | [] => false | d :: _ => d ≠ 46 && noDD r) else noDD r

theorem noDD_cons_ne (c : Nat) (r : Bytes) (h : c ≠ 46) : noDD (c :: r) = noDD r := by simp [noDD, h]
theorem noDD_dot : noDD [46] = false := by simp [noDD]
theorem noDD_dot_cons (d : Nat) (r : Bytes) : noDD (46 :: d :: r) = (decide (d ≠ 46) && noDD (d :: r)) := by
  simp [noDD]

theorem noDD_no46 (x : Bytes) (h : ∀ c ∈ x, c ≠ 46) : noDD x = true := by
  induction x with
  | nil => rfl
  | cons c r ih =>
    rw [noDD_cons_ne c r (h c (by simp))]
    exact ih (fun x hx => h x (by simp [hx]))

theorem noDD_append (x y : Bytes) (hx : noDD x = true) (hy : noDD y = true) : noDD (x ++ y) = true := by
  induction x with
  | nil => simpa using hy
  | cons c r ih =>
    by_cases hc : c = 46
    · subst hc
      cases r with
      | nil => simp [noDD] at hx
      | cons d r' =>
        rw [noDD_dot_cons] at hx
        simp only [Bool.and_eq_true] at hx
        show noDD (46 :: d :: (r' ++ y)) = true
        rw [noDD_dot_cons]
        simp only [Bool.and_eq_true]
        exact ⟨hx.1, ih hx.2⟩
    · rw [noDD_cons_ne c r hc] at hx
      show noDD (c :: (r ++ y)) = true
      rw [noDD_cons_ne _ _ hc]
      exact ih hx

theorem sdd_noDD_append (x y : Bytes) (hx : noDD x = true) : sdd (x ++ 46 :: 46 :: y) = x :: sdd y := by
  induction x with
  | nil => exact sdd_dd y
  | cons c r ih =>
    by_cases hc : c = 46
    · subst hc
      cases r with
      | nil => simp [noDD] at hx
      | cons d r' =>
        rw [noDD_dot_cons] at hx
        simp only [Bool.and_eq_true, decide_eq_true_eq] at hx
        show sdd (46 :: d :: (r' ++ 46 :: 46 :: y)) = _
        rw [sdd_dot_ne _ _ hx.1]
        have := ih hx.2
        simp only [List.cons_append] at this
        rw [this]; rfl
    · rw [noDD_cons_ne c r hc] at hx
      show sdd (c :: (r ++ 46 :: 46 :: y)) = _
      rw [sdd_cons_ne _ _ hc, ih hx]; rfl

theorem sdd_noDD (x : Bytes) (hx : noDD x = true) : sdd x = [x] := by
  induction x with
  | nil => exact sdd_nil
  | cons c r ih =>
    by_cases hc : c = 46
    · subst hc
      cases r with
      | nil => simp [noDD] at hx
      | cons d r' =>
        rw [noDD_dot_cons] at hx
        simp only [Bool.and_eq_true, decide_eq_true_eq] at hx
        rw [sdd_dot_ne _ _ hx.1, ih hx.2]; rfl
    · rw [noDD_cons_ne c r hc] at hx
      rw [sdd_cons_ne _ _ hc, ih hx]; rfl

/-- the pieces put together again give the text -/
theorem sdd_cases (q : Bytes) : sdd q = [q] ∨ ∃ x y, q = x ++ 46 :: 46 :: y ∧ sdd q = x :: sdd y := by
  fun_induction sdd q with
  | case1 => left; rfl
  | case2 r ih => right; exact ⟨[], r, rfl, rfl⟩
  | case3 c r hne ih =>
    rcases ih with h | ⟨x, y, h1, h2⟩
    · left; rw [h]; rfl
    · right; refine ⟨c :: x, y, by rw [h1]; rfl, ?_⟩
      rw [h2]; rfl

theorem sdd_one (q x : Bytes) (h : sdd q = [x]) : q = x := by
  rcases sdd_cases q with h1 | ⟨x', y, _, h2⟩
  · rw [h1] at h; simpa using h
  · rw [h2] at h; simp at h; exact absurd h.2 (sdd_ne_nil y)

theorem sdd_two (q x y : Bytes) (h : sdd q = [x, y]) : q = x ++ 46 :: 46 :: y := by
  rcases sdd_cases q with h1 | ⟨x', y', hq, h2⟩
  · rw [h1] at h; simp at h
  · rw [h2] at h; simp at h
    rw [hq, h.1, sdd_one y' y h.2]

/-! ### optsep: `skipOpt` of the specification, `crlfToLf` and `trimOpt` of the model -/

/-- an optsep text: blanks, tabs, LF, CRLF -/
inductive WS : Bytes → Prop
  | nil : WS []
  | sp {w : Bytes} : WS w → WS (32 :: w)
  | tab {w : Bytes} : WS w → WS (9 :: w)
  | lf {w : Bytes} : WS w → WS (10 :: w)
  | crlf {w : Bytes} : WS w → WS (13 :: 10 :: w)

theorem WS_append {a b : Bytes} (ha : WS a) (hb : WS b) : WS (a ++ b) := by
  induction ha with
  | nil => exact hb
  | sp _ ih => exact WS.sp ih
  | tab _ ih => exact WS.tab ih
  | lf _ ih => exact WS.lf ih
  | crlf _ ih => exact WS.crlf ih

theorem WS_no124 {w : Bytes} (h : WS w) : ∀ c ∈ w, c ≠ 124 := by
  induction h with
  | nil => simp
  | sp _ ih => intro c hc; simp at hc; rcases hc with rfl | hc; decide; exact ih c hc
  | tab _ ih => intro c hc; simp at hc; rcases hc with rfl | hc; decide; exact ih c hc
  | lf _ ih => intro c hc; simp at hc; rcases hc with rfl | hc; decide; exact ih c hc
  | crlf _ ih => intro c hc; simp at hc; rcases hc with rfl | rfl | hc; decide; decide; exact ih c hc

open YV.YS in
theorem skipOpt_decomp (s : Bytes) : ∃ w, WS w ∧ s = w ++ skipOpt s := by
  fun_induction skipOpt s with
  | case1 r ih => obtain ⟨w, h1, h2⟩ := ih; exact ⟨32 :: w, WS.sp h1, by rw [List.cons_append, ← h2]⟩
  | case2 r ih => obtain ⟨w, h1, h2⟩ := ih; exact ⟨9 :: w, WS.tab h1, by rw [List.cons_append, ← h2]⟩
  | case3 r ih => obtain ⟨w, h1, h2⟩ := ih; exact ⟨10 :: w, WS.lf h1, by rw [List.cons_append, ← h2]⟩
  | case4 r ih => obtain ⟨w, h1, h2⟩ := ih; exact ⟨13 :: 10 :: w, WS.crlf h1, by rw [List.cons_append, List.cons_append, ← h2]⟩
  | case5 s h1 h2 h3 h4 => exact ⟨[], WS.nil, rfl⟩

open YV.YS in
theorem skipOpt_ws {w : Bytes} (h : WS w) (t : Bytes) : skipOpt (w ++ t) = skipOpt t := by
  induction h with
  | nil => rfl
  | sp _ ih => rw [List.cons_append, skipOpt, ih]
  | tab _ ih => rw [List.cons_append, skipOpt, ih]
  | lf _ ih => rw [List.cons_append, skipOpt, ih]
  | crlf _ ih => rw [List.cons_append, List.cons_append, skipOpt, ih]

/-- not the first byte of an optsep -/
def nonSep (c : Nat) : Prop := c ≠ 32 ∧ c ≠ 9 ∧ c ≠ 10 ∧ c ≠ 13

open YV.YS in
theorem skipOpt_nil : skipOpt [] = [] := by rw [skipOpt] <;> simp

open YV.YS in
theorem skipOpt_stop (c : Nat) (r : Bytes) (h : nonSep c) : skipOpt (c :: r) = c :: r := by
  obtain ⟨h1, h2, h3, h4⟩ := h
  rw [skipOpt]
  · intro r' h; simp at h; exact h1 h.1
  · intro r' h; simp at h; exact h2 h.1
  · intro r' h; simp at h; exact h3 h.1
  · intro r' h; simp at h; exact h4 h.1

theorem crlfToLf_nil : crlfToLf [] = [] := by rw [crlfToLf]
theorem crlfToLf_crlf (r : Bytes) : crlfToLf (13 :: 10 :: r) = 10 :: crlfToLf r := by rw [crlfToLf]
theorem crlfToLf_cons' (c : Nat) (r : Bytes) (h : ∀ r', c = 13 → ¬ r = 10 :: r') : crlfToLf (c :: r) = c :: crlfToLf r := by
  rw [crlfToLf]; intro r' h1 h2; exact h r' h1 h2
theorem crlfToLf_cons (c : Nat) (r : Bytes) (h : c ≠ 13) : crlfToLf (c :: r) = c :: crlfToLf r :=
  crlfToLf_cons' c r (fun _ h' => absurd h' h)

theorem crlfToLf_ws {w : Bytes} (h : WS w) (t : Bytes) :
    crlfToLf (w ++ t) = crlfToLf w ++ crlfToLf t ∧ ∀ c ∈ crlfToLf w, isOptB c = true := by
  induction h with
  | nil => simp [crlfToLf_nil]
  | sp _ ih =>
    rw [List.cons_append, crlfToLf_cons _ _ (by decide), crlfToLf_cons _ _ (by decide), ih.1]
    refine ⟨rfl, ?_⟩
    intro c hc; simp at hc; rcases hc with rfl | hc; decide; exact ih.2 c hc
  | tab _ ih =>
    rw [List.cons_append, crlfToLf_cons _ _ (by decide), crlfToLf_cons _ _ (by decide), ih.1]
    refine ⟨rfl, ?_⟩
    intro c hc; simp at hc; rcases hc with rfl | hc; decide; exact ih.2 c hc
  | lf _ ih =>
    rw [List.cons_append, crlfToLf_cons _ _ (by decide), crlfToLf_cons _ _ (by decide), ih.1]
    refine ⟨rfl, ?_⟩
    intro c hc; simp at hc; rcases hc with rfl | hc; decide; exact ih.2 c hc
  | crlf _ ih =>
    rw [List.cons_append, List.cons_append, crlfToLf_crlf, crlfToLf_crlf, ih.1]
    refine ⟨rfl, ?_⟩
    intro c hc; simp at hc; rcases hc with rfl | hc; decide; exact ih.2 c hc

theorem crlfToLf_tok (a t : Bytes) (h : ∀ c ∈ a, c ≠ 13) : crlfToLf (a ++ t) = a ++ crlfToLf t := by
  induction a with
  | nil => rfl
  | cons c r ih =>
    rw [List.cons_append, crlfToLf_cons _ _ (h c (by simp)), ih (fun x hx => h x (by simp [hx]))]
    rfl

theorem crlfToLf_eq_nil (s : Bytes) (h : crlfToLf s = []) : s = [] := by
  fun_cases crlfToLf s with
  | case1 r => rw [crlfToLf_crlf] at h; simp at h
  | case2 d r hne => rw [crlfToLf_cons' d r hne] at h; simp at h
  | case3 => rfl

theorem crlfToLf_inv_cons (s t' : Bytes) (c : Nat) (h : crlfToLf s = c :: t') (hc : c ≠ 10) :
    ∃ s', s = c :: s' ∧ crlfToLf s' = t' := by
  fun_cases crlfToLf s with
  | case1 r => rw [crlfToLf_crlf] at h; simp at h; exact absurd h.1.symm hc
  | case2 d r hne => rw [crlfToLf_cons' d r hne] at h; simp at h; exact ⟨r, by rw [h.1], h.2⟩
  | case3 => rw [crlfToLf_nil] at h; simp at h

theorem crlfToLf_inv_lf (s t' : Bytes) (h : crlfToLf s = 10 :: t') :
    ∃ s', (s = 10 :: s' ∨ s = 13 :: 10 :: s') ∧ crlfToLf s' = t' := by
  fun_cases crlfToLf s with
  | case1 r => rw [crlfToLf_crlf] at h; simp at h; exact ⟨r, Or.inr rfl, h⟩
  | case2 d r hne => rw [crlfToLf_cons' d r hne] at h; simp at h; exact ⟨r, Or.inl (by rw [h.1]), h.2⟩
  | case3 => rw [crlfToLf_nil] at h; simp at h

theorem crlfToLf_inv_tok (a : Bytes) : ∀ (s t' : Bytes), crlfToLf s = a ++ t' → (∀ c ∈ a, c ≠ 10) →
    ∃ s', s = a ++ s' ∧ crlfToLf s' = t' := by
  induction a with
  | nil => intro s t' h _; exact ⟨s, rfl, h⟩
  | cons c r ih =>
    intro s t' h ha
    obtain ⟨s1, h1, h2⟩ := crlfToLf_inv_cons s (r ++ t') c h (ha c (by simp))
    obtain ⟨s2, h3, h4⟩ := ih s1 t' h2 (fun x hx => ha x (by simp [hx]))
    exact ⟨s2, by rw [h1, h3]; rfl, h4⟩

theorem crlfToLf_inv_ws (w' : Bytes) : ∀ (s t' : Bytes), crlfToLf s = w' ++ t' → (∀ c ∈ w', isOptB c = true) →
    ∃ w s', WS w ∧ s = w ++ s' ∧ crlfToLf s' = t' := by
  induction w' with
  | nil => intro s t' h _; exact ⟨[], s, WS.nil, rfl, h⟩
  | cons c r ih =>
    intro s t' h hw
    have hc : isOptB c = true := hw c (by simp)
    have hr : ∀ x ∈ r, isOptB x = true := fun x hx => hw x (by simp [hx])
    by_cases h10 : c = 10
    · subst h10
      obtain ⟨s1, h1, h2⟩ := crlfToLf_inv_lf s (r ++ t') h
      obtain ⟨w, s2, h3, h4, h5⟩ := ih s1 t' h2 hr
      rcases h1 with h1 | h1
      · exact ⟨10 :: w, s2, WS.lf h3, by rw [h1, h4]; rfl, h5⟩
      · exact ⟨13 :: 10 :: w, s2, WS.crlf h3, by rw [h1, h4]; rfl, h5⟩
    · obtain ⟨s1, h1, h2⟩ := crlfToLf_inv_cons s (r ++ t') c h h10
      obtain ⟨w, s2, h3, h4, h5⟩ := ih s1 t' h2 hr
      simp [isOptB, h10] at hc
      rcases hc with rfl | rfl
      · exact ⟨32 :: w, s2, WS.sp h3, by rw [h1, h4]; rfl, h5⟩
      · exact ⟨9 :: w, s2, WS.tab h3, by rw [h1, h4]; rfl, h5⟩

theorem mem_takeWhile' (p : Nat → Bool) (l : Bytes) : ∀ c ∈ l.takeWhile p, p c = true := by
  induction l with
  | nil => simp
  | cons a l ih =>
    intro c hc
    rw [List.takeWhile_cons] at hc
    by_cases ha : p a = true
    · simp [ha] at hc; rcases hc with rfl | hc; exact ha; exact ih c hc
    · simp [ha] at hc

theorem dropWhile_pre (p : Nat → Bool) (w t : Bytes) (h : ∀ c ∈ w, p c = true) :
    (w ++ t).dropWhile p = t.dropWhile p := by
  induction w with
  | nil => rfl
  | cons a l ih =>
    rw [List.cons_append, List.dropWhile_cons, if_pos (h a (by simp))]
    exact ih (fun x hx => h x (by simp [hx]))

theorem dropWhile_stop (p : Nat → Bool) (c : Nat) (r : Bytes) (h : p c = false) :
    (c :: r).dropWhile p = c :: r := by
  rw [List.dropWhile_cons]; simp [h]

theorem takeWhile_pre (p : Nat → Bool) (w t : Bytes) (h : ∀ c ∈ w, p c = true) :
    (w ++ t).takeWhile p = w ++ t.takeWhile p := by
  induction w with
  | nil => rfl
  | cons a l ih =>
    rw [List.cons_append, List.takeWhile_cons, if_pos (h a (by simp))]
    rw [ih (fun x hx => h x (by simp [hx]))]; rfl

theorem takeWhile_stop (p : Nat → Bool) (c : Nat) (r : Bytes) (h : p c = false) :
    (c :: r).takeWhile p = [] := by
  rw [List.takeWhile_cons]; simp [h]

theorem trimOpt_decomp (x : Bytes) :
    ∃ w1 w2, (∀ c ∈ w1, isOptB c = true) ∧ (∀ c ∈ w2, isOptB c = true) ∧ x = w1 ++ (trimOpt x ++ w2) := by
  refine ⟨x.takeWhile isOptB, (((x.dropWhile isOptB).reverse).takeWhile isOptB).reverse, mem_takeWhile' _ _, ?_, ?_⟩
  · intro c hc; rw [List.mem_reverse] at hc; exact mem_takeWhile' _ _ c hc
  · unfold trimOpt
    rw [← List.reverse_append, List.takeWhile_append_dropWhile, List.reverse_reverse,
      List.takeWhile_append_dropWhile]

theorem trimOpt_tok (w1 a w2 : Bytes) (h1 : ∀ c ∈ w1, isOptB c = true) (h2 : ∀ c ∈ w2, isOptB c = true)
    (hne : a ≠ []) (ha : ∀ c ∈ a, isOptB c = false) : trimOpt (w1 ++ (a ++ w2)) = a := by
  unfold trimOpt
  rw [dropWhile_pre _ _ _ h1]
  cases a with
  | nil => exact absurd rfl hne
  | cons c r =>
    rw [List.cons_append, dropWhile_stop _ _ _ (ha c (by simp))]
    rw [← List.cons_append, List.reverse_append, dropWhile_pre _ _ _ (by intro x hx; rw [List.mem_reverse] at hx; exact h2 x hx)]
    have hrev : (c :: r).reverse ≠ [] := by simp
    cases hr : (c :: r).reverse with
    | nil => exact absurd hr hrev
    | cons d r' =>
      have hd : d ∈ c :: r := by rw [← List.mem_reverse, hr]; simp
      rw [dropWhile_stop _ _ _ (ha d hd), ← hr, List.reverse_reverse]

/-! ### a boundary scanner and its tokens, abstractly -/

/-- the bytes a boundary is made of -/
def tokChar (c : Nat) : Bool :=
  isDig c || c = 45 || c = 46 || c = 109 || c = 105 || c = 110 || c = 97 || c = 120

theorem tokChar_props (c : Nat) (h : tokChar c = true) :
    nonSep c ∧ c ≠ 124 ∧ isOptB c = false ∧ c ≠ 13 ∧ c ≠ 10 := by
  simp [tokChar, isDig] at h
  simp [nonSep, isOptB]
  omega

structure TokShape (a : Bytes) : Prop where
  ne : a ≠ []
  chars : ∀ c ∈ a, tokChar c = true
  nodd : noDD a = true

/-- what may follow a boundary so that the scanner takes exactly the boundary -/
def Stop (t : Bytes) : Prop :=
  (∀ c r, t = c :: r → isDig c = false) ∧ (∀ d r, t = 46 :: d :: r → isDig d = false)

theorem Stop_nil : Stop [] := ⟨fun _ _ h => by simp at h, fun _ _ h => by simp at h⟩
theorem Stop_bar (r : Bytes) : Stop (124 :: r) :=
  ⟨fun c r h => by simp at h; rw [← h.1]; decide, fun _ _ h => by simp at h⟩
theorem Stop_dd (r : Bytes) : Stop (46 :: 46 :: r) :=
  ⟨fun c r h => by simp at h; rw [← h.1]; decide, fun d r h => by simp at h; rw [← h.1]; decide⟩
theorem Stop_ws {w : Bytes} (h : WS w) (t : Bytes) (ht : Stop t) : Stop (w ++ t) := by
  cases h with
  | nil => exact ht
  | sp _ => exact ⟨fun c r h => by simp at h; rw [← h.1]; decide, fun _ _ h => by simp at h⟩
  | tab _ => exact ⟨fun c r h => by simp at h; rw [← h.1]; decide, fun _ _ h => by simp at h⟩
  | lf _ => exact ⟨fun c r h => by simp at h; rw [← h.1]; decide, fun _ _ h => by simp at h⟩
  | crlf _ => exact ⟨fun c r h => by simp at h; rw [← h.1]; decide, fun _ _ h => by simp at h⟩

structure Scanner (B : Bytes → Option Bytes) (Tok : Bytes → Bool) : Prop where
  fwd : ∀ a t, Tok a = true → Stop t → B (a ++ t) = some t
  bwd : ∀ s r, B s = some r → ∃ a, s = a ++ r ∧ Tok a = true
  shape : ∀ a, Tok a = true → TokShape a

/-- a boundary with optsep around it -/
def BdD (Tok : Bytes → Bool) (x : Bytes) : Prop :=
  ∃ w1 a w2, WS w1 ∧ WS w2 ∧ Tok a = true ∧ x = w1 ++ (a ++ w2)

/-- a part: one boundary, or two with ".." between them -/
def PartD (Tok : Bytes → Bool) (part : Bytes) : Prop :=
  BdD Tok part ∨ ∃ x y, BdD Tok x ∧ BdD Tok y ∧ part = x ++ 46 :: 46 :: y

/-- what the scanner of parts looks for after a part -/
def Tail (t : Bytes) : Prop := t = [] ∨ ∃ r, t = 124 :: r

theorem Tail_stop {t : Bytes} (h : Tail t) : Stop t := by
  rcases h with rfl | ⟨r, rfl⟩
  · exact Stop_nil
  · exact Stop_bar r

open YV.YS in
theorem Tail_skip {t : Bytes} (h : Tail t) : skipOpt t = t := by
  rcases h with rfl | ⟨r, rfl⟩
  · exact skipOpt_nil
  · exact skipOpt_stop _ _ (by simp [nonSep])

section generic
open YV.YS
variable {B : Bytes → Option Bytes} {Tok : Bytes → Bool} (hS : Scanner B Tok)
include hS

theorem tok_skip (a t : Bytes) (ha : Tok a = true) : skipOpt (a ++ t) = a ++ t := by
  have hsh := hS.shape a ha
  cases a with
  | nil => exact absurd rfl hsh.ne
  | cons c r => exact skipOpt_stop _ _ (tokChar_props c (hsh.chars c (by simp))).1

theorem scanBd_fwd (x t : Bytes) (hx : BdD Tok x) (ht : Stop t) :
    ∃ r, B (skipOpt (x ++ t)) = some r ∧ skipOpt r = skipOpt t := by
  obtain ⟨w1, a, w2, h1, h2, ha, rfl⟩ := hx
  refine ⟨w2 ++ t, ?_, skipOpt_ws h2 t⟩
  rw [List.append_assoc, List.append_assoc, skipOpt_ws h1, tok_skip hS a _ ha]
  exact hS.fwd a _ ha (Stop_ws h2 t ht)

theorem scanBd_bwd (s r : Bytes) (h : B (skipOpt s) = some r) : ∃ x, BdD Tok x ∧ s = x ++ skipOpt r := by
  obtain ⟨w1, hw1, hs⟩ := skipOpt_decomp s
  obtain ⟨a, h1, ha⟩ := hS.bwd _ _ h
  obtain ⟨w2, hw2, hr⟩ := skipOpt_decomp r
  refine ⟨w1 ++ (a ++ w2), ⟨w1, a, w2, hw1, hw2, ha, rfl⟩, ?_⟩
  rw [List.append_assoc, List.append_assoc, ← hr, ← h1, ← hs]

theorem scanPart_fwd (part t : Bytes) (hp : PartD Tok part) (ht : Tail t) :
    ∃ r, scanPart B (skipOpt (part ++ t)) = some r ∧ skipOpt r = t := by
  rcases hp with hx | ⟨x, y, hx, hy, rfl⟩
  · obtain ⟨r, h1, h2⟩ := scanBd_fwd hS part t hx (Tail_stop ht)
    rw [Tail_skip ht] at h2
    refine ⟨r, ?_, h2⟩
    unfold scanPart
    rw [h1]
    simp only
    rw [h2]
    rcases ht with rfl | ⟨r', rfl⟩ <;> rfl
  · obtain ⟨r1, h1, h2⟩ := scanBd_fwd hS x (46 :: 46 :: (y ++ t)) hx (Stop_dd _)
    rw [skipOpt_stop _ _ (by simp [nonSep])] at h2
    obtain ⟨r, h3, h4⟩ := scanBd_fwd hS y t hy (Tail_stop ht)
    rw [Tail_skip ht] at h4
    refine ⟨r, ?_, h4⟩
    unfold scanPart
    rw [List.append_assoc, List.cons_append, List.cons_append, h1]
    simp only
    rw [h2]
    exact h3

theorem scanPart_bwd (s r : Bytes) (h : scanPart B (skipOpt s) = some r) :
    ∃ part, PartD Tok part ∧ s = part ++ skipOpt r := by
  unfold scanPart at h
  cases h1 : B (skipOpt s) with
  | none => rw [h1] at h; simp at h
  | some r1 =>
    rw [h1] at h
    simp only at h
    obtain ⟨x, hx, hs⟩ := scanBd_bwd hS s r1 h1
    split at h
    · rename_i r2 h2
      obtain ⟨y, hy, hr2⟩ := scanBd_bwd hS r2 r h
      refine ⟨x ++ 46 :: 46 :: y, Or.inr ⟨x, y, hx, hy, rfl⟩, ?_⟩
      rw [hs, h2, hr2]; simp
    · simp at h; subst h
      exact ⟨x, Or.inl hx, hs⟩

theorem BdD_no124 (x : Bytes) (hx : BdD Tok x) : ∀ c ∈ x, c ≠ 124 := by
  obtain ⟨w1, a, w2, h1, h2, ha, rfl⟩ := hx
  intro c hc
  simp only [List.mem_append] at hc
  rcases hc with hc | hc | hc
  · exact WS_no124 h1 c hc
  · exact (tokChar_props c ((hS.shape a ha).chars c hc)).2.1
  · exact WS_no124 h2 c hc

theorem PartD_no124 (part : Bytes) (hp : PartD Tok part) : ∀ c ∈ part, c ≠ 124 := by
  rcases hp with hx | ⟨x, y, hx, hy, rfl⟩
  · exact BdD_no124 hS part hx
  · intro c hc
    simp only [List.mem_append, List.mem_cons] at hc
    rcases hc with hc | rfl | rfl | hc
    · exact BdD_no124 hS x hx c hc
    · decide
    · decide
    · exact BdD_no124 hS y hy c hc

end generic

section generic2
open YV.YS
variable {B : Bytes → Option Bytes} {Tok : Bytes → Bool} (hS : Scanner B Tok)
include hS

/-- the scanner of parts accepts exactly the texts all of whose "|"-pieces are parts -/
theorem scanParts_iff : ∀ (fuel : Nat) (s : Bytes), s.length < fuel →
    (scanParts B fuel (skipOpt s) = true ↔ ∀ part ∈ sob 124 s, PartD Tok part) := by
  intro fuel
  induction fuel with
  | zero => intro s h; omega
  | succ fuel ih =>
    intro s hlen
    rw [scanParts]
    constructor
    · intro h
      cases h1 : scanPart B (skipOpt s) with
      | none => rw [h1] at h; simp at h
      | some r =>
        rw [h1] at h
        simp only at h
        obtain ⟨part, hp, hs⟩ := scanPart_bwd hS s r h1
        have hno := PartD_no124 hS part hp
        split at h
        · rename_i h2
          rw [h2, List.append_nil] at hs
          subst hs
          rw [sob_noSep 124 _ hno]
          intro p' hp'; simp at hp'; subst hp'; exact hp
        · rename_i r2 h2
          rw [h2] at hs
          subst hs
          rw [sob_append 124 _ _ hno]
          have hl : r2.length < fuel := by simp at hlen; omega
          have := (ih r2 hl).1 h
          intro p' hp'; simp at hp'
          rcases hp' with rfl | hp'
          · exact hp
          · exact this p' hp'
        · simp at h
    · intro h
      rcases split_first 124 s with h0 | ⟨p, rest, hs, hp⟩
      · rw [sob_noSep 124 _ h0] at h
        have hp : PartD Tok s := h s (by simp)
        obtain ⟨r, h1, h2⟩ := scanPart_fwd hS s [] hp (Or.inl rfl)
        rw [List.append_nil] at h1
        rw [h1]; simp only; rw [h2]
      · subst hs
        rw [sob_append 124 _ _ hp] at h
        have hpp : PartD Tok p := h p (by simp)
        obtain ⟨r, h1, h2⟩ := scanPart_fwd hS p (124 :: rest) hpp (Or.inr ⟨rest, rfl⟩)
        rw [h1]; simp only; rw [h2]; simp only
        have hl : rest.length < fuel := by simp at hlen; omega
        exact (ih rest hl).2 (fun p' hp' => h p' (by simp [hp']))

end generic2

/-! ### the model's check of one part -/

/-- the check of one part in `rangeLikeLex` -/
def partLex (Tok : Bytes → Bool) (part : Bytes) : Bool :=
  match boundariesOf part with
  | [a] => Tok a
  | [a, b] => Tok a && Tok b
  | _ => false

theorem rangeLikeLex_eq (numOK : Bytes → Bool) (s : Bytes) :
    rangeLikeLex numOK s = (sob 124 s).all (partLex (boundaryLex numOK)) := by
  rw [← splitOnByte_eq]; rfl

section model
variable {Tok : Bytes → Bool} (hshape : ∀ a, Tok a = true → TokShape a)
include hshape

theorem inv_bd (s x t' : Bytes) (h : crlfToLf s = x ++ t') (hx : Tok (trimOpt x) = true) :
    ∃ y s', BdD Tok y ∧ s = y ++ s' ∧ crlfToLf s' = t' := by
  obtain ⟨w1', w2', hw1, hw2, hxd⟩ := trimOpt_decomp x
  have hsh := hshape _ hx
  rw [hxd, List.append_assoc, List.append_assoc] at h
  obtain ⟨w1, s1, hws1, hs1, hc1⟩ := crlfToLf_inv_ws _ _ _ h hw1
  obtain ⟨s2, hs2, hc2⟩ := crlfToLf_inv_tok _ _ _ hc1 (fun c hc => (tokChar_props c (hsh.chars c hc)).2.2.2.2)
  obtain ⟨w2, s3, hws2, hs3, hc3⟩ := crlfToLf_inv_ws _ _ _ hc2 hw2
  refine ⟨w1 ++ (trimOpt x ++ w2), s3, ⟨w1, trimOpt x, w2, hws1, hws2, hx, rfl⟩, ?_, hc3⟩
  rw [hs1, hs2, hs3]; simp

theorem partLex_imp (part : Bytes) (h : partLex Tok part = true) : PartD Tok part := by
  unfold partLex boundariesOf at h
  rw [splitDotDot_eq] at h
  generalize hq : sdd (crlfToLf part) = l at h
  match l, hq, h with
  | [], _, h => simp at h
  | [x], hq, h =>
    simp only [List.map] at h
    have hx := sdd_one _ _ hq
    obtain ⟨y, s', hy, hs, hc⟩ := inv_bd hshape part x [] (by rw [hx, List.append_nil]) h
    have := crlfToLf_eq_nil _ hc
    subst this
    rw [List.append_nil] at hs
    subst hs
    exact Or.inl hy
  | [x, y], hq, h =>
    simp only [List.map, Bool.and_eq_true] at h
    have hx := sdd_two _ _ _ hq
    obtain ⟨x0, s1, hx0, hs1, hc1⟩ := inv_bd hshape part x _ hx h.1
    obtain ⟨s2, hs2, hc2⟩ := crlfToLf_inv_tok [46, 46] s1 y hc1 (by decide)
    obtain ⟨y0, s3, hy0, hs3, hc3⟩ := inv_bd hshape s2 y [] (by rw [hc2, List.append_nil]) h.2
    have := crlfToLf_eq_nil _ hc3
    subst this
    rw [List.append_nil] at hs3
    exact Or.inr ⟨x0, y0, hx0, hy0, by rw [hs1, hs2, hs3]; rfl⟩
  | _ :: _ :: _ :: _, _, h => simp at h

theorem fwd_bd (x : Bytes) (hx : BdD Tok x) :
    ∃ x', (∀ t, crlfToLf (x ++ t) = x' ++ crlfToLf t) ∧ Tok (trimOpt x') = true ∧ noDD x' = true := by
  obtain ⟨w1, a, w2, h1, h2, ha, rfl⟩ := hx
  have hsh := hshape a ha
  have hno46 : ∀ (w : Bytes), (∀ c ∈ w, isOptB c = true) → noDD w = true := by
    intro w hw
    apply noDD_no46
    intro c hc h46
    have := hw c hc
    rw [h46] at this
    simp [isOptB] at this
  have hw1 := fun t => crlfToLf_ws h1 t
  have hw2 := fun t => crlfToLf_ws h2 t
  refine ⟨crlfToLf w1 ++ (a ++ crlfToLf w2), ?_, ?_, ?_⟩
  · intro t
    rw [List.append_assoc, List.append_assoc, (hw1 _).1,
      crlfToLf_tok a _ (fun c hc => (tokChar_props c (hsh.chars c hc)).2.2.2.1), (hw2 t).1]
    simp
  · rw [trimOpt_tok _ _ _ (hw1 []).2 (hw2 []).2 hsh.ne (fun c hc => (tokChar_props c (hsh.chars c hc)).2.2.1)]
    exact ha
  · exact noDD_append _ _ (hno46 _ (hw1 []).2) (noDD_append _ _ hsh.nodd (hno46 _ (hw2 []).2))

theorem partLex_of (part : Bytes) (h : PartD Tok part) : partLex Tok part = true := by
  unfold partLex boundariesOf
  rw [splitDotDot_eq]
  rcases h with hx | ⟨x, y, hx, hy, rfl⟩
  · obtain ⟨x', h1, h2, h3⟩ := fwd_bd hshape part hx
    have := h1 []
    rw [List.append_nil, crlfToLf_nil, List.append_nil] at this
    rw [this, sdd_noDD _ h3]
    exact h2
  · obtain ⟨x', h1, h2, h3⟩ := fwd_bd hshape x hx
    obtain ⟨y', h4, h5, h6⟩ := fwd_bd hshape y hy
    have hy' := h4 []
    rw [List.append_nil, crlfToLf_nil, List.append_nil] at hy'
    rw [h1, crlfToLf_cons _ _ (by decide), crlfToLf_cons _ _ (by decide), hy', sdd_noDD_append _ _ h3,
      sdd_noDD _ h6]
    simp only [List.map, Bool.and_eq_true]
    exact ⟨h2, h5⟩

theorem partLex_iff (part : Bytes) : partLex Tok part = true ↔ PartD Tok part :=
  ⟨partLex_imp hshape part, partLex_of hshape part⟩

end model

/-- the generic statement: a scanner with its tokens against the model's split-and-trim check -/
theorem scanParts_eq_lex {B : Bytes → Option Bytes} {numOK : Bytes → Bool}
    (hS : Scanner B (boundaryLex numOK)) (s : Bytes) :
    YS.scanParts B (s.length + 1) (YS.skipOpt s) = rangeLikeLex numOK s := by
  rw [Bool.eq_iff_iff, scanParts_iff hS _ s (Nat.lt_succ_self _), rangeLikeLex_eq, List.all_eq_true]
  constructor
  · intro h p hp; exact (partLex_iff hS.shape p).2 (h p hp)
  · intro h p hp; exact (partLex_iff hS.shape p).1 (h p hp)

/-! ### numbers: the shape both sides agree on -/

theorem isDigit_eq : YS.isDigit = isDig := rfl

def stripSign (s : Bytes) : Bytes := match s with | 45 :: r => r | r => r

def numBody (body : Bytes) : Bool :=
  let ip := body.takeWhile isDig
  let rest := body.dropWhile isDig
  !ip.isEmpty && !(ip.length > 1 && ip.head? = some 48) && (match rest with
    | [] => true
    | 46 :: fr => !fr.isEmpty && fr.all isDig
    | _ => false)

theorem numBoundaryOK_eq (s : Bytes) : numBoundaryOK s = numBody (stripSign s) := rfl

def scanNonNeg' (s : Bytes) : Option (Bytes × Bytes) :=
  let ip := s.takeWhile isDig
  if ip.isEmpty || (ip.length > 1 && ip.head? = some 48) then none else some (ip, s.dropWhile isDig)

theorem scanNonNeg_eq (s : Bytes) : YS.scanNonNeg s = scanNonNeg' s := rfl

def scanNumBody (body : Bytes) : Option Bytes :=
  match scanNonNeg' body with
  | none => none
  | some (_, rest) =>
    match rest with
    | 46 :: d :: r => if isDig d then some ((d :: r).dropWhile isDig) else some rest
    | _ => some rest

theorem scanNumber_eq (s : Bytes) : YS.scanNumber s = scanNumBody (stripSign s) := rfl

theorem stripSign_minus (r : Bytes) : stripSign (45 :: r) = r := rfl
theorem stripSign_nil : stripSign [] = [] := rfl
theorem stripSign_cons (c : Nat) (r : Bytes) (h : c ≠ 45) : stripSign (c :: r) = c :: r := by
  unfold stripSign
  split
  · rename_i h'; simp at h'; exact absurd h'.1 h
  · rfl

/-- "0" / non-zero-digit *DIGIT -/
def NatShape (ip : Bytes) : Prop :=
  ip ≠ [] ∧ (∀ c ∈ ip, isDig c = true) ∧ (decide (ip.length > 1) && decide (ip.head? = some 48)) = false

/-- the text does not go on with a digit -/
def NoDig (t : Bytes) : Prop := ∀ c r, t = c :: r → isDig c = false

theorem dropWhile_head (p : Nat → Bool) (l : Bytes) (c : Nat) (r : Bytes) (h : l.dropWhile p = c :: r) :
    p c = false := by
  induction l with
  | nil => simp at h
  | cons a l ih =>
    rw [List.dropWhile_cons] at h
    by_cases ha : p a = true
    · rw [if_pos ha] at h; exact ih h
    · rw [if_neg ha] at h; simp at h; rw [← h.1]; simpa using ha

theorem NoDig_dropWhile (l : Bytes) : NoDig (l.dropWhile isDig) := fun c r h => dropWhile_head _ _ c r h

theorem digits_take (ip t : Bytes) (hd : ∀ c ∈ ip, isDig c = true) (ht : NoDig t) :
    (ip ++ t).takeWhile isDig = ip ∧ (ip ++ t).dropWhile isDig = t := by
  rw [takeWhile_pre _ _ _ hd, dropWhile_pre _ _ _ hd]
  cases t with
  | nil => simp
  | cons c r =>
    rw [takeWhile_stop _ _ _ (ht c r rfl), dropWhile_stop _ _ _ (ht c r rfl)]
    simp

theorem scanNonNeg_fwd (ip t : Bytes) (h : NatShape ip) (ht : NoDig t) : scanNonNeg' (ip ++ t) = some (ip, t) := by
  obtain ⟨h1, h2, h3⟩ := h
  unfold scanNonNeg'
  simp only
  rw [(digits_take ip t h2 ht).1, (digits_take ip t h2 ht).2]
  have : ip.isEmpty = false := by cases ip with | nil => exact absurd rfl h1 | cons _ _ => rfl
  rw [this, h3]
  rfl

theorem scanNonNeg_bwd (s ip r : Bytes) (h : scanNonNeg' s = some (ip, r)) :
    NatShape ip ∧ s = ip ++ r ∧ NoDig r := by
  unfold scanNonNeg' at h
  simp only at h
  split at h
  · simp at h
  · rename_i hc
    simp only [Option.some.injEq, Prod.mk.injEq] at h
    obtain ⟨rfl, rfl⟩ := h
    refine ⟨⟨?_, mem_takeWhile' _ _, ?_⟩, List.takeWhile_append_dropWhile.symm, NoDig_dropWhile _⟩
    · intro h0; rw [h0] at hc; simp at hc
    · simp only [Bool.or_eq_true, not_or, Bool.not_eq_true] at hc; exact hc.2


/-- nothing, or "." 1*DIGIT -/
def FracShape (fr : Bytes) : Prop := fr = [] ∨ ∃ d ds, fr = 46 :: d :: ds ∧ ∀ c ∈ d :: ds, isDig c = true

/-- ["-"] ("0" / non-zero-digit *DIGIT) ["." 1*DIGIT] -/
def NumShape (a : Bytes) : Prop :=
  ∃ sg ip fr, a = sg ++ (ip ++ fr) ∧ (sg = [] ∨ sg = [45]) ∧ NatShape ip ∧ FracShape fr

theorem stripSign_shape (sg ip x : Bytes) (hsg : sg = [] ∨ sg = [45]) (hip : NatShape ip) :
    stripSign (sg ++ (ip ++ x)) = ip ++ x := by
  rcases hsg with rfl | rfl
  · obtain ⟨h1, h2, _⟩ := hip
    cases ip with
    | nil => exact absurd rfl h1
    | cons c r =>
      have hc := h2 c (by simp)
      exact stripSign_cons c _ (by intro h; rw [h] at hc; simp [isDig] at hc)
  · rfl

theorem stripSign_decomp (s : Bytes) : ∃ sg, (sg = [] ∨ sg = [45]) ∧ s = sg ++ stripSign s := by
  cases s with
  | nil => exact ⟨[], Or.inl rfl, rfl⟩
  | cons c r =>
    by_cases hc : c = 45
    · subst hc; exact ⟨[45], Or.inr rfl, rfl⟩
    · exact ⟨[], Or.inl rfl, by rw [stripSign_cons c r hc]; rfl⟩

theorem FracShape_noDig {fr : Bytes} (h : FracShape fr) (t : Bytes) (ht : NoDig t) : NoDig (fr ++ t) := by
  rcases h with rfl | ⟨d, ds, rfl, _⟩
  · exact ht
  · intro c r h; simp at h; rw [← h.1]; decide

theorem numBody_of (ip fr : Bytes) (hip : NatShape ip) (hfr : FracShape fr) : numBody (ip ++ fr) = true := by
  have hnd : NoDig fr := by have := FracShape_noDig hfr [] (fun _ _ h => by simp at h); simpa using this
  obtain ⟨h1, h2, h3⟩ := hip
  unfold numBody
  simp only
  rw [(digits_take ip fr h2 hnd).1, (digits_take ip fr h2 hnd).2]
  have : ip.isEmpty = false := by cases ip with | nil => exact absurd rfl h1 | cons _ _ => rfl
  rw [this, h3]
  rcases hfr with rfl | ⟨d, ds, rfl, hd⟩
  · rfl
  · simp only [Bool.not_false, Bool.true_and, List.isEmpty_cons, List.all_eq_true]
    exact hd

theorem numBody_imp (body : Bytes) (h : numBody body = true) :
    ∃ ip fr, body = ip ++ fr ∧ NatShape ip ∧ FracShape fr := by
  unfold numBody at h
  simp only [Bool.and_eq_true, Bool.not_eq_true'] at h
  obtain ⟨⟨h1, h2⟩, h3⟩ := h
  refine ⟨body.takeWhile isDig, body.dropWhile isDig, List.takeWhile_append_dropWhile.symm,
    ⟨?_, mem_takeWhile' _ _, h2⟩, ?_⟩
  · intro h0; rw [h0] at h1; simp at h1
  · split at h3
    · rename_i h4; exact Or.inl h4
    · rename_i fr h4
      simp only [Bool.and_eq_true, Bool.not_eq_true', List.all_eq_true] at h3
      cases fr with
      | nil => simp at h3
      | cons d ds => exact Or.inr ⟨d, ds, h4, h3.2⟩
    · simp at h3

theorem numBoundaryOK_iff (a : Bytes) : numBoundaryOK a = true ↔ NumShape a := by
  rw [numBoundaryOK_eq]
  constructor
  · intro h
    obtain ⟨ip, fr, h1, h2, h3⟩ := numBody_imp _ h
    obtain ⟨sg, h4, h5⟩ := stripSign_decomp a
    exact ⟨sg, ip, fr, by rw [← h1]; exact h5, h4, h2, h3⟩
  · rintro ⟨sg, ip, fr, rfl, h1, h2, h3⟩
    rw [stripSign_shape sg ip fr h1 h2]
    exact numBody_of ip fr h2 h3

theorem scanNumBody_fwd (ip fr t : Bytes) (hip : NatShape ip) (hfr : FracShape fr) (ht : Stop t) :
    scanNumBody (ip ++ (fr ++ t)) = some t := by
  unfold scanNumBody
  rw [scanNonNeg_fwd ip (fr ++ t) hip (FracShape_noDig hfr t ht.1)]
  simp only
  rcases hfr with rfl | ⟨d, ds, rfl, hd⟩
  · simp only [List.nil_append]
    split
    · rename_i _ d r
      rw [if_neg]
      simp [ht.2 d r rfl]
    · rfl
  · simp only [List.cons_append]
    rw [if_pos (hd d (by simp))]
    have := (digits_take (d :: ds) t hd ht.1).2
    simp only [List.cons_append] at this
    rw [this]

theorem scanNumBody_bwd (body r : Bytes) (h : scanNumBody body = some r) :
    ∃ ip fr, body = (ip ++ fr) ++ r ∧ NatShape ip ∧ FracShape fr := by
  unfold scanNumBody at h
  cases h1 : scanNonNeg' body with
  | none => rw [h1] at h; simp at h
  | some p =>
    obtain ⟨ip, rest⟩ := p
    rw [h1] at h
    simp only at h
    obtain ⟨hip, hb, _⟩ := scanNonNeg_bwd _ _ _ h1
    split at h
    · rename_i d r' _
      by_cases hd : isDig d = true
      · rw [if_pos hd] at h
        simp only [Option.some.injEq] at h
        refine ⟨ip, 46 :: (d :: r').takeWhile isDig, ?_, hip, Or.inr ⟨d, r'.takeWhile isDig, ?_, ?_⟩⟩
        · rw [hb, ← h, List.append_assoc, List.cons_append, List.takeWhile_append_dropWhile]
        · rw [List.takeWhile_cons, if_pos hd]
        · have := mem_takeWhile' isDig (d :: r')
          rw [List.takeWhile_cons, if_pos hd] at this
          exact this
      · rw [if_neg hd] at h
        simp only [Option.some.injEq] at h
        exact ⟨ip, [], by rw [hb, h]; simp, hip, Or.inl rfl⟩
    · simp only [Option.some.injEq] at h
      exact ⟨ip, [], by rw [hb, h]; simp, hip, Or.inl rfl⟩

theorem scanNumber_fwd (a t : Bytes) (ha : NumShape a) (ht : Stop t) : YS.scanNumber (a ++ t) = some t := by
  obtain ⟨sg, ip, fr, rfl, h1, h2, h3⟩ := ha
  rw [scanNumber_eq, List.append_assoc, List.append_assoc, stripSign_shape sg ip _ h1 h2]
  exact scanNumBody_fwd ip fr t h2 h3 ht

theorem scanNumber_bwd (s r : Bytes) (h : YS.scanNumber s = some r) : ∃ a, s = a ++ r ∧ NumShape a := by
  rw [scanNumber_eq] at h
  obtain ⟨ip, fr, h1, h2, h3⟩ := scanNumBody_bwd _ _ h
  obtain ⟨sg, h4, h5⟩ := stripSign_decomp s
  refine ⟨sg ++ (ip ++ fr), ?_, ⟨sg, ip, fr, rfl, h4, h2, h3⟩⟩
  rw [List.append_assoc, ← h1]; exact h5

theorem isDig_tok (c : Nat) (h : isDig c = true) : tokChar c = true ∧ c ≠ 46 := by
  simp [isDig] at h
  simp [tokChar, isDig]
  omega

theorem NatShape_tokShape {ip : Bytes} (h : NatShape ip) : TokShape ip :=
  ⟨h.1, fun c hc => (isDig_tok c (h.2.1 c hc)).1, noDD_no46 _ (fun c hc => (isDig_tok c (h.2.1 c hc)).2)⟩

theorem NumShape_tokShape {a : Bytes} (h : NumShape a) : TokShape a := by
  obtain ⟨sg, ip, fr, rfl, h1, h2, h3⟩ := h
  have hip := NatShape_tokShape h2
  refine ⟨?_, ?_, ?_⟩
  · intro h0; simp at h0; exact hip.ne h0.2.1
  · intro c hc
    simp only [List.mem_append] at hc
    rcases hc with hc | hc | hc
    · rcases h1 with rfl | rfl
      · simp at hc
      · simp at hc; subst hc; decide
    · exact hip.chars c hc
    · rcases h3 with rfl | ⟨d, ds, rfl, hd⟩
      · simp at hc
      · rw [List.mem_cons] at hc
        rcases hc with rfl | hc
        · decide
        · exact (isDig_tok c (hd c hc)).1
  · apply noDD_append
    · rcases h1 with rfl | rfl <;> decide
    · apply noDD_append _ _ hip.nodd
      rcases h3 with rfl | ⟨d, ds, rfl, hd⟩
      · rfl
      · rw [noDD_dot_cons]
        simp only [Bool.and_eq_true, decide_eq_true_eq]
        exact ⟨(isDig_tok d (hd d (by simp))).2, noDD_no46 _ (fun c hc => (isDig_tok c (hd c hc)).2)⟩

/-! ### keywords in front of a number scanner -/

def kwScan (numScan : Bytes → Option Bytes) (s : Bytes) : Option Bytes :=
  match s with
  | 109 :: 105 :: 110 :: r => some r
  | 109 :: 97 :: 120 :: r => some r
  | _ => numScan s

theorem scanRangeBoundary_eq (s : Bytes) : YS.scanRangeBoundary s = kwScan YS.scanNumber s := rfl

theorem kwScan_ne (numScan : Bytes → Option Bytes) (s : Bytes) (h : ∀ c r, s = c :: r → c ≠ 109) :
    kwScan numScan s = numScan s := by
  unfold kwScan
  split
  · exact absurd rfl (h _ _ rfl)
  · exact absurd rfl (h _ _ rfl)
  · rfl

theorem boundaryLex_iff (numOK : Bytes → Bool) (a : Bytes) :
    boundaryLex numOK a = true ↔ a = [109, 105, 110] ∨ a = [109, 97, 120] ∨ numOK a = true := by
  simp [boundaryLex, msg_min, msg_max, or_assoc]

theorem kw_tokShape_min : TokShape [109, 105, 110] := ⟨by simp, by decide, by decide⟩
theorem kw_tokShape_max : TokShape [109, 97, 120] := ⟨by simp, by decide, by decide⟩

theorem kwScanner (numScan : Bytes → Option Bytes) (numOK : Bytes → Bool)
    (hfwd : ∀ a t, numOK a = true → Stop t → numScan (a ++ t) = some t)
    (hbwd : ∀ s r, numScan s = some r → ∃ a, s = a ++ r ∧ numOK a = true)
    (hshape : ∀ a, numOK a = true → TokShape a)
    (hhead : ∀ a, numOK a = true → ∀ c r, a = c :: r → c ≠ 109) :
    Scanner (kwScan numScan) (boundaryLex numOK) where
  fwd := by
    intro a t ha ht
    rw [boundaryLex_iff] at ha
    rcases ha with rfl | rfl | ha
    · rfl
    · rfl
    · rw [kwScan_ne]
      · exact hfwd a t ha ht
      · intro c r h
        have hne := (hshape a ha).ne
        cases a with
        | nil => exact absurd rfl hne
        | cons c' r' => simp at h; rw [← h.1]; exact hhead _ ha c' r' rfl
  bwd := by
    intro s r h
    unfold kwScan at h
    split at h
    · simp at h; subst h
      exact ⟨[109, 105, 110], rfl, (boundaryLex_iff _ _).2 (Or.inl rfl)⟩
    · simp at h; subst h
      exact ⟨[109, 97, 120], rfl, (boundaryLex_iff _ _).2 (Or.inr (Or.inl rfl))⟩
    · obtain ⟨a, h1, h2⟩ := hbwd s r h
      exact ⟨a, h1, (boundaryLex_iff _ _).2 (Or.inr (Or.inr h2))⟩
  shape := by
    intro a ha
    rw [boundaryLex_iff] at ha
    rcases ha with rfl | rfl | ha
    · exact kw_tokShape_min
    · exact kw_tokShape_max
    · exact hshape a ha

theorem NumShape_head {a : Bytes} (h : NumShape a) : ∀ c r, a = c :: r → c ≠ 109 := by
  obtain ⟨sg, ip, fr, rfl, h1, h2, h3⟩ := h
  intro c r h
  rcases h1 with rfl | rfl
  · obtain ⟨h4, h5, _⟩ := h2
    cases ip with
    | nil => exact absurd rfl h4
    | cons d ds =>
      simp at h
      have := h5 d (by simp)
      rw [h.1] at this
      intro hc; rw [hc] at this; simp [isDig] at this
  · simp at h; omega

theorem rangeScanner : Scanner YS.scanRangeBoundary (boundaryLex numBoundaryOK) := by
  have : YS.scanRangeBoundary = kwScan YS.scanNumber := funext scanRangeBoundary_eq
  rw [this]
  apply kwScanner
  · intro a t ha ht; exact scanNumber_fwd a t ((numBoundaryOK_iff a).1 ha) ht
  · intro s r h
    obtain ⟨a, h1, h2⟩ := scanNumber_bwd s r h
    exact ⟨a, h1, (numBoundaryOK_iff a).2 h2⟩
  · intro a ha; exact NumShape_tokShape ((numBoundaryOK_iff a).1 ha)
  · intro a ha; exact NumShape_head ((numBoundaryOK_iff a).1 ha)

/-- the split-and-trim check of the model accepts exactly what the ABNF scanner accepts -/
theorem rangeArgOK_eq (s : Bytes) : YS.rangeArgOK s = rangeLikeLex numBoundaryOK s :=
  scanParts_eq_lex rangeScanner s

/-! ### lengths -/

/-- the numeric boundary of a length: a non-negative integer that fits 64 bits -/
def lenOK (b : Bytes) : Bool := match nonNegDecimal b with | some n => decide (n < 2 ^ 64) | none => false

def lenScan (s : Bytes) : Option Bytes :=
  match YS.scanNonNeg s with
  | some (ds, rest) => if YS.natOfDigits ds < 2 ^ 64 then some rest else none
  | none => none

theorem scanLengthBoundary_eq (s : Bytes) : YS.scanLengthBoundary s = kwScan lenScan s := rfl

theorem nonNegDecimal_of (a : Bytes) (h : NatShape a) : nonNegDecimal a = some (YS.natOfDigits a) := by
  obtain ⟨h1, h2, h3⟩ := h
  unfold nonNegDecimal
  split
  · exact absurd rfl h1
  · rfl
  · rename_i c r hne
    have hc := h2 c (by simp)
    have hr : r.all isDig = true := by rw [List.all_eq_true]; exact fun x hx => h2 x (by simp [hx])
    have h49 : (decide (49 ≤ c) && decide (c ≤ 57)) = true := by
      simp only [isDig, Bool.and_eq_true, decide_eq_true_eq] at hc
      simp only [Bool.and_eq_true, decide_eq_true_eq]
      refine ⟨?_, hc.2⟩
      cases r with
      | nil =>
        have : c ≠ 48 := by intro h; subst h; exact hne rfl rfl
        omega
      | cons d ds =>
        simp at h3
        omega
    rw [h49, hr]
    rfl

theorem nonNegDecimal_imp (a : Bytes) (n : Nat) (h : nonNegDecimal a = some n) :
    NatShape a ∧ n = YS.natOfDigits a := by
  unfold nonNegDecimal at h
  split at h
  · simp at h
  · simp at h; subst h
    exact ⟨⟨by simp, by decide, by decide⟩, rfl⟩
  · rename_i c r hne
    split at h
    · rename_i hc
      simp only [Bool.and_eq_true, decide_eq_true_eq, List.all_eq_true] at hc
      simp only [Option.some.injEq] at h
      refine ⟨⟨by simp, ?_, ?_⟩, by rw [← h]; rfl⟩
      · intro x hx
        simp at hx
        rcases hx with rfl | hx
        · simp [isDig]; omega
        · exact hc.2 x hx
      · have : c ≠ 48 := by omega
        simp [this]
    · simp at h

theorem lenOK_iff (a : Bytes) : lenOK a = true ↔ NatShape a ∧ YS.natOfDigits a < 2 ^ 64 := by
  unfold lenOK
  constructor
  · intro h
    cases h1 : nonNegDecimal a with
    | none => rw [h1] at h; simp at h
    | some n =>
      rw [h1] at h
      obtain ⟨h2, h3⟩ := nonNegDecimal_imp a n h1
      simp only [decide_eq_true_eq] at h
      exact ⟨h2, h3 ▸ h⟩
  · rintro ⟨h1, h2⟩
    rw [nonNegDecimal_of a h1]
    simp only [decide_eq_true_eq]
    exact h2

theorem lengthScanner : Scanner YS.scanLengthBoundary (boundaryLex lenOK) := by
  have : YS.scanLengthBoundary = kwScan lenScan := funext scanLengthBoundary_eq
  rw [this]
  apply kwScanner
  · intro a t ha ht
    obtain ⟨h1, h2⟩ := (lenOK_iff a).1 ha
    unfold lenScan
    rw [scanNonNeg_eq, scanNonNeg_fwd a t h1 ht.1]
    simp only
    rw [if_pos h2]
  · intro s r h
    unfold lenScan at h
    cases h1 : YS.scanNonNeg s with
    | none => rw [h1] at h; simp at h
    | some p =>
      obtain ⟨ds, rest⟩ := p
      rw [h1] at h
      simp only at h
      rw [scanNonNeg_eq] at h1
      obtain ⟨h2, h3, _⟩ := scanNonNeg_bwd _ _ _ h1
      split at h
      · rename_i hlt
        simp at h; subst h
        exact ⟨ds, h3, (lenOK_iff ds).2 ⟨h2, hlt⟩⟩
      · simp at h
  · intro a ha; exact NatShape_tokShape ((lenOK_iff a).1 ha).1
  · intro a ha c r h
    have := ((lenOK_iff a).1 ha).1.2.1 c (by rw [h]; simp)
    intro hc; rw [hc] at this; simp [isDig] at this

/-- the same for lengths -/
theorem lengthArgOK_eq (s : Bytes) :
    YS.lengthArgOK s =
      rangeLikeLex (fun b => match nonNegDecimal b with | some n => decide (n < 2 ^ 64) | none => false) s :=
  scanParts_eq_lex (numOK := lenOK) lengthScanner s

end YV.YC

#print axioms YV.YC.rangeLikeOK_eq
#print axioms YV.YC.rangeArgOK_eq
#print axioms YV.YC.lengthArgOK_eq
