/-
  Proofs.YArg — RFC 6020 §6.1.3 argument decoding.
  * the code's Split-on-backslash substitution equals the left-to-right scan for every text that uses
    only the escapes the RFC defines (\n \t \" \\);
  * escaping a value and decoding it gives the value back;
  * the code's column-stripping equals the specification's.
-/
import YV.Spec.YArg
namespace YV.YS
open YV YV.Y

/-! ### trimLeadWS = stripColumns -/

theorem trimLeadWS_eq (col : Nat) (hc : col ≥ 1) (l : Bytes) (w : Nat) (hw : w < col) :
    trimLeadWS col w l = stripColumns col w l := by
  induction l generalizing w with
  | nil => simp [trimLeadWS, stripColumns]
  | cons c r ih =>
    have hnot : ¬ w ≥ col := by omega
    simp only [trimLeadWS, stripColumns, hnot, ↓reduceIte]
    by_cases h32 : c = 32
    · simp only [h32, ↓reduceIte]
      by_cases h : w + 1 ≥ col
      · have : w + 1 - col = 0 := by omega
        simp only [h, ↓reduceIte, this, List.replicate_zero, List.nil_append]
        cases r with
        | nil => simp [stripColumns]
        | cons d r' => simp [stripColumns, h]
      · simp only [h, ↓reduceIte]
        exact ih (w + 1) (by omega)
    · simp only [h32, ↓reduceIte]
      by_cases h9 : c = 9
      · simp only [h9, ↓reduceIte]
        by_cases h : w + 8 ≥ col
        · simp only [h, ↓reduceIte]
          by_cases h' : w + 8 > col
          · simp [h']
          · have : w + 8 - col = 0 := by omega
            simp only [h', ↓reduceIte, this, List.replicate_zero, List.nil_append]
            cases r with
            | nil => simp [stripColumns]
            | cons d r' => simp [stripColumns]; omega
        · have h' : ¬ w + 8 > col := by omega
          simp only [h, h', ↓reduceIte]
          exact ih (w + 8) (by omega)
      · simp [h9]

/-! ### unescape ∘ escape = id -/

/-- how a value is written inside double quotes: `"` and `\` are escaped; optionally line feed and tab -/
def escapeStr (escWS : Bool) : Bytes → Bytes
  | [] => []
  | c :: r =>
    if c = 34 then 92 :: 34 :: escapeStr escWS r
    else if c = 92 then 92 :: 92 :: escapeStr escWS r
    else if escWS && c = 10 then 92 :: 110 :: escapeStr escWS r
    else if escWS && c = 9 then 92 :: 116 :: escapeStr escWS r
    else c :: escapeStr escWS r

theorem unescape_ne (c : Nat) (r : Bytes) (h : c ≠ 92) : unescape (c :: r) = c :: unescape r :=
  unescape.eq_3 c r (by intro c' r' h1 _; exact h h1)

theorem unescape_pair (c : Nat) (r : Bytes) :
    unescape (92 :: c :: r) =
      if c = 110 then 10 :: unescape r else if c = 116 then 9 :: unescape r
      else if c = 34 then 34 :: unescape r else if c = 92 then 92 :: unescape r else 92 :: c :: unescape r :=
  unescape.eq_2 c r

theorem unescape_escapeStr (b : Bool) (v : Bytes) : unescape (escapeStr b v) = v := by
  induction v with
  | nil => simp [escapeStr, unescape]
  | cons c r ih =>
    simp only [escapeStr]
    by_cases h1 : c = 34
    · simp [h1, unescape_pair, ih]
    · by_cases h2 : c = 92
      · simp [h2, unescape_pair, ih]
      · by_cases h3 : (b && decide (c = 10)) = true
        · simp only [h1, h2, h3, ↓reduceIte]
          simp at h3
          simp [unescape_pair, ih, h3.2]
        · by_cases h4 : (b && decide (c = 9)) = true
          · simp only [h1, h2, h3, h4, ↓reduceIte]
            simp at h4
            simp [unescape_pair, ih, h4.2]
          · simp only [h1, h2, h3, h4, ↓reduceIte, Bool.false_eq_true]
            rw [unescape_ne c _ h2, ih]

/-! ### the Split-on-backslash algorithm = the left-to-right scan -/

def No92 (p : Bytes) : Prop := ∀ x ∈ p, x ≠ 92

def tailText : List Bytes → Bytes
  | [] => []
  | q :: more => 92 :: q ++ tailText more

/-- the raw text that is still to be processed when `escapeSubst.go` is at part `i` with flag `skip` -/
def restText (i : Nat) (skip : Bool) : List Bytes → Bytes
  | [] => []
  | p :: more => (if i = 0 ∨ skip = true then [] else [92]) ++ p ++ tailText more

theorem restText_succ (i : Nat) (more : List Bytes) : restText (i + 1) false more = tailText more := by
  cases more <;> simp [restText, tailText]

theorem unescape_append_no92 (p x : Bytes) (h : No92 p) : unescape (p ++ x) = p ++ unescape x := by
  induction p with
  | nil => rfl
  | cons c r ih =>
    have hc : c ≠ 92 := h c (by simp)
    rw [List.cons_append, unescape_ne _ _ hc, ih (fun y hy => h y (by simp [hy]))]
    rfl

theorem hasEscape_ne (cs : List Nat) (c : Nat) (r : Bytes) (h : c ≠ 92) : hasEscape cs (c :: r) = hasEscape cs r :=
  hasEscape.eq_2 cs c r (by intro c' r' h1 _; exact h h1)

theorem hasEscape_append_no92 (cs : List Nat) (p x : Bytes) (h : No92 p) : hasEscape cs (p ++ x) = hasEscape cs x := by
  induction p with
  | nil => rfl
  | cons c r ih =>
    have hc : c ≠ 92 := h c (by simp)
    rw [List.cons_append, hasEscape_ne _ _ _ hc, ih (fun y hy => h y (by simp [hy]))]

theorem go_eq (parts : List Bytes) (hp : ∀ p ∈ parts, No92 p) (i : Nat) (skip : Bool) (rs : Bytes)
    (hr : hasEscape [114] (restText i skip parts) = false) :
    escapeSubst.go i skip rs parts = rs ++ unescape (restText i skip parts) := by
  induction parts generalizing i skip rs with
  | nil => simp [escapeSubst.go, restText, unescape]
  | cons p more ih =>
    have hmore : ∀ q ∈ more, No92 q := fun q hq => hp q (by simp [hq])
    have hp0 : No92 p := hp p (by simp)
    cases p with
    | nil =>
      simp only [escapeSubst.go, List.isEmpty_nil, ↓reduceIte]
      by_cases hc : (!skip && decide (i > 0)) = true
      · have hi : ¬ (i = 0 ∨ skip = true) := by
          simp at hc; intro h; rcases h with h | h
          · omega
          · simp [h] at hc
        simp only [hc, ↓reduceIte]
        cases more with
        | nil =>
          rw [ih hmore]
          · simp [restText, hi, tailText, unescape]
          · simp [restText, hasEscape]
        | cons q m' =>
          have hq : No92 q := hmore q (by simp)
          simp only [restText, hi, ↓reduceIte, tailText, List.append_nil, List.nil_append, List.cons_append] at hr ⊢
          rw [ih hmore]
          · simp [restText, unescape_pair]
          · simp only [restText, true_or, or_true, ↓reduceIte, List.nil_append]
            have := hr
            rw [hasEscape.eq_1] at this
            simp at this
            simpa using this
      · have hi : (i = 0 ∨ skip = true) := by
          simp at hc
          by_cases h0 : i = 0
          · exact Or.inl h0
          · right; cases skip <;> simp_all
        simp only [hc, Bool.false_eq_true, ↓reduceIte]
        have hr2 : hasEscape [114] (tailText more) = false := by
          simpa [restText, hi] using hr
        rw [ih hmore _ _ _ (by rw [restText_succ]; exact hr2), restText_succ]
        simp [restText, hi]
    | cons c tl =>
      have htl : No92 tl := fun y hy => hp0 y (by simp [hy])
      have hc92 : c ≠ 92 := hp0 c (by simp)
      simp only [escapeSubst.go, List.isEmpty_cons, Bool.false_eq_true, ↓reduceIte]
      by_cases hc : (decide (i > 0) && !skip) = true
      · have hi : ¬ (i = 0 ∨ skip = true) := by
          simp at hc; intro h; rcases h with h | h
          · omega
          · simp [h] at hc
        have hs : skip = false := by cases skip <;> simp_all
        subst hs
        simp only [hc, ↓reduceIte]
        simp only [restText, hi, ↓reduceIte, List.cons_append, List.nil_append, List.append_assoc] at hr ⊢
        have hne : c ≠ 114 := by
          intro e; subst e
          rw [hasEscape.eq_1] at hr; simp at hr
        have hr' : hasEscape [114] (tailText more) = false := by
          rw [hasEscape.eq_1] at hr
          simp only [Bool.or_eq_false_iff] at hr
          have := hr.2
          rwa [hasEscape_append_no92 _ _ _ htl] at this
        have hrest : ∀ rs', escapeSubst.go (i + 1) false rs' more = rs' ++ unescape (tailText more) := by
          intro rs'
          rw [ih hmore _ _ _ (by rw [restText_succ]; exact hr'), restText_succ]
        rw [unescape_pair, unescape_append_no92 _ _ htl]
        by_cases h110 : c = 110
        · subst h110; simp [escOf, hrest]
        · by_cases h116 : c = 116
          · subst h116; simp [escOf, hrest]
          · by_cases h34 : c = 34
            · subst h34; simp [escOf, hrest]
            · have he : escOf c = none := by simp [escOf, h110, hne, h116, h34, hc92]
              simp only [he, hrest, h110, h116, h34, hc92, ↓reduceIte]; simp
      · have hi : (i = 0 ∨ skip = true) := by
          simp at hc
          by_cases h0 : i = 0
          · exact Or.inl h0
          · right; exact hc (by omega)
        simp only [hc, Bool.false_eq_true, ↓reduceIte]
        have hr' : hasEscape [114] (tailText more) = false := by
          simp only [restText, hi, ↓reduceIte, List.nil_append] at hr
          rwa [hasEscape_append_no92 _ _ _ hp0] at hr
        rw [ih hmore _ _ _ (by rw [restText_succ]; exact hr'), restText_succ]
        simp only [restText, hi, ↓reduceIte, List.nil_append]
        rw [unescape_append_no92 _ _ hp0]
        simp

theorem tailText_snoc (l : List Bytes) (p : Bytes) : tailText (l ++ [p]) = tailText l ++ 92 :: p := by
  induction l with
  | nil => simp [tailText]
  | cons a l ih => simp [tailText, ih]

/-- the parts joined by backslashes -/
def joinBS (l : List Bytes) : Bytes := restText 0 false l

theorem joinBS_snoc_ext (l : List Bytes) (p q : Bytes) : joinBS (l ++ [p ++ q]) = joinBS (l ++ [p]) ++ q := by
  cases l with
  | nil => simp [joinBS, restText, tailText]
  | cons a l => simp [joinBS, restText, tailText_snoc]

theorem joinBS_snoc_empty (l : List Bytes) (p : Bytes) : joinBS (l ++ [p] ++ [[]]) = joinBS (l ++ [p]) ++ [92] := by
  cases l with
  | nil => simp [joinBS, restText, tailText]
  | cons a l =>
    have h1 : l ++ [p] ++ [[]] = (l ++ [p]) ++ [[]] := rfl
    simp only [joinBS, restText, List.cons_append, true_or, ↓reduceIte, List.nil_append]
    rw [tailText_snoc, tailText_snoc]
    simp

theorem splitGo_join (s cur : Bytes) (acc : List Bytes) :
    joinBS (splitOn92.go cur acc s) = joinBS (acc.reverse ++ [cur.reverse]) ++ s := by
  induction s generalizing cur acc with
  | nil => simp [splitOn92.go]
  | cons c r ih =>
    simp only [splitOn92.go]
    by_cases h : c = 92
    · subst h
      simp only [↓reduceIte]
      rw [ih]
      simp only [List.reverse_cons, List.reverse_nil]
      rw [joinBS_snoc_empty]
      simp
    · simp only [h, ↓reduceIte]
      rw [ih]
      simp only [List.reverse_cons]
      rw [joinBS_snoc_ext]
      simp

theorem splitGo_no92 (s cur : Bytes) (acc : List Bytes) (hc : No92 cur) (ha : ∀ p ∈ acc, No92 p) :
    ∀ p ∈ splitOn92.go cur acc s, No92 p := by
  induction s generalizing cur acc with
  | nil =>
    simp only [splitOn92.go]
    intro p hp
    simp only [List.reverse_cons, List.mem_append, List.mem_reverse, List.mem_singleton] at hp
    rcases hp with hp | hp
    · exact ha p hp
    · subst hp; intro x hx; exact hc x (by simpa using hx)
  | cons c r ih =>
    simp only [splitOn92.go]
    by_cases h : c = 92
    · subst h
      simp only [↓reduceIte]
      apply ih
      · intro x hx; cases hx
      · intro p hp
        simp only [List.mem_cons] at hp
        rcases hp with hp | hp
        · subst hp; intro x hx; exact hc x (by simpa using hx)
        · exact ha p hp
    · simp only [h, ↓reduceIte]
      apply ih
      · intro x hx
        simp only [List.mem_cons] at hx
        rcases hx with hx | hx
        · subst hx; exact h
        · exact hc x hx
      · exact ha

/-- **`escapeSequenceSubstitution` is the left-to-right scan** for every text without a `\r` pair
    (RFC 6020 does not define `\r`; the code turns it into CR). -/
theorem escapeSubst_eq_unescape (s : Bytes) (h : hasEscape [114] s = false) : escapeSubst s = unescape s := by
  unfold escapeSubst
  by_cases he : s.isEmpty = true
  · simp only [he, ↓reduceIte]
    cases s with
    | nil => rfl
    | cons a b => simp at he
  · simp only [he, Bool.false_eq_true, ↓reduceIte]
    have hj : restText 0 false (splitOn92 s) = s := by
      have := splitGo_join s [] []
      simpa [joinBS, splitOn92, restText, tailText] using this
    rw [go_eq (splitOn92 s) (splitGo_no92 s [] [] (fun x hx => by cases hx) (fun p hp => by cases hp)) 0 false []
      (by rw [hj]; exact h), hj]
    rfl

end YV.YS
