/-
  Proofs.YLex — the YANG lexer always finishes with an EOF or an Error item (no input can make the
  repaired state machine spin or run out of the fuel the model gives it), and nothing is lost: the parser's
  view through separators is the view without them.
-/
import YV.Model.YParse
namespace YV.Y

def Ends (l : List Item) : Prop := ∃ init last, l = init ++ [last] ∧ (last.typ = .eof ∨ last.typ = .error)

theorem ends_cons {l : List Item} (a : Item) (h : Ends l) : Ends (a :: l) := by
  obtain ⟨i, x, rfl, hx⟩ := h
  exact ⟨a :: i, x, rfl, hx⟩

theorem ends_append {l : List Item} (p : List Item) (h : Ends l) : Ends (p ++ l) := by
  obtain ⟨i, x, rfl, hx⟩ := h
  exact ⟨p ++ i, x, by simp, hx⟩

theorem ends_single (a : Item) (h : a.typ = .eof ∨ a.typ = .error) : Ends [a] := ⟨[], a, rfl, h⟩

theorem ends_two (a b : Item) (h : b.typ = .eof ∨ b.typ = .error) : Ends [a, b] := ⟨[a], b, rfl, h⟩

theorem scanQuoted_rest_le (q : Nat) (f : Nat) (r s rest : Bytes) (h : scanQuoted q f r = some (s, rest)) :
    rest.length ≤ r.length ∧ rest ≠ [] := by
  induction f generalizing r s rest with
  | zero => simp [scanQuoted] at h
  | succ f ih =>
    cases r with
    | nil => simp [scanQuoted] at h
    | cons c r =>
      simp only [scanQuoted] at h
      split at h
      · split at h
        · cases h1 : scanQuoted q f r with
          | none => simp [h1] at h
          | some v =>
            obtain ⟨s', rest'⟩ := v
            simp [h1] at h
            obtain ⟨_, rfl⟩ := h
            have := ih r s' rest' h1
            exact ⟨by simp; omega, this.2⟩
        · cases r with
          | nil => simp at h
          | cons d r' =>
            simp only at h
            cases h1 : scanQuoted q f r' with
            | none => simp [h1] at h
            | some v =>
              obtain ⟨s', rest'⟩ := v
              simp [h1] at h
              obtain ⟨_, rfl⟩ := h
              have := ih r' s' rest' h1
              exact ⟨by simp; omega, this.2⟩
      · split at h
        · simp at h
          obtain ⟨_, rfl⟩ := h
          simp
        · cases h1 : scanQuoted q f r with
          | none => simp [h1] at h
          | some v =>
            obtain ⟨s', rest'⟩ := v
            simp [h1] at h
            obtain ⟨_, rfl⟩ := h
            have := ih r s' rest' h1
            exact ⟨by simp; omega, this.2⟩

/-- with more fuel than input, the (repaired) lexer yields a list that ends in EOF or Error -/
theorem lexItems_ends (f : Nat) (rest : Bytes) (pos depth : Nat) (hf : rest.length < f) :
    ∃ l, lexItems true f rest pos depth = some l ∧ Ends l := by
  induction f generalizing rest pos depth with
  | zero => omega
  | succ f ih =>
    cases rest with
    | nil =>
      simp only [lexItems]
      split
      · exact ⟨_, rfl, ends_single _ (Or.inr rfl)⟩
      · exact ⟨_, rfl, ends_single _ (Or.inl rfl)⟩
    | cons c r =>
      simp only [List.length_cons] at hf
      have hr : r.length < f := by omega
      simp only [lexItems]
      split
      · -- /* comment
        split
        · exact ⟨_, rfl, ends_single _ (Or.inr rfl)⟩
        · rename_i i _
          obtain ⟨l, h1, h2⟩ := ih (r.drop (1 + i + 2)) (pos + 2 + i + 2) depth (by simp; omega)
          exact ⟨l, h1, h2⟩
      · split
        · -- // comment
          split
          · -- ending with the text
            obtain ⟨l, h1, h2⟩ := ih [] (pos + 2 + (r.drop 1).length) depth (by simp; omega)
            exact ⟨l, h1, h2⟩
          · rename_i i _
            obtain ⟨l, h1, h2⟩ := ih (r.drop (1 + i + 1)) (pos + 2 + i + 1) depth (by simp; omega)
            exact ⟨l, h1, h2⟩
        · split
          · -- separator run
            obtain ⟨l, h1, h2⟩ := ih (r.drop (r.takeWhile isSep).length) (pos + 1 + (r.takeWhile isSep).length) depth (by simp; omega)
            rw [h1]; exact ⟨_, rfl, ends_cons _ h2⟩
          · split
            · -- quoted string
              split
              · exact ⟨_, rfl, ends_two _ _ (Or.inr rfl)⟩
              · rename_i s rest' hsc
                have hle := scanQuoted_rest_le c (r.length + 1) r s rest' hsc
                obtain ⟨l, h1, h2⟩ := ih (rest'.drop 1) (pos + 1 + s.length + 1) depth (by simp; omega)
                rw [h1]; exact ⟨_, rfl, ends_append _ h2⟩
            · split
              · obtain ⟨l, h1, h2⟩ := ih r (pos + 1) (depth + 1) hr
                rw [h1]; exact ⟨_, rfl, ends_cons _ h2⟩
              · split
                · split
                  · exact ⟨_, rfl, ends_two _ _ (Or.inr rfl)⟩
                  · obtain ⟨l, h1, h2⟩ := ih r (pos + 1) (depth - 1) hr
                    rw [h1]; exact ⟨_, rfl, ends_cons _ h2⟩
                · split
                  · obtain ⟨l, h1, h2⟩ := ih r (pos + 1) depth hr
                    rw [h1]; exact ⟨_, rfl, ends_cons _ h2⟩
                  · split
                    · obtain ⟨l, h1, h2⟩ := ih r (pos + 1) depth hr
                      rw [h1]; exact ⟨_, rfl, ends_cons _ h2⟩
                    · -- unquoted string: the first byte is not a terminator, so the run is non-empty
                      rename_i h1 h2 h3 h4 h5 h6 h7 h8
                      have hnt : isTerminator c = false := by
                        simp only [isTerminator, Bool.or_eq_false_iff, decide_eq_false_iff_not]
                        simp_all
                      have hrun : ((c :: r).takeWhile (fun x => !isTerminator x)).length ≥ 1 := by
                        simp [List.takeWhile, hnt]
                      obtain ⟨l, hl1, hl2⟩ := ih ((c :: r).drop ((c :: r).takeWhile (fun x => !isTerminator x)).length)
                        (pos + ((c :: r).takeWhile (fun x => !isTerminator x)).length) depth
                        (by simp only [List.length_drop, List.length_cons]; omega)
                      simp only [List.isEmpty_iff, Bool.not_true, Bool.and_false, Bool.false_eq_true, ↓reduceIte]
                      rw [hl1]; exact ⟨_, rfl, ends_cons _ hl2⟩

/-- **the lexer goroutine always terminates its stream**: for every input the item list exists (no
    divergence) and ends with EOF or an Error item -/
theorem lex_total (input : Bytes) : ∃ l, lex true input = some l ∧ Ends l :=
  lexItems_ends (input.length + 2) input 0 0 (by omega)

/-! ### separators are invisible to the parser -/

def AllSep (l : List Item) : Prop := ∀ it ∈ l, it.typ = .sep

theorem peekNS_skip (seps rest : List Item) (h : AllSep seps) (s : PS) (f : Nat) :
    ∃ s' : PS, peekNS (f + seps.length) { s with items := seps ++ rest } =
      peekNS f { s' with items := rest } ∧ s'.items = rest := by
  induction seps generalizing s with
  | nil => exact ⟨{ s with items := rest }, by simp, rfl⟩
  | cons a seps ih =>
    have ha : a.typ = .sep := h a (by simp)
    have : f + (a :: seps).length = (f + seps.length) + 1 := by simp [Nat.add_assoc]
    rw [this]
    simp only [peekNS, List.cons_append, ha, ↓reduceIte]
    obtain ⟨s', h1, h2⟩ := ih (fun x hx => h x (by simp [hx])) { items := seps ++ rest, taken := s.taken + 1, lastPos := a.pos }
    exact ⟨s', by simpa using h1, h2⟩

end YV.Y
