/-
  Proofs.YLayout — the layout rules of double-quoted strings (RFC 6020 §6.1.3): for every text without a
  backslash, every quote column and every arrangement of lines (LF or CRLF, blank lines, blanks and tabs in
  front of and behind the text of a line) the decoder of parse.go (`trimWhitespace`) yields exactly what the
  specification reads off the source: trailing blanks before a line break removed, indentation of
  continuation lines removed up to the column of the opening quote, a tab counting eight columns.
-/
import YV.Proofs.YArg
namespace YV.YS
open YV YV.Y

/-- one line of the text, as the code treats it (index `i` of `n` lines) -/
def mLine (col n i : Nat) (st : Bytes) : Bytes :=
  let str := if i > 0 then trimLeadWS col 0 st else st
  if str.isEmpty then (if i + 1 ≠ n then [10] else [])
  else if i + 1 ≠ n then
    let (body, cr) := match str.reverse with
      | 13 :: b => (b.reverse, true)
      | _ => (str, false)
    trimRightBlanks body ++ (if cr then [13, 10] else [10])
  else str

/-- one line of the text, as the specification reads it -/
def sLine (col n i : Nat) (l : Bytes) : Bytes :=
  let tb : Bytes × Bytes := if i + 1 = n then (l, []) else match l.reverse with
    | 13 :: b => (b.reverse, [13, 10])
    | _ => (l, [10])
  let l1 := if i > 0 then stripColumns col 0 tb.1 else tb.1
  let l2 := if tb.2.isEmpty then l1 else stripTrailing l1
  l2 ++ tb.2

theorem go_eq_map (col n : Nat) (lines : List Bytes) (i : Nat) :
    trimWhitespace.go col n i lines = ((lines.zipIdx i).map fun p => mLine col n p.2 p.1).flatten := by
  induction lines generalizing i with
  | nil => simp [trimWhitespace.go]
  | cons st more ih =>
    simp only [trimWhitespace.go, List.zipIdx_cons, List.map_cons, List.flatten_cons, ih (i + 1)]
    rfl

theorem stripColumns_snoc13 (col : Nat) (b : Bytes) (w : Nat) :
    stripColumns col w (b ++ [13]) = stripColumns col w b ++ [13] := by
  induction b generalizing w with
  | nil => simp [stripColumns]
  | cons c r ih =>
    simp only [List.cons_append, stripColumns]
    split
    · rfl
    · split
      · exact ih _
      · split
        · split
          · simp
          · exact ih _
        · rfl

/-- the last element of what column stripping leaves is the last element of the line, or a blank -/
theorem stripColumns_last (col : Nat) (l : Bytes) (w : Nat) (x : Nat) (r : Bytes)
    (h : (stripColumns col w l).reverse = x :: r) : x = 32 ∨ ∃ r', l.reverse = x :: r' := by
  induction l generalizing w with
  | nil => simp [stripColumns] at h
  | cons c t ih =>
    simp only [stripColumns] at h
    split at h
    · exact .inr ⟨_, h⟩
    · split at h
      · rcases ih _ h with h1 | ⟨r', h1⟩
        · exact .inl h1
        · exact .inr ⟨r' ++ [c], by simp [h1]⟩
      · split at h
        · split at h
          · -- replicate k 32 ++ t
            cases ht : t.reverse with
            | nil =>
              have : t = [] := by simpa using ht
              subst this
              simp only [List.append_nil, List.reverse_replicate] at h
              cases hk : w + 8 - col with
              | zero => rw [hk] at h; simp at h
              | succ k => rw [hk] at h; simp [List.replicate_succ] at h; exact .inl h.1.symm
            | cons y ys =>
              simp only [List.reverse_append, ht, List.cons_append] at h
              injection h with h1 h2
              exact .inr ⟨ys ++ [c], by simp [ht, h1]⟩
          · rcases ih _ h with h1 | ⟨r', h1⟩
            · exact .inl h1
            · exact .inr ⟨r' ++ [c], by simp [h1]⟩
        · exact .inr ⟨_, h⟩


theorem trimRight_eq (b : Bytes) : trimRightBlanks b = stripTrailing b := rfl

/-- **per line the code and the specification agree** -/
theorem mLine_eq_sLine (col n i : Nat) (hc : col ≥ 1) (st : Bytes) : mLine col n i st = sLine col n i st := by
  -- the stripping of leading columns, as a function (identity on the first line)
  have hS : ∀ l : Bytes, (if i > 0 then trimLeadWS col 0 l else l) = (if i > 0 then stripColumns col 0 l else l) := by
    intro l; split
    · exact trimLeadWS_eq col hc l 0 (by omega)
    · rfl
  unfold mLine sLine
  simp only [hS]
  generalize hSdef : (fun l : Bytes => if i > 0 then stripColumns col 0 l else l) = S
  have hSapp : ∀ l, (if i > 0 then stripColumns col 0 l else l) = S l := by intro l; rw [← hSdef]
  simp only [hSapp]
  have hS13 : ∀ b : Bytes, S (b ++ [13]) = S b ++ [13] := by
    intro b; rw [← hSdef]; simp only []; split
    · exact stripColumns_snoc13 col b 0
    · rfl
  have hSlast : ∀ (l : Bytes) (x : Nat) (r : Bytes), (S l).reverse = x :: r → x = 32 ∨ ∃ r', l.reverse = x :: r' := by
    intro l x r h; rw [← hSdef] at h; simp only [] at h; split at h
    · exact stripColumns_last col l 0 x r h
    · exact .inr ⟨r, h⟩
  by_cases hlast : i + 1 = n
  · -- the last line: no line break follows
    simp only [hlast, ne_eq, not_true_eq_false, ↓reduceIte, List.isEmpty_nil, List.append_nil]
    split
    · rename_i he; simpa using he
    · rfl
  · simp only [hlast, ne_eq, not_false_eq_true, ↓reduceIte]
    cases hr : st.reverse with
    | nil =>
      have : st = [] := by simpa using hr
      subst this
      have hS0 : S [] = [] := by rw [← hSdef]; simp [stripColumns]
      simp [hS0, stripTrailing]
    | cons x r =>
      by_cases hx : x = 13
      · -- the line ends with CR
        subst hx
        have hst : st = r.reverse ++ [13] := by
          have := congrArg List.reverse hr; simpa using this
        simp only []
        rw [hst, hS13]
        have hne : (S r.reverse ++ [13]).isEmpty = false := by simp
        simp only [hne, Bool.false_eq_true, ↓reduceIte, List.reverse_append, List.reverse_cons, List.reverse_nil,
          List.nil_append, List.singleton_append, List.reverse_reverse, List.cons_append]
        simp [trimRight_eq]
      · -- no CR at the end
        have hm : (match (x :: r : Bytes) with
            | 13 :: b => (b.reverse, ([13, 10] : Bytes))
            | _ => (st, [10])) = (st, [10]) := by
          split
          · rename_i h; injection h with h1 _; exact absurd h1 hx
          · rfl
        simp only [hm, List.isEmpty_cons, Bool.false_eq_true, ↓reduceIte]
        by_cases he : (S st).isEmpty = true
        · have : S st = [] := by simpa using he
          simp [he, this, stripTrailing]
        · simp only [he, Bool.false_eq_true, ↓reduceIte]
          cases hsr : (S st).reverse with
          | nil => have : S st = [] := by simpa using hsr
                   simp [this] at he
          | cons y ys =>
            have hy : y ≠ 13 := by
              rcases hSlast st y ys hsr with h32 | ⟨r', hr'⟩
              · omega
              · rw [hr] at hr'; injection hr' with h1 _; omega
            have hm2 : (match (y :: ys : Bytes) with
                | 13 :: b => (b.reverse, true)
                | _ => (S st, false)) = (S st, false) := by
              split
              · rename_i h; injection h with h1 _; exact absurd h1 hy
              · rfl
            simp [hm2, trimRight_eq]


theorem zipIdx_map_idx {α β : Type} (l : List α) (k : Nat) (f : α × Nat → β) :
    ((l.zipIdx k).map f).zipIdx k = (l.zipIdx k).map (fun p => (f p, p.2)) := by
  induction l generalizing k with
  | nil => rfl
  | cons a r ih => simp only [List.zipIdx_cons, List.map_cons, ih (k + 1)]

/-- the specification, line by line -/
theorem decodeDQ_lines (col : Nat) (raw : Bytes) :
    decodeDQ col raw =
      unescape (((splitLF raw).zipIdx.map fun p => sLine col (splitLF raw).length p.2 p.1).flatten) := by
  unfold decodeDQ rawLines
  simp only []
  rw [zipIdx_map_idx, List.map_map]
  congr 2

/-- the code, line by line (text without backslash and with a line break) -/
theorem trimWhitespace_lines (col : Nat) (raw : Bytes) (hsub : escapeSubst raw = raw) (h10 : raw.contains 10 = true) :
    trimWhitespace col raw = (((splitLF raw).zipIdx.map fun p => mLine col (splitLF raw).length p.2 p.1).flatten) := by
  unfold trimWhitespace
  simp only [hsub, h10, Bool.not_true, Bool.false_eq_true, ↓reduceIte]
  exact go_eq_map col _ _ 0


/-! ### nothing but bytes of the text, blanks and line breaks comes out -/

theorem mem_stripColumns (col : Nat) (l : Bytes) (w x : Nat) (h : x ∈ stripColumns col w l) : x ∈ l ∨ x = 32 := by
  induction l generalizing w with
  | nil => simp [stripColumns] at h
  | cons c t ih =>
    simp only [stripColumns] at h
    split at h
    · exact .inl h
    · split at h
      · rcases ih _ h with h1 | h1
        · exact .inl (List.mem_cons_of_mem _ h1)
        · exact .inr h1
      · split at h
        · split at h
          · simp only [List.mem_append, List.mem_replicate] at h
            rcases h with ⟨_, h1⟩ | h1
            · exact .inr h1
            · exact .inl (List.mem_cons_of_mem _ h1)
          · rcases ih _ h with h1 | h1
            · exact .inl (List.mem_cons_of_mem _ h1)
            · exact .inr h1
        · exact .inl h

theorem mem_stripTrailing (s : Bytes) (x : Nat) (h : x ∈ stripTrailing s) : x ∈ s := by
  unfold stripTrailing at h
  have h1 : x ∈ s.reverse.dropWhile (fun c => c = 32 || c = 9) := List.mem_reverse.mp h
  exact List.mem_reverse.mp ((List.dropWhile_sublist _).subset h1)

theorem mem_sLine (col n i : Nat) (l : Bytes) (x : Nat) (h : x ∈ sLine col n i l) :
    x ∈ l ∨ x = 32 ∨ x = 13 ∨ x = 10 := by
  unfold sLine at h
  have key : ∀ (t br : Bytes), (∀ y ∈ t, y ∈ l) → (∀ y ∈ br, y = 13 ∨ y = 10) →
      x ∈ (if br.isEmpty then (if i > 0 then stripColumns col 0 t else t)
           else stripTrailing (if i > 0 then stripColumns col 0 t else t)) ++ br → x ∈ l ∨ x = 32 ∨ x = 13 ∨ x = 10 := by
    intro t br ht hbr hx
    rcases List.mem_append.mp hx with h1 | h1
    · have h2 : x ∈ (if i > 0 then stripColumns col 0 t else t) := by
        split at h1
        · exact h1
        · exact mem_stripTrailing _ _ h1
      split at h2
      · rcases mem_stripColumns col t 0 x h2 with h3 | h3
        · exact .inl (ht x h3)
        · exact .inr (.inl h3)
      · exact .inl (ht x h2)
    · rcases hbr x h1 with h2 | h2
      · exact .inr (.inr (.inl h2))
      · exact .inr (.inr (.inr h2))
  split at h
  · exact key l [] (fun y hy => hy) (fun y hy => by cases hy) h
  · split at h
    · rename_i b hb
      have hl : l = b.reverse ++ [13] := by
        have := congrArg List.reverse hb; simpa using this
      exact key b.reverse [13, 10] (fun y hy => by rw [hl]; simp [List.mem_reverse.mp hy |> fun h => h] <;> exact .inl (by simpa using hy))
        (fun y hy => by simp at hy; exact hy) h
    · exact key l [10] (fun y hy => hy) (fun y hy => by simp at hy; exact .inr hy) h


theorem mem_splitLF_go (s cur : Bytes) (acc : List Bytes) (l : Bytes) (x : Nat)
    (hl : l ∈ splitLF.go cur acc s) (hx : x ∈ l) : x ∈ cur ∨ x ∈ s ∨ ∃ a ∈ acc, x ∈ a := by
  induction s generalizing cur acc with
  | nil =>
    simp only [splitLF.go, List.reverse_cons, List.mem_append, List.mem_reverse, List.mem_singleton] at hl
    rcases hl with h | h
    · exact .inr (.inr ⟨l, h, hx⟩)
    · subst h; exact .inl (List.mem_reverse.mp hx)
  | cons c r ih =>
    simp only [splitLF.go] at hl
    split at hl
    · rcases ih [] (cur.reverse :: acc) hl with h | h | ⟨a, ha, hxa⟩
      · cases h
      · exact .inr (.inl (List.mem_cons_of_mem _ h))
      · rcases List.mem_cons.mp ha with rfl | ha
        · exact .inl (List.mem_reverse.mp hxa)
        · exact .inr (.inr ⟨a, ha, hxa⟩)
    · rcases ih (c :: cur) acc hl with h | h | h
      · rcases List.mem_cons.mp h with rfl | h
        · exact .inr (.inl (by simp))
        · exact .inl h
      · exact .inr (.inl (List.mem_cons_of_mem _ h))
      · exact .inr (.inr h)

theorem mem_splitLF (s l : Bytes) (x : Nat) (hl : l ∈ splitLF s) (hx : x ∈ l) : x ∈ s := by
  rcases mem_splitLF_go s [] [] l x hl hx with h | h | ⟨a, ha, _⟩
  · cases h
  · exact h
  · cases ha

theorem unescape_no92 (p : Bytes) (h : No92 p) : unescape p = p := by
  have := unescape_append_no92 p [] h
  simpa [unescape] using this

theorem hasEscape_no92 (cs : List Nat) (p : Bytes) (h : No92 p) : hasEscape cs p = false := by
  have := hasEscape_append_no92 cs p [] h
  simpa [hasEscape] using this

theorem splitLF_go_no10' (s cur : Bytes) (acc : List Bytes) (h : ∀ x ∈ s, x ≠ 10) :
    splitLF.go cur acc s = (acc.reverse ++ [cur.reverse ++ s]) := by
  induction s generalizing cur with
  | nil => simp [splitLF.go]
  | cons c r ih =>
    have hc : c ≠ 10 := h c (by simp)
    simp only [splitLF.go, hc, ↓reduceIte]
    rw [ih _ (fun x hx => h x (by simp [hx]))]
    simp

theorem decodeDQ_single_line' (col : Nat) (raw : Bytes) (h : ∀ x ∈ raw, x ≠ 10) : decodeDQ col raw = unescape raw := by
  have hs : splitLF raw = [raw] := by
    simpa [splitLF] using splitLF_go_no10' raw [] [] h
  simp [decodeDQ, rawLines, hs]

/-- **layout (RFC 6020 §6.1.3).** For every double-quoted text without a backslash, every quote column and
    every arrangement of lines, the code's decoder yields what the specification reads off the source -/
theorem trimWhitespace_eq_decodeDQ (col : Nat) (hc : col ≥ 1) (raw : Bytes) (h92 : No92 raw) :
    trimWhitespace col raw = decodeDQ col raw := by
  have hsub : escapeSubst raw = raw := by
    rw [escapeSubst_eq_unescape raw (hasEscape_no92 _ raw h92), unescape_no92 raw h92]
  by_cases h10 : raw.contains 10 = true
  · rw [trimWhitespace_lines col raw hsub h10, decodeDQ_lines]
    have hmap : ((splitLF raw).zipIdx.map fun p => mLine col (splitLF raw).length p.2 p.1) =
        ((splitLF raw).zipIdx.map fun p => sLine col (splitLF raw).length p.2 p.1) :=
      List.map_congr_left (fun p _ => mLine_eq_sLine col _ p.2 hc p.1)
    rw [hmap]
    symm
    apply unescape_no92
    intro x hx
    simp only [List.mem_flatten, List.mem_map] at hx
    obtain ⟨piece, ⟨p, hp, rfl⟩, hxp⟩ := hx
    have hl : p.1 ∈ splitLF raw := List.fst_mem_of_mem_zipIdx hp
    rcases mem_sLine col _ p.2 p.1 x hxp with h | h | h | h
    · exact h92 x (mem_splitLF raw p.1 x hl h)
    · omega
    · omega
    · omega
  · have hno : ∀ x ∈ raw, x ≠ 10 := by
      intro x hx hx10; subst hx10
      exact h10 (by simpa using hx)
    rw [decodeDQ_single_line' col raw hno, unescape_no92 raw h92]
    unfold trimWhitespace
    simp only [hsub]
    have : raw.contains 10 = false := by
      cases h : raw.contains 10 with
      | true => exact absurd h h10
      | false => rfl
    rw [this]
    rfl

end YV.YS
