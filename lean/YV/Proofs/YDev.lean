/-
  Proofs.YDev — deviations at the level of the whole module body: walking the schema node identifier to the
  target and running the deviate processor there (`devKids`, `applyDevs`) is the edit of the source the
  specification describes (`editKids`, `editAll`), for any list of add / replace / delete deviations; and a
  `deviate not-supported` (marking the node, which the builder then skips) compiles to the same schema as the
  body with the node deleted.
-/
import YV.Spec.YCfgS
namespace YV.CS
open YV YV.Y YV.SC YV.C

theorem devNode_iff (d : Dev) (a a' : A) (hk : d.kind ≠ .notSupported) :
    devNode d a = .ok a' ↔ editNode d a = some (some a') := by
  cases hkind : d.kind with
  | notSupported => exact absurd hkind hk
  | add =>
    simp only [devNode, editNode, hkind]
    by_cases h1 : applicable a d.prop = true <;> by_cases h2 : (getProp a d.prop).isSome = true <;>
      simp_all [Option.isNone_iff_eq_none, Option.isSome_iff_ne_none, pure, Except.pure]
  | replace =>
    simp only [devNode, editNode, hkind]
    by_cases h2 : (getProp a d.prop).isSome = true <;> simp_all [Option.isNone_iff_eq_none, Option.isSome_iff_ne_none, pure, Except.pure]
  | delete =>
    simp only [devNode, editNode, hkind]
    by_cases h1 : d.prop = .dflt <;> by_cases h2 : getProp a d.prop = some d.val <;> simp_all [pure, Except.pure]

theorem editNode_not_removed (d : Dev) (a : A) (hk : d.kind ≠ .notSupported) : editNode d a ≠ some none := by
  cases hkind : d.kind with
  | notSupported => exact absurd hkind hk
  | add => simp only [editNode, hkind]; split <;> simp
  | replace => simp only [editNode, hkind]; split <;> simp
  | delete => simp only [editNode, hkind]; split <;> simp

theorem except_map_ok {α β} (x : Except String α) (f : α → β) (b : β) :
    x.map f = .ok b ↔ ∃ a, x = .ok a ∧ f a = b := by
  cases x with
  | error e => simp [Except.map]
  | ok a => simp [Except.map]

mutual
/-- the walk to the target and the processor there = the edit, for add / replace / delete -/
theorem devKids_iff (d : Dev) (hk : d.kind ≠ .notSupported) : ∀ (nodes : List A) (p : List Tok) (t : List A),
    devKids d p nodes = .ok t ↔ editKids d p nodes = some t
  | _, [], t => by simp [devKids, editKids]
  | [], _ :: _, t => by simp [devKids, editKids]
  | a :: r, q :: rest, t => by
    rw [devKids, editKids]
    by_cases hn : a.name = q
    · simp only [hn, ↓reduceIte]
      by_cases he : rest.isEmpty = true
      · simp only [he, ↓reduceIte, except_map_ok, Option.map_eq_some_iff]
        constructor
        · rintro ⟨a', h1, rfl⟩
          exact ⟨some a', (devNode_iff d a a' hk).mp h1, rfl⟩
        · rintro ⟨o, h1, rfl⟩
          cases o with
          | none => exact absurd h1 (editNode_not_removed d a hk)
          | some a' => exact ⟨a', (devNode_iff d a a' hk).mpr h1, rfl⟩
      · simp only [he, Bool.false_eq_true, ↓reduceIte, except_map_ok, Option.map_eq_some_iff]
        constructor
        · rintro ⟨a', h1, rfl⟩; exact ⟨a', (devInto_iff d hk a rest a').mp h1, rfl⟩
        · rintro ⟨a', h1, rfl⟩; exact ⟨a', (devInto_iff d hk a rest a').mpr h1, rfl⟩
    · simp only [hn, ↓reduceIte, except_map_ok, Option.map_eq_some_iff]
      constructor
      · rintro ⟨r', h1, rfl⟩; exact ⟨r', (devKids_iff d hk r (q :: rest) r').mp h1, rfl⟩
      · rintro ⟨r', h1, rfl⟩; exact ⟨r', (devKids_iff d hk r (q :: rest) r').mpr h1, rfl⟩
theorem devInto_iff (d : Dev) (hk : d.kind ≠ .notSupported) : ∀ (a : A) (rest : List Tok) (a' : A),
    devInto d rest a = .ok a' ↔ editInto d rest a = some a'
  | .container n m pr kids, rest, a' => by
    rw [devInto, editInto]; simp only [except_map_ok, Option.map_eq_some_iff]
    constructor
    · rintro ⟨k, h1, rfl⟩; exact ⟨k, (devKids_iff d hk kids rest k).mp h1, rfl⟩
    · rintro ⟨k, h1, rfl⟩; exact ⟨k, (devKids_iff d hk kids rest k).mpr h1, rfl⟩
  | .list n m ks mn mx kids, rest, a' => by
    rw [devInto, editInto]; simp only [except_map_ok, Option.map_eq_some_iff]
    constructor
    · rintro ⟨k, h1, rfl⟩; exact ⟨k, (devKids_iff d hk kids rest k).mp h1, rfl⟩
    · rintro ⟨k, h1, rfl⟩; exact ⟨k, (devKids_iff d hk kids rest k).mpr h1, rfl⟩
  | .choice n m md df cases, rest, a' => by
    rw [devInto, editInto]; simp only [except_map_ok, Option.map_eq_some_iff]
    constructor
    · rintro ⟨k, h1, rfl⟩; exact ⟨k, (devKids_iff d hk cases rest k).mp h1, rfl⟩
    · rintro ⟨k, h1, rfl⟩; exact ⟨k, (devKids_iff d hk cases rest k).mpr h1, rfl⟩
  | .case n m kids, rest, a' => by
    rw [devInto, editInto]; simp only [except_map_ok, Option.map_eq_some_iff]
    constructor
    · rintro ⟨k, h1, rfl⟩; exact ⟨k, (devKids_iff d hk kids rest k).mp h1, rfl⟩
    · rintro ⟨k, h1, rfl⟩; exact ⟨k, (devKids_iff d hk kids rest k).mpr h1, rfl⟩
  | .leaf .., rest, a' => by simp [devInto, editInto]
  | .leafList .., rest, a' => by simp [devInto, editInto]
end

/-- any number of add / replace / delete deviations, in order -/
theorem applyDevs_iff : ∀ (devs : List Dev), (∀ d ∈ devs, d.kind ≠ .notSupported) → ∀ (top t : List A),
    applyDevs top devs = .ok t ↔ editAll top devs = some t
  | [], _, top, t => by simp [applyDevs, editAll, pure, Except.pure]
  | d :: r, h, top, t => by
    rw [applyDevs, editAll]
    have hd := h d (by simp)
    cases h1 : devKids d d.path top with
    | error e =>
      have : editKids d d.path top = none := by
        cases h2 : editKids d d.path top with
        | none => rfl
        | some t' => rw [(devKids_iff d hd top d.path t').mpr h2] at h1; cases h1
      simp [this, bind, Except.bind]
    | ok t' =>
      rw [(devKids_iff d hd top d.path t').mp h1]
      simp only [bind, Except.bind, Option.bind_some]
      exact applyDevs_iff r (fun x hx => h x (by simp [hx])) t' t

/-! ### `deviate not-supported`: the marked node is skipped by the builder -/

theorem setMeta_meta (a : A) (m : Meta) : (a.setMeta m).meta = m := by cases a <;> rfl

theorem buildKids_cons (f : Attr → Bool) (env : FeatEnv) (inh : Inh) (a : A) (r : List A) :
    buildKids f env inh (a :: r) =
      (do let ig ← ignoredM env a.meta inh.st
          if ig then buildKids f env inh r
          else do
            let c ← build f env inh a
            let rest ← buildKids f env inh r
            pure (if f c.attr then c :: rest else rest)) := by
  rw [buildKids]

/-- two bodies that the builder cannot tell apart -/
def SameBuild (t' t'' : List A) : Prop := ∀ (f : Attr → Bool) (env : FeatEnv) (inh : Inh), buildKids f env inh t' = buildKids f env inh t''

theorem sameBuild_cons (a' a'' : A) (r' r'' : List A) (hm : a'.meta = a''.meta)
    (hb : ∀ f env inh, build f env inh a' = build f env inh a'') (hr : SameBuild r' r'') :
    SameBuild (a' :: r') (a'' :: r'') := by
  intro f env inh
  rw [buildKids_cons, buildKids_cons, hm, hb f env inh, hr f env inh]

mutual
theorem ns_kids (d : Dev) (hk : d.kind = .notSupported) (ha : d.alone = true) : ∀ (nodes : List A) (p : List Tok) (t' : List A),
    devKids d p nodes = .ok t' → ∃ t'', editKids d p nodes = some t'' ∧ SameBuild t' t''
  | _, [], t', h => by simp [devKids] at h
  | [], _ :: _, t', h => by simp [devKids] at h
  | a :: r, q :: rest, t', h => by
    rw [devKids] at h
    rw [editKids]
    by_cases hn : a.name = q
    · simp only [hn, ↓reduceIte] at h ⊢
      by_cases he : rest.isEmpty = true
      · simp only [he, ↓reduceIte, except_map_ok] at h ⊢
        obtain ⟨am, h1, rfl⟩ := h
        simp only [devNode, hk, ha, Bool.not_true, Bool.false_eq_true, ↓reduceIte, pure, Except.pure, Except.ok.injEq] at h1
        refine ⟨r, by simp [editNode, hk, ha], ?_⟩
        intro f env inh
        rw [buildKids_cons, ← h1, setMeta_meta]
        simp [ignoredM]
      · simp only [he, Bool.false_eq_true, ↓reduceIte, except_map_ok] at h ⊢
        obtain ⟨a', h1, rfl⟩ := h
        obtain ⟨a'', e1, e2, e3⟩ := ns_into d hk ha a rest a' h1
        exact ⟨a'' :: r, by simp [e1], sameBuild_cons a' a'' r r e2 e3 (fun _ _ _ => rfl)⟩
    · simp only [hn, ↓reduceIte, except_map_ok] at h ⊢
      obtain ⟨r', h1, rfl⟩ := h
      obtain ⟨r'', e1, e2⟩ := ns_kids d hk ha r (q :: rest) r' h1
      exact ⟨a :: r'', by simp [e1], sameBuild_cons a a r' r'' rfl (fun _ _ _ => rfl) e2⟩
theorem ns_into (d : Dev) (hk : d.kind = .notSupported) (ha : d.alone = true) : ∀ (a : A) (rest : List Tok) (a' : A),
    devInto d rest a = .ok a' →
      ∃ a'', editInto d rest a = some a'' ∧ a'.meta = a''.meta ∧ ∀ f env inh, build f env inh a' = build f env inh a''
  | .container n m pr kids, rest, a', h => by
    rw [devInto, except_map_ok] at h
    obtain ⟨k', h1, rfl⟩ := h
    obtain ⟨k'', e1, e2⟩ := ns_kids d hk ha kids rest k' h1
    refine ⟨.container n m pr k'', by simp [editInto, e1], rfl, ?_⟩
    intro f env inh
    simp only [build]
    cases inherit m inh with
    | error e => rfl
    | ok i => simp only [bind, Except.bind]; rw [e2 f env i]
  | .list n m ks mn mx kids, rest, a', h => by
    rw [devInto, except_map_ok] at h
    obtain ⟨k', h1, rfl⟩ := h
    obtain ⟨k'', e1, e2⟩ := ns_kids d hk ha kids rest k' h1
    refine ⟨.list n m ks mn mx k'', by simp [editInto, e1], rfl, ?_⟩
    intro f env inh
    simp only [build]
    cases inherit m inh with
    | error e => rfl
    | ok i => simp only [bind, Except.bind]; rw [e2 f env i]
  | .choice n m md df cases, rest, a', h => by
    rw [devInto, except_map_ok] at h
    obtain ⟨k', h1, rfl⟩ := h
    obtain ⟨k'', e1, e2⟩ := ns_kids d hk ha cases rest k' h1
    refine ⟨.choice n m md df k'', by simp [editInto, e1], rfl, ?_⟩
    intro f env inh
    simp only [build]
    cases inherit m inh with
    | error e => rfl
    | ok i => simp only [bind, Except.bind]; rw [e2 f env i]
  | .case n m kids, rest, a', h => by
    rw [devInto, except_map_ok] at h
    obtain ⟨k', h1, rfl⟩ := h
    obtain ⟨k'', e1, e2⟩ := ns_kids d hk ha kids rest k' h1
    refine ⟨.case n m k'', by simp [editInto, e1], rfl, ?_⟩
    intro f env inh
    simp only [build]
    cases inherit { m with cfg := none } inh with
    | error e => rfl
    | ok i => simp only [bind, Except.bind]; rw [e2 f env i]
  | .leaf .., rest, a', h => by simp [devInto] at h
  | .leafList .., rest, a', h => by simp [devInto] at h
end

/-- **not-supported = the node deleted**: the body with the node marked compiles to the schema of the body with
    the node removed, under every filter and feature set -/
theorem notSupported_compile (d : Dev) (hk : d.kind = .notSupported) (ha : d.alone = true) (top t' : List A)
    (h : devKids d d.path top = .ok t') :
    ∃ t'', editKids d d.path top = some t'' ∧ ∀ f env, compile f env t' = compile f env t'' := by
  obtain ⟨t'', e1, e2⟩ := ns_kids d hk ha top d.path t' h
  exact ⟨t'', e1, fun f env => by simp only [compile]; rw [e2 f env {}]⟩

end YV.CS
