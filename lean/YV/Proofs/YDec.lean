/-
  Proofs.YDec — the lexical / 64-bit check of decimal64 values (schema/decimal64_utils.go validateDecimal64String,
  which compares the integer part and the padded fraction part with quotient and remainder of 2^63-1 by 10^fd) is
  exact: a text passes iff it is a decimal with at most fd fraction digits whose value scaled by 10^fd lies in
  [-2^63, 2^63-1], for every fraction-digits 1..18.
-/
import YV.Spec.YTypesS
namespace YV.T
open YV YV.Y YV.TS

theorem natOf_foldl (acc : Nat) (l : Bytes) :
    l.foldl (fun a c => a * 10 + (c - 48)) acc = acc * 10 ^ l.length + natOf l := by
  induction l generalizing acc with
  | nil => simp [natOf]
  | cons c r ih =>
    simp only [List.foldl_cons, List.length_cons, natOf]
    rw [ih, ih (0 * 10 + (c - 48))]
    simp only [Nat.zero_mul, Nat.zero_add, Nat.pow_succ]
    rw [Nat.add_mul, Nat.mul_assoc, Nat.mul_comm 10 (10 ^ r.length)]
    omega

theorem natOf_append (a b : Bytes) : natOf (a ++ b) = natOf a * 10 ^ b.length + natOf b := by
  unfold natOf
  rw [List.foldl_append]
  exact natOf_foldl _ b

theorem natOf_cons (c : Nat) (r : Bytes) : natOf (c :: r) = (c - 48) * 10 ^ r.length + natOf r := by
  have := natOf_foldl (0 * 10 + (c - 48)) r
  simpa [natOf] using this

theorem natOf_lt (l : Bytes) (h : l.all YC.isDig = true) : natOf l < 10 ^ l.length := by
  induction l with
  | nil => simp [natOf]
  | cons c r ih =>
    simp only [List.all_cons, Bool.and_eq_true] at h
    have := ih h.2
    have hc : c - 48 ≤ 9 := by
      have := h.1; simp only [YC.isDig, Bool.and_eq_true, decide_eq_true_eq] at this; omega
    rw [natOf_cons, List.length_cons, Nat.pow_succ]
    have := Nat.mul_le_mul_right (10 ^ r.length) hc
    omega

/-- comparing with quotient and remainder: `ip·D + fr ≤ q·D + r` for `fr, r < D` -/
theorem qr_le (ip fr q r D : Nat) (hfr : fr < D) (hr : r < D) :
    ip * D + fr ≤ q * D + r ↔ (ip < q ∨ (ip = q ∧ fr ≤ r)) := by
  constructor
  · intro h
    by_cases h1 : ip < q
    · exact Or.inl h1
    · by_cases h2 : ip = q
      · subst h2; exact Or.inr ⟨rfl, by omega⟩
      · have : q + 1 ≤ ip := by omega
        have := Nat.mul_le_mul_right D this
        rw [Nat.add_mul] at this
        omega
  · rintro (h | ⟨rfl, h⟩)
    · have : ip + 1 ≤ q := h
      have := Nat.mul_le_mul_right D this
      rw [Nat.add_mul] at this
      omega
    · omega

/-- 2^63 is not a multiple of 10^fd: the remainder of 2^63-1 is not the largest one -/
theorem rem_room_fin : ∀ fd : Fin 19, 1 ≤ fd.val → (2 ^ 63 - 1) % 10 ^ fd.val + 1 < 10 ^ fd.val := by decide
theorem rem_room (fd : Nat) (h1 : 1 ≤ fd) (h2 : fd ≤ 18) : (2 ^ 63 - 1) % 10 ^ fd + 1 < 10 ^ fd :=
  rem_room_fin ⟨fd, by omega⟩ h1

/-- the arithmetic core of `validateDecimal64String` -/
def lexCore (fd : Nat) (neg : Bool) (ip fr : Nat) : Bool :=
  let denom := 10 ^ fd
  let maxU := (2 ^ 63 - 1) / denom
  let maxL := (2 ^ 63 - 1) % denom
  if ip > (if neg then 2 ^ 63 else 2 ^ 63 - 1) then false
  else if !neg then
    if ip > maxU then false else if ip = maxU then fr ≤ maxL else true
  else
    if ip > maxU then false else if ip = maxU then fr ≤ maxL + 1 else true

theorem lexCore_iff (fd : Nat) (h1 : 1 ≤ fd) (h2 : fd ≤ 18) (neg : Bool) (ip fr : Nat) (hfr : fr < 10 ^ fd) :
    lexCore fd neg ip fr = true ↔ ip * 10 ^ fd + fr ≤ (if neg then 2 ^ 63 else 2 ^ 63 - 1) := by
  have hD : 0 < 10 ^ fd := Nat.pow_pos (by decide)
  have hdm := Nat.div_add_mod (2 ^ 63 - 1) (10 ^ fd)
  have hml : (2 ^ 63 - 1) % 10 ^ fd < 10 ^ fd := Nat.mod_lt _ hD
  have hroom := rem_room fd h1 h2
  have hq : (2 ^ 63 - 1) / 10 ^ fd ≤ 2 ^ 63 - 1 := Nat.div_le_self _ _
  generalize hQ : (2 ^ 63 - 1) / 10 ^ fd = q at *
  generalize hR : (2 ^ 63 - 1) % 10 ^ fd = r at *
  generalize hDD : 10 ^ fd = D at *
  have hN : (2 : Nat) ^ 63 - 1 = q * D + r := by rw [Nat.mul_comm] at hdm; omega
  unfold lexCore
  simp only [hDD, hQ, hR]
  cases neg with
  | false =>
    simp only [Bool.false_eq_true, ↓reduceIte, Bool.not_false]
    rw [hN, qr_le ip fr q r D hfr hml]
    by_cases c1 : ip > q * D + r
    · have : ¬ ip < q ∧ ¬ ip = q := by
        have : q ≤ q * D := Nat.le_mul_of_pos_right q hD
        omega
      simp [c1, this.1, this.2]
    · simp only [c1, ↓reduceIte]
      by_cases c2 : ip > q
      · have : ¬ ip < q ∧ ¬ ip = q := by omega
        simp [c2, this.1, this.2]
      · simp only [c2, ↓reduceIte]
        by_cases c3 : ip = q
        · simp [c3]
        · have : ip < q := by omega
          simp [c3, this]
  | true =>
    simp only [↓reduceIte, Bool.not_true, Bool.false_eq_true]
    have h63 : (2 : Nat) ^ 63 = q * D + (r + 1) := by
      have : (2 : Nat) ^ 63 ≥ 1 := Nat.one_le_two_pow
      omega
    rw [h63, qr_le ip fr q (r + 1) D hfr hroom]
    by_cases c1 : ip > q * D + (r + 1)
    · have : ¬ ip < q ∧ ¬ ip = q := by
        have : q ≤ q * D := Nat.le_mul_of_pos_right q hD
        omega
      simp [c1, this.1, this.2]
    · simp only [c1, ↓reduceIte]
      by_cases c2 : ip > q
      · have : ¬ ip < q ∧ ¬ ip = q := by omega
        simp [c2, this.1, this.2]
      · simp only [c2, ↓reduceIte]
        by_cases c3 : ip = q
        · simp [c3]
        · have : ip < q := by omega
          simp [c3, this]

abbrev signOf := decSign

/-- the text after the sign: integer digits, optionally '.' and fraction digits -/
def shapeOf (body : Bytes) : Option (Nat × Nat × Nat) :=        -- (integer part, fraction part, number of fraction digits)
  let ip := body.takeWhile YC.isDig
  let rest := body.dropWhile YC.isDig
  if ip.isEmpty then none
  else match rest with
    | [] => some (natOf ip, 0, 0)
    | 46 :: fr => if allDigits fr then some (natOf ip, natOf fr, fr.length) else none
    | _ => none

theorem parseDecimalText_eq (s : Bytes) :
    parseDecimalText s = (shapeOf (signOf s).2).map fun (ip, fr, k) => ((signOf s).1, ip * 10 ^ k + fr, k) := by
  have key : ∀ (neg : Bool) (body : Bytes),
      (let ip := body.takeWhile YC.isDig
       let rest := body.dropWhile YC.isDig
       if ip.isEmpty then none
       else match rest with
         | [] => some (neg, natOf ip, 0)
         | 46 :: fr => if allDigits fr then some (neg, natOf (ip ++ fr), fr.length) else none
         | _ => none) = (shapeOf body).map fun (ip, fr, k) => (neg, ip * 10 ^ k + fr, k) := by
    intro neg body
    unfold shapeOf
    simp only
    split
    · rfl
    · split
      · simp
      · split
        · simp [natOf_append]
        · rfl
      · rfl
  unfold parseDecimalText
  exact key _ _

theorem shapeOf_fr_lt (body : Bytes) (ip fr k : Nat) (h : shapeOf body = some (ip, fr, k)) : fr < 10 ^ k := by
  unfold shapeOf at h
  simp only at h
  split at h
  · cases h
  · split at h
    · simp only [Option.some.injEq, Prod.mk.injEq] at h; obtain ⟨_, rfl, rfl⟩ := h; simp
    · rename_i frd _
      split at h
      · rename_i had
        simp only [Option.some.injEq, Prod.mk.injEq] at h; obtain ⟨_, rfl, rfl⟩ := h
        simp only [allDigits, Bool.and_eq_true] at had
        exact natOf_lt frd had.2
      · cases h
    · cases h

theorem dec64LexOK_eq (fd : Nat) (s : Bytes) :
    dec64LexOK fd s = (match shapeOf (signOf s).2 with
      | none => false
      | some (ip, fr, k) => if k > fd then false else lexCore fd (signOf s).1 ip (fr * 10 ^ (fd - k))) := by
  unfold dec64LexOK
  rw [parseDecimalText_eq]
  cases hs : shapeOf (signOf s).2 with
  | none => rfl
  | some v =>
    obtain ⟨ip, fr, k⟩ := v
    simp only [Option.map_some]
    split
    · rfl
    · -- the integer and fraction parts the code recomputes are those of the shape
      have hparts : natOf ((signOf s).2.takeWhile YC.isDig) = ip ∧
          natOf (((signOf s).2.dropWhile YC.isDig).drop 1) = fr := by
        unfold shapeOf at hs
        simp only at hs
        split at hs
        · cases hs
        · split at hs
          · rename_i hr
            simp only [Option.some.injEq, Prod.mk.injEq] at hs
            exact ⟨hs.1, by rw [hr]; simp [natOf, ← hs.2.1]⟩
          · rename_i frd hr
            split at hs
            · simp only [Option.some.injEq, Prod.mk.injEq] at hs
              exact ⟨hs.1, by rw [hr]; simp [hs.2.1]⟩
            · cases hs
          · cases hs
      rw [hparts.1, hparts.2]
      rfl

/-- **the decimal64 lexical / 64-bit check is exact** (fraction-digits 1..18) -/
theorem dec64LexOK_iff (fd : Nat) (h1 : 1 ≤ fd) (h2 : fd ≤ 18) (s : Bytes) :
    dec64LexOK fd s = true ↔ ∃ v, scaled fd s = some v ∧ -(2 ^ 63 : Int) ≤ v ∧ v ≤ 2 ^ 63 - 1 := by
  rw [dec64LexOK_eq]
  unfold scaled
  rw [parseDecimalText_eq]
  cases hs : shapeOf (signOf s).2 with
  | none => simp
  | some w =>
    obtain ⟨ip, fr, k⟩ := w
    simp only [Option.map_some]
    by_cases hk : k > fd
    · simp [hk]
    · simp only [hk, ↓reduceIte]
      have hfr := shapeOf_fr_lt _ ip fr k hs
      have hk' : k ≤ fd := by omega
      have hpow : 10 ^ k * 10 ^ (fd - k) = 10 ^ fd := by rw [← Nat.pow_add]; congr 1; omega
      have hfr' : fr * 10 ^ (fd - k) < 10 ^ fd := by
        rw [← hpow]; exact Nat.mul_lt_mul_of_pos_right hfr (Nat.pow_pos (by decide))
      have hM : (ip * 10 ^ k + fr) * 10 ^ (fd - k) = ip * 10 ^ fd + fr * 10 ^ (fd - k) := by
        rw [Nat.add_mul, Nat.mul_assoc, hpow]
      rw [lexCore_iff fd h1 h2 _ ip _ hfr', hM]
      generalize ip * 10 ^ fd + fr * 10 ^ (fd - k) = M
      simp only [Int.ofNat_eq_natCast]
      cases (signOf s).1 with
      | false =>
        simp only [Bool.false_eq_true, ↓reduceIte, Int.one_mul, Option.some.injEq, exists_eq_left']
        constructor
        · intro h; constructor <;> omega
        · intro h; omega
      | true =>
        simp only [↓reduceIte, Option.some.injEq, exists_eq_left']
        constructor
        · intro h; constructor <;> omega
        · intro h; omega

end YV.T
