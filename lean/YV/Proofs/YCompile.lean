/-
  Proofs.YCompile — compiling with a filter = compiling without and pruning top-down.
-/
import YV.Model.YCompile
namespace YV.C
open YV YV.Y YV.SC

@[simp] theorem ebind_ok {α β} (a : α) (f : α → Except String β) : ((Except.ok a : Except String α) >>= f) = f a := rfl
@[simp] theorem ebind_err {α β} (e : String) (f : α → Except String β) :
    ((Except.error e : Except String α) >>= f) = Except.error e := rfl
@[simp] theorem epure {α} (a : α) : (pure a : Except String α) = Except.ok a := rfl

/-- a filter that looks at `config` only (IsConfig, IsState, their Include / Exclude combinations; the opd
    filters are constant on the node kinds of this model) -/
def CfgOnly (f : Attr → Bool) : Prop := ∀ a b : Attr, a.cfg = b.cfg → f a = f b

/-! ### names -/

theorem firstDup_none_iff : ∀ l : List Tok, firstDup l = none ↔ l.Nodup
  | [] => by simp [firstDup]
  | x :: r => by
    simp only [firstDup, List.nodup_cons]
    by_cases h : x ∈ r
    · simp [h]
    · simp [h, firstDup_none_iff r]

theorem checkNames_ok_iff (l : List Tok) : checkNames l = .ok () ↔ l.Nodup := by
  unfold checkNames
  rw [← firstDup_none_iff]
  cases firstDup l <;> simp

mutual
theorem dataNames_prune (f : Attr → Bool) : ∀ ks : List CN, (dataNames (pruneKids f ks)).Sublist (dataNames ks)
  | [] => by simp [pruneKids, dataNames]
  | .mk a kids :: r => by
    simp only [pruneKids]
    by_cases hf : f a = true
    · simp only [hf, if_true, dataNames]
      by_cases hk : a.kind = .choice
      · simp only [hk, if_true]; exact List.Sublist.append (dataCaseNames_prune f kids) (dataNames_prune f r)
      · simp only [hk, if_false]; exact List.Sublist.append (List.Sublist.refl _) (dataNames_prune f r)
    · simp only [hf, dataNames]
      exact List.Sublist.trans (dataNames_prune f r) (List.sublist_append_right _ _)
theorem dataCaseNames_prune (f : Attr → Bool) : ∀ ks : List CN, (dataCaseNames (pruneKids f ks)).Sublist (dataCaseNames ks)
  | [] => by simp [pruneKids, dataCaseNames]
  | .mk a kids :: r => by
    simp only [pruneKids]
    by_cases hf : f a = true
    · simp only [hf, if_true, dataCaseNames]
      by_cases hk : a.kind = .case
      · simp only [hk, if_true]; exact List.Sublist.append (dataNames_prune f kids) (dataCaseNames_prune f r)
      · simp only [hk, if_false]; exact List.Sublist.append (List.Sublist.refl _) (dataCaseNames_prune f r)
    · simp only [hf, dataCaseNames]
      exact List.Sublist.trans (dataCaseNames_prune f r) (List.sublist_append_right _ _)
end

/-- pruning keeps a subsequence of the children, attributes unchanged -/
theorem prune_attrs (f : Attr → Bool) : ∀ ks : List CN, ((pruneKids f ks).map (·.attr)).Sublist (ks.map (·.attr))
  | [] => by simp [pruneKids]
  | .mk a kids :: r => by
    simp only [pruneKids]
    by_cases hf : f a = true
    · simp only [hf, if_true, List.map_cons, CN.attr]
      exact List.Sublist.cons_cons _ (prune_attrs f r)
    · simp only [hf, List.map_cons, CN.attr]
      exact List.Sublist.cons _ (prune_attrs f r)

theorem kidMarks_eq (ks : List CN) : kidMarks ks = (ks.map (·.attr)).map fun a => mark a.name := by
  simp [kidMarks, List.map_map, Function.comp_def]

theorem choiceMarks_eq (ks : List CN) :
    choiceMarks ks = (ks.map (·.attr)).filterMap fun a => if a.kind = .choice then some (mark a.name) else none := by
  simp [choiceMarks, List.filterMap_map, Function.comp_def]

theorem kidMarks_prune (f : Attr → Bool) (ks : List CN) : (kidMarks (pruneKids f ks)).Sublist (kidMarks ks) := by
  rw [kidMarks_eq, kidMarks_eq]; exact (prune_attrs f ks).map _

theorem choiceMarks_prune (f : Attr → Bool) (ks : List CN) : (choiceMarks (pruneKids f ks)).Sublist (choiceMarks ks) := by
  rw [choiceMarks_eq, choiceMarks_eq]; exact (prune_attrs f ks).filterMap _

theorem choiceMarks_sub_kidMarks : ∀ ks : List CN, (choiceMarks ks).Sublist (kidMarks ks)
  | [] => by simp [choiceMarks, kidMarks]
  | k :: r => by
    have ih := choiceMarks_sub_kidMarks r
    simp only [choiceMarks, kidMarks, List.filterMap_cons, List.map_cons] at ih ⊢
    by_cases hk : k.attr.kind = .choice
    · simp only [hk, if_true]; exact List.Sublist.cons_cons _ ih
    · simp only [hk, if_false]; exact List.Sublist.cons _ ih

/-- what a case checks covers what a container would check -/
theorem flatNames_sub_caseKidNames (ks : List CN) : (flatNames ks).Sublist (caseKidNames ks) :=
  List.Sublist.append (choiceMarks_sub_kidMarks ks) (List.Sublist.refl _)

theorem flatNames_prune (f : Attr → Bool) (ks : List CN) : (flatNames (pruneKids f ks)).Sublist (flatNames ks) :=
  List.Sublist.append (choiceMarks_prune f ks) (dataNames_prune f ks)

theorem flatCaseNames_prune (f : Attr → Bool) (ks : List CN) : (flatCaseNames (pruneKids f ks)).Sublist (flatCaseNames ks) :=
  List.Sublist.append (kidMarks_prune f ks) (dataCaseNames_prune f ks)

theorem caseKidNames_prune (f : Attr → Bool) (ks : List CN) : (caseKidNames (pruneKids f ks)).Sublist (caseKidNames ks) :=
  List.Sublist.append (kidMarks_prune f ks) (dataNames_prune f ks)

theorem checkNames_prune {f : Attr → Bool} {ks : List CN} (h : checkNames (flatNames ks) = .ok ()) :
    checkNames (flatNames (pruneKids f ks)) = .ok () := by
  rw [checkNames_ok_iff] at h ⊢; exact List.Nodup.sublist (flatNames_prune f ks) h

theorem checkKidNames_prune {f : Attr → Bool} {ks : List CN} (h : checkNames (caseKidNames ks) = .ok ()) :
    checkNames (caseKidNames (pruneKids f ks)) = .ok () := by
  rw [checkNames_ok_iff] at h ⊢; exact List.Nodup.sublist (caseKidNames_prune f ks) h

theorem checkCaseNames_prune {f : Attr → Bool} {ks : List CN} (h : checkNames (flatCaseNames ks) = .ok ()) :
    checkNames (flatCaseNames (pruneKids f ks)) = .ok () := by
  rw [checkNames_ok_iff] at h ⊢; exact List.Nodup.sublist (flatCaseNames_prune f ks) h

/-! ### well-formed: the children of a choice are cases (the compiler wraps a shorthand case) -/

mutual
def wfA : A → Bool
  | .container _ _ _ kids => wfKids kids
  | .list _ _ _ _ _ kids => wfKids kids
  | .choice _ _ _ _ cases => wfCases cases
  | .case _ _ kids => wfKids kids
  | _ => true
def wfKids : List A → Bool
  | [] => true
  | a :: r => wfA a && wfKids r
def wfCases : List A → Bool
  | [] => true
  | .case _ _ kids :: r => wfKids kids && wfCases r
  | _ :: _ => false
end


theorem prune_attr (f : Attr → Bool) (c : CN) : (prune f c).attr = c.attr := by
  cases c; simp [prune, CN.attr]

theorem pruneKids_cons (f : Attr → Bool) (c : CN) (r : List CN) :
    pruneKids f (c :: r) = if f c.attr then prune f c :: pruneKids f r else pruneKids f r := by
  cases c with
  | mk a kids =>
    simp only [pruneKids, prune, CN.attr]
    by_cases h : f a = true <;> simp [h]

theorem inherit_case_cfg (m : Meta) (inh i : Inh) (h : inherit { m with cfg := none } inh = .ok i) : i.cfg = inh.cfg := by
  unfold inherit at h
  cases hs : getStatus { m with cfg := none } inh.st with
  | error e => simp [hs] at h
  | ok st => simp [hs, getConfig] at h; rw [← h]

theorem build_case_cfg (g : Attr → Bool) (env : FeatEnv) (inh : Inh) (n : Tok) (m : Meta) (kids : List A) (c : CN)
    (h : build g env inh (.case n m kids) = .ok c) : c.attr.cfg = inh.cfg := by
  simp only [build] at h
  cases hi : inherit { m with cfg := none } inh with
  | error e => simp [hi] at h
  | ok i =>
    simp only [hi, ebind_ok] at h
    cases hk : buildKids g env i kids with
    | error e => simp [hk] at h
    | ok ks =>
      simp only [hk, ebind_ok] at h
      cases hn : checkNames (caseKidNames ks) with
      | error e => simp [hn] at h
      | ok u =>
        simp only [hn, ebind_ok, epure, Except.ok.injEq] at h
        subst h; simp [CN.attr, inherit_case_cfg m inh i hi]

theorem cases_cfg (g : Attr → Bool) (env : FeatEnv) (inh : Inh) :
    ∀ (l : List A) (ks : List CN), wfCases l = true → buildKids g env inh l = .ok ks → ∀ k ∈ ks, k.attr.cfg = inh.cfg
  | [], ks, _, h => by simp [buildKids] at h; subst h; simp
  | .case n m kids :: r, ks, hw, h => by
    simp only [buildKids] at h
    simp only [wfCases, Bool.and_eq_true] at hw
    cases hig : ignoredM env (A.case n m kids).meta inh.st with
    | error e => simp [hig] at h
    | ok ig =>
    simp only [hig, ebind_ok] at h
    cases ig with
    | true => simp only [if_true] at h; exact cases_cfg g env inh r ks hw.2 h
    | false =>
      simp only [Bool.false_eq_true, if_false] at h
      cases hb : build g env inh (.case n m kids) with
      | error e => simp [hb] at h
      | ok c =>
        simp only [hb, ebind_ok] at h
        cases hr : buildKids g env inh r with
        | error e => simp [hr] at h
        | ok rest =>
          simp only [hr, ebind_ok, epure, Except.ok.injEq] at h
          have ih := cases_cfg g env inh r rest hw.2 hr
          have hc := build_case_cfg g env inh n m kids c hb
          intro k hk
          subst h
          by_cases hg : g c.attr = true
          · simp only [hg, if_true, List.mem_cons] at hk
            rcases hk with rfl | hk
            · exact hc
            · exact ih k hk
          · simp only [hg] at hk; exact ih k hk
  | .container .. :: _, _, hw, _ => by simp [wfCases] at hw
  | .list .. :: _, _, hw, _ => by simp [wfCases] at hw
  | .leaf .. :: _, _, hw, _ => by simp [wfCases] at hw
  | .leafList .. :: _, _, hw, _ => by simp [wfCases] at hw
  | .choice .. :: _, _, hw, _ => by simp [wfCases] at hw

theorem any_pruneKids_of_all (f : Attr → Bool) (p : CN → Bool) (hp : ∀ c, p (prune f c) = p c) :
    ∀ ks : List CN, (∀ k ∈ ks, f k.attr = true) → (pruneKids f ks).any p = ks.any p
  | [], _ => by simp [pruneKids]
  | c :: r, h => by
    rw [pruneKids_cons]
    have hc := h c (by simp)
    simp only [hc, if_true, List.any_cons, hp]
    rw [any_pruneKids_of_all f p hp r (fun k hk => h k (by simp [hk]))]

theorem wfCases_wfKids : ∀ l : List A, wfCases l = true → wfKids l = true
  | [], _ => by simp [wfKids]
  | .case n m kids :: r, h => by
    simp only [wfCases, Bool.and_eq_true] at h
    simp [wfKids, wfA, h.1, wfCases_wfKids r h.2]
  | .container .. :: _, h => by simp [wfCases] at h
  | .list .. :: _, h => by simp [wfCases] at h
  | .leaf .. :: _, h => by simp [wfCases] at h
  | .leafList .. :: _, h => by simp [wfCases] at h
  | .choice .. :: _, h => by simp [wfCases] at h


section main
variable (f : Attr → Bool) (hf : CfgOnly f) (env : FeatEnv)
include hf

mutual
theorem build_prune : ∀ (a : A) (inh : Inh) (c : CN), wfA a = true →
    build keepAll env inh a = .ok c → build f env inh a = .ok (prune f c)
  | .container n m pr kids, inh, c, hw, h => by
    simp only [build] at h ⊢
    cases hi : inherit m inh with
    | error e => simp [hi] at h
    | ok i =>
      simp only [hi, ebind_ok] at h ⊢
      cases hk : buildKids keepAll env i kids with
      | error e => simp [hk] at h
      | ok ks =>
        simp only [hk, ebind_ok] at h
        cases hn : checkNames (flatNames ks) with
        | error e => simp [hn] at h
        | ok u =>
          simp only [hn, ebind_ok, epure, Except.ok.injEq] at h
          subst h
          rw [buildKids_prune kids i ks (by simpa [wfA] using hw) hk]
          simp only [ebind_ok, checkNames_prune hn, epure, prune]
  | .list n m keys mn mx kids, inh, c, hw, h => by
    simp only [build] at h ⊢
    cases hi : inherit m inh with
    | error e => simp [hi] at h
    | ok i =>
      simp only [hi, ebind_ok] at h ⊢
      cases hk : buildKids keepAll env i kids with
      | error e => simp [hk] at h
      | ok ks =>
        simp only [hk, ebind_ok] at h
        cases hn : checkNames (flatNames ks) with
        | error e => simp [hn] at h
        | ok u =>
          simp only [hn, ebind_ok, epure, Except.ok.injEq] at h
          subst h
          rw [buildKids_prune kids i ks (by simpa [wfA] using hw) hk]
          simp only [ebind_ok, checkNames_prune hn, epure, prune]
  | .case n m kids, inh, c, hw, h => by
    simp only [build] at h ⊢
    cases hi : inherit { m with cfg := none } inh with
    | error e => simp [hi] at h
    | ok i =>
      simp only [hi, ebind_ok] at h ⊢
      cases hk : buildKids keepAll env i kids with
      | error e => simp [hk] at h
      | ok ks =>
        simp only [hk, ebind_ok] at h
        cases hn : checkNames (caseKidNames ks) with
        | error e => simp [hn] at h
        | ok u =>
          simp only [hn, ebind_ok, epure, Except.ok.injEq] at h
          subst h
          rw [buildKids_prune kids i ks (by simpa [wfA] using hw) hk]
          simp only [ebind_ok, checkKidNames_prune hn, epure, prune]
  | .leaf n m mand d, inh, c, _, h => by
    simp only [build] at h ⊢
    cases hi : inherit m inh with
    | error e => simp [hi] at h
    | ok i =>
      simp only [hi, ebind_ok] at h ⊢
      by_cases hmd : (mand && d.isSome) = true
      · simp [hmd] at h
      · simp only [hmd, Bool.false_eq_true, if_false, epure, Except.ok.injEq] at h ⊢
        subst h; simp [prune, pruneKids]
  | .leafList n m mn mx, inh, c, _, h => by
    simp only [build] at h ⊢
    cases hi : inherit m inh with
    | error e => simp [hi] at h
    | ok i =>
      simp only [hi, ebind_ok, epure, Except.ok.injEq] at h ⊢
      subst h; simp [prune, pruneKids]
  | .choice n m mand d cases, inh, c, hw, h => by
    simp only [build] at h ⊢
    cases hi : inherit m inh with
    | error e => simp [hi] at h
    | ok i =>
      simp only [hi, ebind_ok] at h ⊢
      have hwc : wfCases cases = true := by simpa [wfA] using hw
      cases hk : buildKids keepAll env i cases with
      | error e => simp [hk] at h
      | ok ks =>
        simp only [hk, ebind_ok] at h
        rw [buildKids_prune cases i ks (wfCases_wfKids cases hwc) hk]
        simp only [ebind_ok]
        by_cases hdm : (d.isSome && mand) = true
        · simp [hdm] at h
        · simp only [hdm, Bool.false_eq_true, if_false] at h ⊢
          cases hn : checkNames (flatCaseNames ks) with
          | error e => simp [hn] at h
          | ok u =>
            simp only [hn, ebind_ok] at h
            simp only [checkCaseNames_prune hn, ebind_ok]
            cases d with
            | none =>
              simp only [epure, Except.ok.injEq] at h ⊢
              subst h; simp [prune]
            | some dc =>
              simp only [] at h ⊢
              have hany : (ks.any fun k => k.attr.name = dc) = true := by
                by_cases ha : (ks.any fun k => k.attr.name = dc) = true
                · exact ha
                · simp [keepAll, ha] at h
              simp only [keepAll, hany, Bool.not_true, Bool.and_false, Bool.false_eq_true, if_false, epure,
                Except.ok.injEq] at h
              subst h
              by_cases hfa : f { kind := .choice, name := n, cfg := i.cfg, st := i.st, flag := mand, dflt := some dc, ns := m.ns } = true
              · have hall : ∀ k ∈ ks, f k.attr = true := by
                  intro k hk'
                  have := cases_cfg keepAll env i cases ks hwc hk k hk'
                  rw [hf k.attr { kind := .choice, name := n, cfg := i.cfg, st := i.st, flag := mand, dflt := some dc, ns := m.ns } this]
                  exact hfa
                have := any_pruneKids_of_all f (fun k => decide (k.attr.name = dc)) (by intro c; simp [prune_attr]) ks hall
                simp only [hfa, this, hany, Bool.not_true, Bool.and_false, Bool.false_eq_true, if_false, epure, prune]
              · simp only [hfa, Bool.false_and, Bool.false_eq_true, if_false, epure, prune]
theorem buildKids_prune : ∀ (l : List A) (inh : Inh) (cs : List CN), wfKids l = true →
    buildKids keepAll env inh l = .ok cs → buildKids f env inh l = .ok (pruneKids f cs)
  | [], inh, cs, _, h => by
    simp only [buildKids, epure, Except.ok.injEq] at h ⊢; subst h; simp [pruneKids]
  | a :: r, inh, cs, hw, h => by
    simp only [buildKids] at h ⊢
    simp only [wfKids, Bool.and_eq_true] at hw
    cases hig : ignoredM env a.meta inh.st with
    | error e => simp [hig] at h
    | ok ig =>
    simp only [hig, ebind_ok] at h ⊢
    cases ig with
    | true => simp only [if_true] at h ⊢; exact buildKids_prune r inh cs hw.2 h
    | false =>
      simp only [Bool.false_eq_true, if_false] at h ⊢
      cases hb : build keepAll env inh a with
      | error e => simp [hb] at h
      | ok c =>
        simp only [hb, ebind_ok] at h
        cases hr : buildKids keepAll env inh r with
        | error e => simp [hr] at h
        | ok rest =>
          simp only [hr, ebind_ok, epure, keepAll, if_true, Except.ok.injEq] at h
          subst h
          rw [build_prune a inh c hw.1 hb, buildKids_prune r inh rest hw.2 hr]
          simp only [ebind_ok, epure, prune_attr, pruneKids_cons]
end
end main

end YV.C
