/-
  Proofs.YTree — the statement parser returns the tree that was written: for every source tree, spelled as
  items with any separators before any token, `pStmt` returns exactly that tree (keyword, argument, position
  of the keyword, sub-statements in source order and nesting) and leaves what follows untouched.
-/
import YV.Proofs.YLex
namespace YV.Y

/-- how an argument is written, at item level: absent, one unquoted word, or single-quoted pieces
    joined by '+' (double-quoted pieces additionally go through `trimWhitespace`: Proofs.YArg) -/
inductive SArg where
  | none
  | bare (pre : List Item) (it : Item)
  | quoted (pre : List Item) (q1 s q2 : Item) (more : List (List Item × Item × List Item × Item × Item × Item))

/-- a source tree with its trivia: the separators before each token -/
inductive Src where
  | leaf (pre : List Item) (kw : Item) (arg : SArg) (preD : List Item) (semi : Item)
  | block (pre : List Item) (kw : Item) (arg : SArg) (preD : List Item) (lb : Item) (subs : List Src)
      (preC : List Item) (rb : Item)

def moreItems : List (List Item × Item × List Item × Item × Item × Item) → List Item
  | [] => []
  | (p1, plus, p2, q1, s, q2) :: r => p1 ++ plus :: (p2 ++ [q1, s, q2]) ++ moreItems r

def moreVal : List (List Item × Item × List Item × Item × Item × Item) → Bytes
  | [] => []
  | (_, _, _, _, s, _) :: r => s.val ++ moreVal r

def moreWf : List (List Item × Item × List Item × Item × Item × Item) → Prop
  | [] => True
  | (p1, plus, p2, q1, s, q2) :: r =>
    AllSep p1 ∧ plus.typ = .plus ∧ AllSep p2 ∧ q1.typ = .quote ∧ s.typ = .string ∧ q2.typ = .quote ∧ q2.val ≠ [34] ∧ moreWf r

def SArg.items : SArg → List Item
  | .none => []
  | .bare pre it => pre ++ [it]
  | .quoted pre q1 s q2 more => pre ++ [q1, s, q2] ++ moreItems more

def SArg.val : SArg → Bytes
  | .none => []
  | .bare _ it => it.val
  | .quoted _ _ s _ more => s.val ++ moreVal more

def SArg.wf : SArg → Prop
  | .none => True
  | .bare pre it => AllSep pre ∧ it.typ = .string
  | .quoted pre q1 s q2 more =>
    AllSep pre ∧ q1.typ = .quote ∧ s.typ = .string ∧ q2.typ = .quote ∧ q2.val ≠ [34] ∧ moreWf more

mutual
def Src.items : Src → List Item
  | .leaf pre kw arg preD semi => pre ++ kw :: (arg.items ++ preD ++ [semi])
  | .block pre kw arg preD lb subs preC rb =>
    pre ++ kw :: (arg.items ++ preD ++ lb :: (itemsL subs ++ preC ++ [rb]))
def itemsL : List Src → List Item
  | [] => []
  | s :: r => s.items ++ itemsL r
end

mutual
def Src.tree : Src → Stmt
  | .leaf _ kw arg _ _ => .mk kw.val arg.val kw.pos []
  | .block _ kw arg _ _ subs _ _ => .mk kw.val arg.val kw.pos (treeL subs)
def treeL : List Src → List Stmt
  | [] => []
  | s :: r => s.tree :: treeL r
end

mutual
def Src.wf : Src → Prop
  | .leaf pre kw arg preD semi => AllSep pre ∧ kw.typ = .string ∧ arg.wf ∧ AllSep preD ∧ semi.typ = .semi
  | .block pre kw arg preD lb subs preC rb =>
    AllSep pre ∧ kw.typ = .string ∧ arg.wf ∧ AllSep preD ∧ lb.typ = .lbrace ∧ wfL subs ∧ AllSep preC ∧ rb.typ = .rbrace
def wfL : List Src → Prop
  | [] => True
  | s :: r => s.wf ∧ wfL r
end

mutual
/-- the fuel the parser needs: nesting depth plus the number of siblings on the way -/
def Src.need : Src → Nat
  | .leaf .. => 1
  | .block _ _ _ _ _ subs _ _ => 1 + needL subs
def needL : List Src → Nat
  | [] => 1
  | s :: r => 1 + max s.need (needL r)
end

/-! ### receiving items -/

theorem peekNS_to (seps : List Item) (it : Item) (rest : List Item) (h : AllSep seps) (hit : it.typ ≠ .sep)
    (s : PS) (hs : s.items = seps ++ it :: rest) (f : Nat) (hf : seps.length + 1 ≤ f) :
    ∃ s', peekNS f s = (it, s') ∧ s'.items = it :: rest := by
  induction seps generalizing s f with
  | nil =>
    cases f with
    | zero => omega
    | succ f =>
      simp only [List.nil_append] at hs
      simp only [peekNS, hs, hit, ↓reduceIte]
      exact ⟨_, rfl, rfl⟩
  | cons a seps ih =>
    cases f with
    | zero => omega
    | succ f =>
      have ha : a.typ = .sep := h a (by simp)
      simp only [List.cons_append] at hs
      simp only [peekNS, hs, ha, ↓reduceIte]
      exact ih (fun x hx => h x (by simp [hx])) _ rfl f (by simp at hf; omega)

theorem nextNS_to (seps : List Item) (it : Item) (rest : List Item) (h : AllSep seps) (hit : it.typ ≠ .sep)
    (s : PS) (hs : s.items = seps ++ it :: rest) :
    ∃ s', nextNS s = (it, s') ∧ s'.items = rest := by
  obtain ⟨s1, h1, h2⟩ := peekNS_to seps it rest h hit s hs (s.items.length + 1) (by rw [hs]; simp)
  unfold nextNS
  rw [h1]
  simp only [h2]
  exact ⟨_, rfl, rfl⟩

theorem peek_to (seps : List Item) (it : Item) (rest : List Item) (h : AllSep seps) (hit : it.typ ≠ .sep)
    (s : PS) (hs : s.items = seps ++ it :: rest) :
    (peekNS (s.items.length + 1) s).1 = it := by
  obtain ⟨s1, h1, _⟩ := peekNS_to seps it rest h hit s hs (s.items.length + 1) (by rw [hs]; simp)
  rw [h1]

theorem expectT_to (t : ITyp) (seps : List Item) (it : Item) (rest : List Item) (h : AllSep seps)
    (hit : it.typ = t) (ht : t ≠ .sep) (s : PS) (hs : s.items = seps ++ it :: rest) :
    ∃ s', expectT t s = .ok (it, s') ∧ s'.items = rest := by
  obtain ⟨s1, h1, h2⟩ := nextNS_to seps it rest h (by rw [hit]; exact ht) s hs
  unfold expectT
  rw [h1]
  simp only [hit, ↓reduceIte]
  exact ⟨s1, rfl, h2⟩


/-! ### arguments -/

theorem moreItems_len (more : List (List Item × Item × List Item × Item × Item × Item)) :
    2 * more.length ≤ (moreItems more).length := by
  induction more with
  | nil => simp [moreItems]
  | cons a r ih =>
    obtain ⟨p1, plus, p2, q1, st, q2⟩ := a
    simp only [moreItems, List.length_cons, List.length_append]
    simp; omega

theorem pair_eta {α β} (p : α × β) : p = (p.1, p.2) := rfl

theorem argQuoted_step (input : Bytes) (f : Nat) (s2 : PS) (st q2 : Item) (X : List Item)
    (hst : st.typ = .string) (hq2 : q2.typ = .quote) (hq2v : q2.val ≠ [34]) (hs2 : s2.items = st :: q2 :: X) :
    ∃ s4 : PS, s4.items = X ∧ argQuoted input (f + 1) s2 =
      (argConcat input f s4 >>= fun r => pure (st.val ++ r.1, r.2)) := by
  have hp3 := peek_to [] st _ (by intro x hx; cases hx) (by simp [hst]) s2 hs2
  obtain ⟨s3, hn3, hs3⟩ := nextNS_to [] st _ (by intro x hx; cases hx) (by simp [hst]) s2 hs2
  obtain ⟨s4, he4, hs4⟩ := expectT_to .quote [] q2 _ (by intro x hx; cases hx) hq2 (by simp) s3 hs3
  refine ⟨s4, hs4, ?_⟩
  simp only [argQuoted]
  rw [pair_eta (peekNS (s2.items.length + 1) s2)]
  simp only [hp3, hst, hn3, he4, hq2v]
  simp [bind, Except.bind, pure, Except.pure]
  cases argConcat input f s4 with
  | error e => rfl
  | ok v => simp [hq2v]

theorem argConcat_spec (input : Bytes) (more : List (List Item × Item × List Item × Item × Item × Item))
    (hw : moreWf more) (f : Nat) (hf : 2 * more.length + 1 ≤ f) (s : PS) (seps : List Item) (d : Item)
    (tail : List Item) (hseps : AllSep seps) (hd : d.typ = .lbrace ∨ d.typ = .semi)
    (hs : s.items = moreItems more ++ (seps ++ d :: tail)) :
    ∃ s', argConcat input f s = .ok (moreVal more, s') ∧ s'.items = seps ++ d :: tail := by
  induction more generalizing f s with
  | nil =>
    cases f with
    | zero => omega
    | succ f =>
      simp only [moreItems, List.nil_append] at hs
      have hp := peek_to seps d tail hseps (by cases hd <;> simp [*]) s hs
      simp only [argConcat]
      rw [show (peekNS (s.items.length + 1) s) = ((peekNS (s.items.length + 1) s).1, (peekNS (s.items.length + 1) s).2) from rfl]
      simp only [hp]
      have : (d.typ = .lbrace || d.typ = .semi) = true := by cases hd <;> simp [*]
      simp only [this, ↓reduceIte]
      exact ⟨s, rfl, hs⟩
  | cons a r ih =>
    obtain ⟨p1, plus, p2, q1, st, q2⟩ := a
    obtain ⟨hp1, hplus, hp2, hq1, hst, hq2, hq2v, hr⟩ := hw
    cases f with
    | zero => omega
    | succ f =>
    cases f with
    | zero => simp at hf
    | succ f =>
      simp only [moreItems, List.append_assoc, List.cons_append, List.nil_append] at hs
      have hp := peek_to p1 plus _ hp1 (by simp [hplus]) s hs
      obtain ⟨s1, hn1, hs1⟩ := nextNS_to p1 plus _ hp1 (by simp [hplus]) s hs
      obtain ⟨s2, he2, hs2⟩ := expectT_to .quote p2 q1 _ hp2 hq1 (by simp) s1 hs1
      simp only [argConcat]
      rw [pair_eta (peekNS (s.items.length + 1) s)]
      simp only [hp, hplus, hn1, he2]
      obtain ⟨s4', hs4', hstep⟩ := argQuoted_step input f s2 st q2 _ hst hq2 hq2v hs2
      obtain ⟨s5, h5, hs5⟩ := ih hr f (by simp at hf; omega) s4' hs4'
      refine ⟨s5, ?_, hs5⟩
      simp [hstep, h5, moreVal, bind, Except.bind, pure, Except.pure]


theorem arg_spec (input : Bytes) (arg : SArg) (hw : arg.wf) (s1 : PS) (preD : List Item) (d : Item)
    (tail : List Item) (hpre : AllSep preD) (hd : d.typ = .lbrace ∨ d.typ = .semi)
    (hs : s1.items = arg.items ++ (preD ++ d :: tail)) :
    ∃ s2, (if (peekNS (s1.items.length + 1) s1).1.typ = .lbrace then (pure ([], s1) : P (Bytes × PS))
           else argument input s1) = .ok (arg.val, s2) ∧ s2.items = preD ++ d :: tail := by
  cases arg with
  | none =>
    simp only [SArg.items, List.nil_append] at hs
    have hp := peek_to preD d tail hpre (by cases hd <;> simp [*]) s1 hs
    rw [hp]
    cases hd with
    | inl h => simp only [h, ↓reduceIte]; exact ⟨s1, rfl, hs⟩
    | inr h =>
      simp only [h, argument]
      rw [pair_eta (peekNS (s1.items.length + 1) s1)]
      simp only [hp, h]
      exact ⟨s1, by simp [pure, Except.pure, SArg.val], hs⟩
  | bare pre it =>
    obtain ⟨hp1, hit⟩ := hw
    simp only [SArg.items, List.append_assoc, List.cons_append, List.nil_append] at hs
    have hp := peek_to pre it _ hp1 (by simp [hit]) s1 hs
    obtain ⟨s2, hn, hs2⟩ := nextNS_to pre it _ hp1 (by simp [hit]) s1 hs
    rw [hp]
    simp only [hit, argument]
    rw [pair_eta (peekNS (s1.items.length + 1) s1)]
    simp only [hp, hit, hn]
    exact ⟨s2, by simp [pure, Except.pure, SArg.val], hs2⟩
  | quoted pre q1 st q2 more =>
    obtain ⟨hp1, hq1, hst, hq2, hq2v, hm⟩ := hw
    simp only [SArg.items, List.append_assoc, List.cons_append, List.nil_append] at hs
    have hp := peek_to pre q1 _ hp1 (by simp [hq1]) s1 hs
    obtain ⟨s2, hn, hs2⟩ := nextNS_to pre q1 _ hp1 (by simp [hq1]) s1 hs
    obtain ⟨s4, hs4, hstep⟩ := argQuoted_step input (s1.items.length + 1) s2 st q2 _ hst hq2 hq2v hs2
    have hlen : 2 * more.length + 1 ≤ s1.items.length + 1 := by
      have := moreItems_len more
      rw [hs]; simp only [List.length_append, List.length_cons]; omega
    obtain ⟨s5, h5, hs5⟩ := argConcat_spec input more hm (s1.items.length + 1) hlen s4 preD d tail hpre hd hs4
    rw [hp]
    simp only [hq1, argument]
    rw [pair_eta (peekNS (s1.items.length + 1) s1)]
    simp only [hp, hq1, hn]
    refine ⟨s5, ?_, hs5⟩
    simp [hstep, h5, SArg.val, bind, Except.bind, pure, Except.pure]


/-! ### statements -/

def noChk : Stmt → Bool := fun _ => true

mutual
theorem pStmt_spec (input : Bytes) : (src : Src) → src.wf → (f : Nat) → src.need ≤ f → (s : PS) → (rest : List Item) →
    s.items = src.items ++ rest → ∃ s', pStmt noChk input f s = .ok (src.tree, s') ∧ s'.items = rest
  | .leaf pre kw arg preD semi, hw, f, hf, s, rest, hs => by
    obtain ⟨hpre, hkw, harg, hpreD, hsemi⟩ := hw
    cases f with
    | zero => simp [Src.need] at hf
    | succ f =>
      simp only [Src.items, List.append_assoc, List.cons_append, List.nil_append] at hs
      obtain ⟨s1, he1, hs1⟩ := expectT_to .string pre kw _ hpre hkw (by simp) s hs
      obtain ⟨s2, ha, hs2⟩ := arg_spec input arg harg s1 preD semi rest hpreD (Or.inr hsemi) hs1
      obtain ⟨s3, hn3, hs3⟩ := nextNS_to preD semi rest hpreD (by simp [hsemi]) s2 hs2
      refine ⟨s3, ?_, hs3⟩
      simp only [pStmt, he1]
      simp only [bind, Except.bind]
      rw [pair_eta (peekNS (s1.items.length + 1) s1)]
      by_cases hc : (peekNS (s1.items.length + 1) s1).fst.typ = ITyp.lbrace
      · simp only [hc, ↓reduceIte] at ha ⊢
        simp only [ha, hn3, hsemi, noChk, Src.tree]
        rfl
      · simp only [hc, ↓reduceIte] at ha ⊢
        simp only [ha, hn3, hsemi, noChk, Src.tree]
        rfl
  | .block pre kw arg preD lb subs preC rb, hw, f, hf, s, rest, hs => by
    obtain ⟨hpre, hkw, harg, hpreD, hlb, hsubs, hpreC, hrb⟩ := hw
    cases f with
    | zero => simp [Src.need] at hf
    | succ f =>
      simp only [Src.items, List.append_assoc, List.cons_append, List.nil_append] at hs
      obtain ⟨s1, he1, hs1⟩ := expectT_to .string pre kw _ hpre hkw (by simp) s hs
      obtain ⟨s2, ha, hs2⟩ := arg_spec input arg harg s1 preD lb _ hpreD (Or.inl hlb) hs1
      obtain ⟨s3, hn3, hs3⟩ := nextNS_to preD lb _ hpreD (by simp [hlb]) s2 hs2
      obtain ⟨s4, h4, hs4⟩ := pStar_spec input subs hsubs f (by simp [Src.need] at hf; omega) s3 preC rb rest hpreC hrb hs3
      obtain ⟨s5, he5, hs5⟩ := expectT_to .rbrace preC rb rest hpreC hrb (by simp) s4 hs4
      refine ⟨s5, ?_, hs5⟩
      simp only [pStmt, he1]
      simp only [bind, Except.bind]
      rw [pair_eta (peekNS (s1.items.length + 1) s1)]
      by_cases hc : (peekNS (s1.items.length + 1) s1).fst.typ = ITyp.lbrace
      · simp only [hc, ↓reduceIte] at ha ⊢
        simp only [ha, hn3, hlb, h4, he5, noChk, Src.tree]
        rfl
      · simp only [hc, ↓reduceIte] at ha ⊢
        simp only [ha, hn3, hlb, h4, he5, noChk, Src.tree]
        rfl
theorem pStar_spec (input : Bytes) : (subs : List Src) → wfL subs → (f : Nat) → needL subs ≤ f → (s : PS) →
    (preC : List Item) → (rb : Item) → (rest : List Item) → AllSep preC → rb.typ = .rbrace →
    s.items = itemsL subs ++ (preC ++ rb :: rest) →
    ∃ s', pStar noChk input f s = .ok (treeL subs, s') ∧ s'.items = preC ++ rb :: rest
  | [], _, f, hf, s, preC, rb, rest, hpreC, hrb, hs => by
    cases f with
    | zero => simp [needL] at hf
    | succ f =>
      simp only [itemsL, List.nil_append] at hs
      have hp := peek_to preC rb rest hpreC (by simp [hrb]) s hs
      refine ⟨s, ?_, hs⟩
      simp only [pStar]
      rw [pair_eta (peekNS (s.items.length + 1) s)]
      simp only [hp, hrb, treeL]
      rfl
  | src :: r, hw, f, hf, s, preC, rb, rest, hpreC, hrb, hs => by
    obtain ⟨hw1, hwr⟩ := hw
    cases f with
    | zero => simp [needL] at hf
    | succ f =>
      simp only [itemsL, List.append_assoc] at hs
      simp only [needL] at hf
      obtain ⟨s1, h1, hs1⟩ := pStmt_spec input src hw1 f (by omega) s _ hs
      obtain ⟨s2, h2, hs2⟩ := pStar_spec input r hwr f (by omega) s1 preC rb rest hpreC hrb hs1
      refine ⟨s2, ?_, hs2⟩
      -- the next item is the keyword of `src`: not a closing brace
      have hnr : (peekNS (s.items.length + 1) s).1.typ ≠ .rbrace := by
        cases src with
        | leaf pre kw arg preD semi =>
          simp only [Src.items, List.append_assoc, List.cons_append] at hs
          rw [peek_to pre kw _ hw1.1 (by simp [hw1.2.1]) s hs, hw1.2.1]; simp
        | block pre kw arg preD lb subs pc rb' =>
          simp only [Src.items, List.append_assoc, List.cons_append] at hs
          rw [peek_to pre kw _ hw1.1 (by simp [hw1.2.1]) s hs, hw1.2.1]; simp
      simp only [pStar]
      rw [pair_eta (peekNS (s.items.length + 1) s)]
      simp only [hnr, ↓reduceIte, h1, h2, treeL, bind, Except.bind, pure, Except.pure]
end


/-! ### the fuel `parse` gives is enough -/

theorem argItems_len (a : SArg) : 0 ≤ a.items.length := Nat.zero_le _

mutual
theorem need_le : (src : Src) → src.need ≤ src.items.length ∧ 2 ≤ src.items.length
  | .leaf pre kw arg preD semi => by
    simp only [Src.need, Src.items, List.length_append, List.length_cons, List.length_nil]; omega
  | .block pre kw arg preD lb subs preC rb => by
    have := needL_le subs
    simp only [Src.need, Src.items, List.length_append, List.length_cons, List.length_nil]; omega
theorem needL_le : (subs : List Src) → needL subs ≤ (itemsL subs).length + 1
  | [] => by simp [needL, itemsL]
  | s :: r => by
    have h1 := need_le s
    have h2 := needL_le r
    simp only [needL, itemsL, List.length_append]; omega
end

/-- the body of `parse.Parse` after lexing, on the item list -/
def parseItems (chk : Stmt → Bool) (input : Bytes) (items : List Item) : P (Stmt × PS) := do
  let (st, s1) ← pStmt chk input (items.length + 2) { items := items }
  let (_, s2) ← expectT .eof s1
  pure (st, s2)

theorem parseItems_spec (input : Bytes) (src : Src) (hw : src.wf) (seps : List Item) (eof : Item)
    (hseps : AllSep seps) (heof : eof.typ = .eof) :
    ∃ s', parseItems noChk input (src.items ++ (seps ++ [eof])) = .ok (src.tree, s') ∧ s'.items = [] := by
  have hn := (need_le src).1
  obtain ⟨s1, h1, hs1⟩ := pStmt_spec input src hw ((src.items ++ (seps ++ [eof])).length + 2)
    (by simp only [List.length_append]; omega) { items := src.items ++ (seps ++ [eof]) } (seps ++ [eof]) rfl
  obtain ⟨s2, h2, hs2⟩ := expectT_to .eof seps eof [] hseps heof (by simp) s1 hs1
  refine ⟨s2, ?_, hs2⟩
  simp only [parseItems, h1, h2, bind, Except.bind, pure, Except.pure]

end YV.Y
