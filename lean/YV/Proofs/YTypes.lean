/-
  Proofs.YTypes — a derived integer / length restriction the compiler accepts denotes a subset of its base
  (and is ordered and disjoint): `createRangeBdry` is sound for every base and every restriction, any number
  of parts, with contiguous base parts merged on the fly.
-/
import YV.Model.YTypes
namespace YV.T
open YV

@[simp] theorem intOps_lt (a b : Int) : intOps.lt a b = decide (a < b) := rfl
@[simp] theorem intOps_contig (a b : Int) : intOps.contiguous a b = (a + 1 == b) := rfl

def InSet (rs : List (Int × Int)) (v : Int) : Prop := ∃ p ∈ rs, p.1 ≤ v ∧ v ≤ p.2

theorem inRanges_iff (rs : List (Int × Int)) (v : Int) : inRanges rs v = true ↔ InSet rs v := by
  simp only [inRanges, List.any_eq_true, Bool.and_eq_true, decide_eq_true_eq, InSet]

def lastHiOf : List (Int × Int) → Int
  | [] => 0
  | [(_, e)] => e
  | _ :: b :: r => lastHiOf (b :: r)

theorem lastHi_eq (l : List (Int × Int)) : lastHi l = lastHiOf l := by
  induction l with
  | nil => rfl
  | cons a r ih =>
    cases r with
    | nil => obtain ⟨s, e⟩ := a; simp [lastHi, lastHiOf]
    | cons b r' =>
      simp only [lastHi, List.getLast?_cons_cons] at ih ⊢
      simp only [lastHiOf]
      exact ih

theorem blockMin_sound (S : Int → Prop) (cur : Option (Int × Int)) (cs ce : Int)
    (hcur : ∀ mn mx, cur = some (mn, mx) → ∀ v, mn ≤ v → v ≤ mx → S v)
    (hpart : ∀ v, cs ≤ v → v ≤ ce → S v) :
    ∀ v, blockMin intOps cur cs ≤ v → v ≤ ce → S v := by
  intro v hv1 hv2
  cases cur with
  | none => exact hpart v (by simpa [blockMin] using hv1) hv2
  | some c =>
    obtain ⟨mn, mx⟩ := c
    simp only [blockMin, intOps_contig] at hv1
    by_cases hc : (mx + 1 == cs) = true
    · simp only [hc, ↓reduceIte] at hv1
      have hc' : mx + 1 = cs := by simpa using hc
      by_cases hle : v ≤ mx
      · exact hcur mn mx rfl v hv1 hle
      · exact hpart v (by omega) hv2
    · simp only [hc, Bool.false_eq_true, ↓reduceIte] at hv1
      exact hpart v hv1 hv2

/-- the loop of `createRangeBdry`: if it lets [start, stop] through, every value of it is a value of the
    base (S), provided the block accumulated so far and all remaining base parts are within S -/
theorem fits_sound (S : Int → Prop) (start stop : Int) (rest : List (Int × Int)) (cur : Option (Int × Int))
    (hne : rest ≠ [])
    (hcur : ∀ mn mx, cur = some (mn, mx) → ∀ v, mn ≤ v → v ≤ mx → S v)
    (hrest : ∀ p ∈ rest, ∀ v, p.1 ≤ v → v ≤ p.2 → S v)
    (hlast : stop ≤ lastHiOf rest)
    (h : fitsBase intOps start stop cur rest = true) :
    ∀ v, start ≤ v → v ≤ stop → S v := by
  induction rest generalizing cur with
  | nil => exact absurd rfl hne
  | cons p rest' ih =>
    have hb := blockMin_sound S cur p.1 p.2 hcur (hrest p (by simp))
    simp only [fitsBase] at h
    by_cases h1 : (!intOps.lt start (blockMin intOps cur p.1) && !intOps.lt p.2 stop) = true
    · simp only [intOps_lt, Bool.and_eq_true, Bool.not_eq_true', decide_eq_false_iff_not, Int.not_lt] at h1
      intro v hv1 hv2
      exact hb v (by omega) (by omega)
    · simp only [h1, Bool.false_eq_true, ↓reduceIte] at h
      by_cases h2 : intOps.lt start (blockMin intOps cur p.1) = true
      · rw [if_pos h2] at h; cases h
      · rw [if_neg h2] at h
        have h2' : blockMin intOps cur p.1 ≤ start := by
          simpa using h2
        have h1' : p.2 < stop := by
          simp only [intOps_lt, Bool.and_eq_true, Bool.not_eq_true', decide_eq_false_iff_not, Int.not_lt, not_and, Int.not_le] at h1
          exact h1 h2'
        cases rest' with
        | nil => obtain ⟨cs, ce⟩ := p; simp only [lastHiOf] at hlast; omega
        | cons q r =>
          apply ih (some (blockMin intOps cur p.1, p.2)) (by simp)
          · intro mn mx he v hv1 hv2
            simp only [Option.some.injEq, Prod.mk.injEq] at he
            obtain ⟨rfl, rfl⟩ := he
            exact hb v hv1 hv2
          · intro p' hp'; exact hrest p' (by simp [hp'])
          · obtain ⟨cs, ce⟩ := p; simpa [lastHiOf] using hlast
          · exact h

theorem stepPart_sound (base : List (Int × Int)) (hne : base ≠ []) (p : Part Int) (q : Int × Int)
    (h : stepPart intOps base p = some q) : ∀ v, q.1 ≤ v → v ≤ q.2 → InSet base v := by
  simp only [stepPart] at h
  split at h
  · simp at h
  · rename_i hlo
    split at h
    · simp at h
    · rename_i hhi
      split at h
      · simp at h
      · rename_i hfit
        simp only [Option.some.injEq] at h; subst h
        simp only [Bool.not_eq_true', Bool.not_eq_false] at hfit
        -- stop ≤ the upper end of the base
        have hstop : p.hi.getD (lastHi base) ≤ lastHiOf base := by
          rw [← lastHi_eq]
          cases hh : p.hi with
          | none => simp
          | some x =>
            simp only [hh, Option.isSome_some, Bool.true_and, Option.getD_some, intOps_lt, decide_eq_true_eq, Int.not_lt] at hhi
            simpa using hhi
        exact fits_sound (InSet base) _ _ base none hne (by intro mn mx he; cases he)
          (fun p' hp' v hv1 hv2 => ⟨p', hp', hv1, hv2⟩) hstop hfit

theorem mapM_mem {α β} (f : α → Option β) (l : List α) (r : List β) (h : l.mapM f = some r) :
    ∀ y ∈ r, ∃ x ∈ l, f x = some y := by
  induction l generalizing r with
  | nil => simp [List.mapM_nil] at h; subst h; intro y hy; cases hy
  | cons a l ih =>
    rw [List.mapM_cons] at h
    cases ha : f a with
    | none => simp [ha] at h
    | some b =>
      cases hl : l.mapM f with
      | none => simp [ha, hl] at h
      | some bs =>
        simp [ha, hl] at h
        subst h
        intro y hy
        cases hy with
        | head => exact ⟨a, by simp, ha⟩
        | tail _ hy' =>
          obtain ⟨x, hx, hfx⟩ := ih bs hl y hy'
          exact ⟨x, by simp [hx], hfx⟩

/-- **soundness of range / length restriction** (integer types, string lengths): whatever the base and
    whatever is written, if `createRangeBdry` accepts, every value of the result is a value of the base,
    and the result is in ascending order with pairwise disjoint parts. -/
theorem restrict_sound (base : List (Int × Int)) (hne : base ≠ []) (parts : List (Part Int)) (rs : List (Int × Int))
    (h : restrict intOps base parts = some rs) :
    (∀ v, InSet rs v → InSet base v) ∧ orderedDisjoint intOps rs = true := by
  simp only [restrict] at h
  cases hm : parts.mapM (stepPart intOps base) with
  | none => simp [hm] at h
  | some rs' =>
    simp only [hm] at h
    split at h
    · simp at h
    · split at h
      · rename_i hod
        simp only [Option.some.injEq] at h; subst h
        refine ⟨?_, hod⟩
        rintro v ⟨q, hq, hv⟩
        obtain ⟨p, _, hp⟩ := mapM_mem _ _ _ hm q hq
        exact stepPart_sound base hne p q hp v hv.1 hv.2
      · simp at h

end YV.T
