/-
  Proofs.XRun — facts about `XM.run`: a program that ends in `store` yields a value or an error,
  never both and never neither; the first failing instruction decides the error.
-/
import YV.Model.XPathM
namespace YV.XM
open YV YV.X YV.XP

theorem execTrace_append (fx : Bool) (t : Tree) (p q : List PI) (s : MSt) :
    execTrace fx t (p ++ q) s =
      (match execTrace fx t p s with
       | (s', some e) => (s', some e)
       | (s', none) => execTrace fx t q s') := by
  induction p generalizing s with
  | nil => simp [execTrace]
  | cons i p ih =>
    simp only [List.cons_append, execTrace]
    cases h : step fx t i s with
    | error f => simp
    | ok s' => simp [ih]

theorem step_store_res (fx : Bool) (t : Tree) (s s' : MSt) (h : step fx t .store s = .ok s') :
    s'.res.isSome = true := by
  simp only [step] at h
  cases hp : liftM (pop s.stack) with
  | error f => simp [hp, bind, Except.bind] at h
  | ok v =>
    obtain ⟨d, σ⟩ := v
    simp only [hp, bind, Except.bind] at h
    split at h
    · simp [panic] at h
    · simp [pure, Except.pure] at h
      simp [← h]

/-- value xor error, for every program that ends with `store` (every compiled machine does) -/
theorem run_value_xor_error (fx : Bool) (t : Tree) (p : List PI) :
    let o := run fx t (p ++ [.store])
    (o.value.isSome = true ∧ o.err.isNone = true) ∨ (o.value.isNone = true ∧ o.err.isSome = true) := by
  simp only [run, execTrace_append]
  cases h : execTrace fx t p {} with
  | mk s' e =>
    cases e with
    | some e => simp
    | none =>
      simp only [execTrace]
      cases hs : step fx t .store s' with
      | error f => simp
      | ok s'' =>
        simp only [execTrace]
        have := step_store_res fx t s' s'' hs
        simp [this]

/-- the error a run reports is the error of the first instruction that failed (nothing later replaces it) -/
theorem run_first_error (fx : Bool) (t : Tree) (p q : List PI) (i : PI) (s : MSt) (f : Fail)
    (hp : execTrace fx t p {} = (s, none)) (hi : step fx t i s = .error f) :
    (run fx t (p ++ i :: q)).err = some f.err ∧ (run fx t (p ++ i :: q)).value = none := by
  simp [run, execTrace_append, hp, execTrace, hi]

/-- a prefix on a step never changes the request: the machine ignores it -/
theorem step_prefix_irrelevant (fx : Bool) (t : Tree) (p p' loc : List XL.Rune) (s : MSt) :
    step fx t (.namePush p loc) s = step fx t (.namePush p' loc) s := rfl

end YV.XM
