/-
  Proofs.XCmp — the comparison instruction of the model (context.go popCompare… / compareNodesetsAndPush)
  against the declarative comparison of Spec.XSem (§3.4), and string→number of the model against the
  grammar reading of §4.4.
-/
import YV.Spec.XSem
namespace YV.XS
open YV YV.X

theorem dropWhile_isEmpty_iff {α} (p : α → Bool) (l : List α) : (l.dropWhile p).isEmpty = l.all p := by
  induction l with
  | nil => rfl
  | cons a r ih =>
    by_cases h : p a
    · simp [List.dropWhile, h, ih]
    · simp [List.dropWhile, h]

theorem takeWhile_of_all {α} (p : α → Bool) (l : List α) (h : l.all p = true) : l.takeWhile p = l := by
  induction l with
  | nil => rfl
  | cons a r ih =>
    simp only [List.all_cons, Bool.and_eq_true] at h
    simp [List.takeWhile, h.1, ih h.2]

theorem dropWhile_head_not {α} (p : α → Bool) (l : List α) (a : α) (r : List α)
    (h : l.dropWhile p = a :: r) : p a = false := by
  induction l with
  | nil => simp at h
  | cons b t ih =>
    by_cases hb : p b
    · simp [List.dropWhile, hb] at h; exact ih h
    · simp [List.dropWhile, hb] at h; rw [← h.1]; simpa using hb

def sign (t : Str) : Bool × Str := match t with | '-' :: r => (true, r) | r => (false, r)

def coreM (neg : Bool) (r : Str) : Option (Bool × Str × Str) :=
  let ip := r.takeWhile isDigit
  let r1 := r.dropWhile isDigit
  match r1 with
  | [] => if ip.isEmpty then none else some (neg, ip, [])
  | '.' :: r2 =>
    let fp := r2.takeWhile isDigit
    let r3 := r2.dropWhile isDigit
    if !r3.isEmpty then none
    else if ip.isEmpty && fp.isEmpty then none
    else some (neg, ip, fp)
  | _ => none

def coreS (neg : Bool) (body : Str) : SF :=
  let ip := body.takeWhile isDigit
  let rest := body.dropWhile isDigit
  let mk (ip fp : Str) : SF := SF.ofDecimal neg (digitsVal (ip ++ fp)) (Int.neg (Int.ofNat fp.length))
  if !ip.isEmpty then
    match rest with
    | [] => mk ip []
    | '.' :: fr => if fr.all isDigit then mk ip fr else .nan
    | _ => .nan
  else
    match rest with
    | '.' :: fr => if !fr.isEmpty && fr.all isDigit then mk [] fr else .nan
    | _ => .nan

theorem parseX_eq (t : Str) : parseXNumber t = coreM (sign t).1 (sign t).2 := rfl

theorem numberOfString_eq (s : Str) : numberOfString s = coreS (sign (trimXWS s)).1 (sign (trimXWS s)).2 := rfl

def toSF : Option (Bool × Str × Str) → SF
  | none => .nan
  | some (neg, ip, fp) => SF.ofDecimal neg (digitsVal (ip ++ fp)) (Int.neg (Int.ofNat fp.length))

/-- the model's recogniser and the grammar reading of `Number` agree on every string -/
theorem core_eq (neg : Bool) (body : Str) : toSF (coreM neg body) = coreS neg body := by
  unfold coreM coreS
  simp only []
  cases hr : body.dropWhile isDigit with
  | nil =>
    by_cases hip : (body.takeWhile isDigit).isEmpty
    · simp [hip, toSF]
    · simp [hip, toSF]
  | cons c r2 =>
    by_cases hc : c = '.'
    · subst hc
      simp only []
      by_cases hall : r2.all isDigit = true
      · have h3 : (r2.dropWhile isDigit).isEmpty = true := by rw [dropWhile_isEmpty_iff]; exact hall
        have ht : r2.takeWhile isDigit = r2 := takeWhile_of_all _ _ hall
        by_cases hip : (body.takeWhile isDigit).isEmpty
        · by_cases hfp : r2.isEmpty
          · simp [h3, ht, hip, hfp, toSF]
          · have : (body.takeWhile isDigit) = [] := by simpa using hip
            simp [h3, ht, hip, hfp, hall, this, toSF]
        · simp [h3, ht, hip, hall, toSF]
      · have h3 : (r2.dropWhile isDigit).isEmpty = false := by
          rw [dropWhile_isEmpty_iff]; simpa using hall
        by_cases hip : (body.takeWhile isDigit).isEmpty <;> simp [h3, hip, hall, toSF]
    · have e1 : ∀ {β} (z : β) (x : List Char → β) (y : β),
          (match (c :: r2 : Str) with | [] => z | '.' :: q => x q | _ => y) = y := by
        intro β z x y; split
        · rename_i h; cases h
        · rename_i h; injection h with h1 _; exact absurd h1 hc
        · rfl
      have e2 : ∀ {β} (x : List Char → β) (y : β),
          (match (c :: r2 : Str) with | '.' :: q => x q | _ => y) = y := by
        intro β x y; split
        · rename_i h; injection h with h1 _; exact absurd h1 hc
        · rfl
      rw [e1]
      by_cases hip : (body.takeWhile isDigit).isEmpty
      · simp only [hip, Bool.not_true, Bool.false_eq_true, if_false]; rw [e2]; rfl
      · simp only [hip, Bool.not_false, if_true]; rw [e1]; rfl

/-- string → number of the model is §4.4 `number()` in the variant that keeps the two spelled infinities -/
theorem numberFromString_eq (s : Str) : numberFromString s = numOfStr true s := by
  unfold numberFromString numOfStr
  simp only [numberOfString_eq, parseX_eq, ← core_eq, Bool.true_and]
  by_cases h1 : trimXWS s = "Infinity".toList
  · simp [h1]
  · by_cases h2 : trimXWS s = "-Infinity".toList
    · simp [h2]
    · simp only [h1, h2, if_false]
      cases coreM (sign (trimXWS s)).1 (sign (trimXWS s)).2 with
      | none => rfl
      | some x => obtain ⟨a, b, c⟩ := x; rfl


/-! ### comparisons -/

def cmpOp (op : BinOp) : Bool := op = .eq || op = .ne || op = .lt || op = .gt || op = .le || op = .ge

theorem anyM_lit (l : List Str) (g : Datum → M Bool) (h : Str → Bool) (hg : ∀ s, g (.lit s) = .ok (h s)) :
    (l.map Datum.lit).anyM g = .ok (l.any h) := by
  induction l with
  | nil => rfl
  | cons a r ih =>
    simp only [List.map_cons, List.anyM, hg, List.any_cons]
    cases h a <;> simp [ih, bind, Except.bind, pure, Except.pure]

theorem toNum_lit (s : Str) : (Datum.lit s).toNum = .ok (numOfStr true s) := by
  simp [Datum.toNum, numberFromString_eq]

/-- scalar against scalar -/
theorem compare_scalar (op : BinOp) (hop : cmpOp op = true) (a b : Datum)
    (ha : asSet a = none) (hb : asSet b = none) (hia : a ≠ .invalid) (hib : b ≠ .invalid) :
    X.compare op a b = .ok (cmpScalar true op (ofDatum a) (ofDatum b)) := by
  cases a <;> simp [asSet] at ha <;> try (exact absurd rfl hia)
  all_goals (cases b <;> simp [asSet] at hb <;> try (exact absurd rfl hib))
  all_goals (cases op <;> simp [cmpOp] at hop)
  all_goals simp [X.compare, asSet, eqScalar, cmpScalar, isRel, numRel, ofDatum, Datum.isBool, Datum.isNum,
    Datum.toBool, Datum.toNum, Datum.toLit, numberOf, booleanOf, stringOf, stringOfNumber, numberFromString_eq,
    bind, Except.bind, pure, Except.pure]


/-- the element-wise test of `compareNodesetsAndPush` -/
def inner (op : BinOp) (x y : Datum) : M Bool :=
  if (op ≠ .eq && op ≠ .ne) then do pure (numCmp op (← x.toNum) (← y.toNum)) else eqScalar op x y

theorem inner_scalar (op : BinOp) (hop : cmpOp op = true) (x y : Datum)
    (hx : asSet x = none) (hy : asSet y = none) (hix : x ≠ .invalid) (hiy : y ≠ .invalid) :
    inner op x y = .ok (cmpScalar true op (ofDatum x) (ofDatum y)) := by
  have h := compare_scalar op hop x y hx hy hix hiy
  unfold X.compare at h
  simp only [hx, hy] at h
  exact h

theorem anyM_one (g : Datum → M Bool) (b : Datum) : [b].anyM g = g b := by
  simp only [List.anyM]
  cases g b with
  | error e => rfl
  | ok v => cases v <;> rfl

/-- `compare` when at least one operand is a non-empty set and no boolean is involved -/
theorem compare_sets (op : BinOp) (a b : Datum) (h : ¬ (asSet a = none ∧ asSet b = none))
    (hea : asSet a ≠ some []) (heb : asSet b ≠ some []) (hba : a.isBool = false) (hbb : b.isBool = false) :
    X.compare op a b =
      (match asSet a with | some l => l.map Datum.lit | none => [a]).anyM fun x =>
        (match asSet b with | some l => l.map Datum.lit | none => [b]).anyM fun y => inner op x y := by
  unfold X.compare inner
  cases ha : asSet a with
  | none =>
    cases hb : asSet b with
    | none => exact absurd ⟨ha, hb⟩ h
    | some lb =>
      have : lb ≠ [] := fun e => heb (by rw [hb, e])
      simp [hba, hbb, this]
  | some la =>
    have : la ≠ [] := fun e => hea (by rw [ha, e])
    cases hb : asSet b with
    | none => simp [hba, hbb, this]
    | some lb =>
      have : lb ≠ [] := fun e => heb (by rw [hb, e])
      simp [hba, hbb, this, *]


theorem ofDatum_lit (s : Str) : ofDatum (.lit s) = .str s := rfl

/-- the comparison instruction is the §3.4 comparison, for every pair of operands -/
theorem compare_spec (op : BinOp) (hop : cmpOp op = true) (a b : Datum)
    (hia : a ≠ .invalid) (hib : b ≠ .invalid) :
    X.compare op a b = .ok (cmp true op (ofDatum a) (ofDatum b)) := by
  -- an empty set on either side
  by_cases hea : asSet a = some []
  · have : ofDatum a = .nset [] := by
      cases a <;> simp [asSet] at hea <;> simp [ofDatum, *]
    rw [this]; unfold X.compare; simp [hea, cmp]; rfl
  by_cases heb : asSet b = some []
  · have hb' : ofDatum b = .nset [] := by
      cases b <;> simp [asSet] at heb <;> simp [ofDatum, *]
    rw [hb']; unfold X.compare
    have : cmp true op (ofDatum a) (.nset []) = false := by
      cases h : ofDatum a with
      | nset l => cases l <;> simp [cmp]
      | _ => simp [cmp]
    simp [heb, this]; rfl
  -- both scalars
  by_cases hs : asSet a = none ∧ asSet b = none
  · rw [compare_scalar op hop a b hs.1 hs.2 hia hib]
    cases a <;> (first | exact absurd rfl hia | skip) <;> cases b <;> (first | exact absurd rfl hib | skip) <;> simp [asSet] at hs <;> simp [ofDatum, cmp]
  -- a boolean against a non-empty set
  by_cases hb : a.isBool = true ∨ b.isBool = true
  · cases a <;> cases b <;> simp [Datum.isBool, asSet] at hb hs hea heb <;> (try (exact absurd rfl hia)) <;> (try (exact absurd rfl hib))
    all_goals (cases op <;> simp [cmpOp] at hop)
    all_goals simp [X.compare, asSet, eqScalar, cmpScalar, isRel, numRel, ofDatum, Datum.isBool, Datum.isNum,
      Datum.toBool, Datum.toNum, Datum.toLit, numberOf, booleanOf, cmp, *,
      bind, Except.bind, pure, Except.pure]
    all_goals (rename_i ds; cases ds <;> simp [cmp, cmpScalar, isRel, numRel, numberOf, booleanOf] at * )
  · have hba : a.isBool = false := by cases h : a.isBool <;> simp [h] at hb ⊢
    have hbb : b.isBool = false := by cases h : b.isBool <;> simp [h] at hb ⊢
    rw [compare_sets op a b hs hea heb hba hbb]
    cases a with
    | invalid => exact absurd rfl hia
    | bool _ => simp [Datum.isBool] at hba
    | emptyNodeset => simp [asSet] at hea
    | slice la =>
      cases la with
      | nil => simp [asSet] at hea
      | cons x xs =>
      cases b with
      | invalid => exact absurd rfl hib
      | bool _ => simp [Datum.isBool] at hbb
      | emptyNodeset => simp [asSet] at heb
      | slice lb =>
        cases lb with
        | nil => simp [asSet] at heb
        | cons y ys =>
        simp only [asSet]
        rw [anyM_lit _ _ (fun s => (y :: ys).any fun t => cmpScalar true op (.str s) (.str t))]
        · simp [ofDatum, cmp]
        · intro s
          exact anyM_lit _ _ _ (fun t => inner_scalar op hop (.lit s) (.lit t) rfl rfl (by simp) (by simp))
      | lit t =>
        simp only [asSet]
        rw [anyM_lit _ _ (fun s => cmpScalar true op (.str s) (.str t))]
        · simp [ofDatum, cmp]
        · intro s; rw [anyM_one]; exact inner_scalar op hop (.lit s) (.lit t) rfl rfl (by simp) (by simp)
      | num n =>
        simp only [asSet]
        rw [anyM_lit _ _ (fun s => cmpScalar true op (.str s) (.num n))]
        · simp [ofDatum, cmp]
        · intro s; rw [anyM_one]; exact inner_scalar op hop (.lit s) (.num n) rfl rfl (by simp) (by simp)
    | lit s =>
      cases b with
      | slice lb =>
        cases lb with
        | nil => simp [asSet] at heb
        | cons y ys =>
        simp only [asSet]; rw [anyM_one]
        rw [anyM_lit _ _ (fun t => cmpScalar true op (.str s) (.str t))]
        · simp [ofDatum, cmp]
        · intro t; exact inner_scalar op hop (.lit s) (.lit t) rfl rfl (by simp) (by simp)
      | _ => simp [asSet] at hs heb <;> first | exact absurd rfl hib | simp [Datum.isBool] at hbb
    | num n =>
      cases b with
      | slice lb =>
        cases lb with
        | nil => simp [asSet] at heb
        | cons y ys =>
        simp only [asSet]; rw [anyM_one]
        rw [anyM_lit _ _ (fun t => cmpScalar true op (.num n) (.str t))]
        · simp [ofDatum, cmp]
        · intro t; exact inner_scalar op hop (.num n) (.lit t) rfl rfl (by simp) (by simp)
      | _ => simp [asSet] at hs heb <;> first | exact absurd rfl hib | simp [Datum.isBool] at hbb

end YV.XS
