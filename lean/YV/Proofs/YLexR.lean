/-
  Proofs.YLexR — the YANG lexer reads back what was written: a text given as a sequence of lexemes — runs of
  blanks, block and line comments, unquoted words, double- and single-quoted strings, braces, semicolons, '+' —
  is turned into exactly the items of those lexemes, with their byte positions, followed by EOF.  A comment
  yields no item; a blank run yields one separator item.
-/
import YV.Proofs.YLex
namespace YV.Y

inductive Lx where
  | ws (bs : Bytes)          -- a maximal run of blanks / tabs / CR / LF
  | blockC (body : Bytes)    -- /* body */
  | lineC (body : Bytes)     -- // body LF
  | lineE (body : Bytes)     -- // body, at the very end of the text (its last line has no line break)
  | word (w : Bytes)         -- an unquoted string
  | dq (s : Bytes)           -- "s"
  | sq (s : Bytes)           -- 's'
  | lb | rb | semi | plus
  deriving Repr

def Lx.bytes : Lx → Bytes
  | .ws bs => bs
  | .blockC body => 47 :: 42 :: (body ++ [42, 47])
  | .lineC body => 47 :: 47 :: (body ++ [10])
  | .lineE body => 47 :: 47 :: body
  | .word w => w
  | .dq s => 34 :: (s ++ [34])
  | .sq s => 39 :: (s ++ [39])
  | .lb => [123] | .rb => [125] | .semi => [59] | .plus => [43]

def renderL : List Lx → Bytes
  | [] => []
  | x :: r => x.bytes ++ renderL r

/-- the items one lexeme gives when it starts at byte `pos` -/
def Lx.items (pos : Nat) : Lx → List Item
  | .ws bs => [⟨.sep, pos, bs⟩]
  | .blockC _ => []
  | .lineC _ => []
  | .lineE _ => []
  | .word w => [⟨.string, pos, w⟩]
  | .dq s => [⟨.quote, pos, [34]⟩, ⟨.string, pos + 1, s⟩, ⟨.quote, pos + 1 + s.length, [34]⟩]
  | .sq s => [⟨.quote, pos, [39]⟩, ⟨.string, pos + 1, s⟩, ⟨.quote, pos + 1 + s.length, [39]⟩]
  | .lb => [⟨.lbrace, pos, [123]⟩]
  | .rb => [⟨.rbrace, pos, [125]⟩]
  | .semi => [⟨.semi, pos, [59]⟩]
  | .plus => [⟨.plus, pos, [43]⟩]

def itemsFrom : Nat → List Lx → List Item
  | pos, [] => [⟨.eof, pos, []⟩]
  | pos, x :: r => x.items pos ++ itemsFrom (pos + x.bytes.length) r

/-- no "*/" inside -/
def noStarSlash : Bytes → Bool
  | 42 :: 47 :: _ => false
  | _ :: r => noStarSlash r
  | [] => true

/-- the content of a double-quoted string: every backslash takes the next byte with it, no bare quote -/
def dqBody : Bytes → Bool
  | [] => true
  | 92 :: _ :: r => dqBody r
  | [92] => false
  | c :: r => c ≠ 34 && dqBody r

/-- what may follow: nothing, or a byte satisfying `p` -/
def nextIs (p : Nat → Bool) (rest : Bytes) : Prop := rest = [] ∨ ∃ c r, rest = c :: r ∧ p c = true

def Lx.ok (rest : Bytes) : Lx → Prop
  | .ws bs => bs ≠ [] ∧ bs.all isSep = true ∧ nextIs (fun c => !isSep c) rest
  | .blockC body => noStarSlash body = true
  | .lineC body => body.all (· ≠ 10) = true
  | .lineE body => body.all (· ≠ 10) = true ∧ rest = []
  | .word w =>
    w ≠ [] ∧ w.all (fun c => !isTerminator c) = true ∧ nextIs isTerminator rest ∧
      w.head? ≠ some 43 ∧ w.head? ≠ some 39 ∧ ¬ (w.head? = some 47 ∧ (w.drop 1).head? = some 42) ∧
      ¬ (w.head? = some 47 ∧ (w.drop 1).head? = some 47)
  | .dq s => dqBody s = true
  | .sq s => s.all (· ≠ 39) = true
  | _ => True

/-- a well-formed text at nesting depth `d`: every lexeme is well-formed in front of what follows, a closing
    brace has its opening one, and all blocks are closed at the end -/
def okL : Nat → List Lx → Prop
  | d, [] => d = 0
  | d, .lb :: r => okL (d + 1) r
  | d, .rb :: r => d > 0 ∧ okL (d - 1) r
  | d, x :: r => x.ok (renderL r) ∧ okL d r

/-! ### scanning helpers -/

theorem takeWhile_run (p : Nat → Bool) (run rest : Bytes) (h : run.all p = true) (hn : nextIs (fun c => !p c) rest) :
    (run ++ rest).takeWhile p = run := by
  induction run with
  | nil =>
    rcases hn with rfl | ⟨c, r, rfl, hc⟩
    · rfl
    · simp at hc; simp [List.takeWhile, hc]
  | cons a run ih =>
    simp only [List.all_cons, Bool.and_eq_true] at h
    simp [List.takeWhile, h.1, ih h.2]

theorem noStarSlash_cons (c : Nat) (r : Bytes) :
    noStarSlash (c :: r) = true ↔ ¬ (c = 42 ∧ r.head? = some 47) ∧ noStarSlash r = true := by
  by_cases hc : c = 42
  · subst hc
    cases r with
    | nil => simp [noStarSlash]
    | cons d r' =>
      by_cases hd : d = 47
      · subst hd; simp [noStarSlash]
      · rw [noStarSlash]
        · simp [hd]
        · intros; simp_all
  · rw [noStarSlash]
    · simp [hc]
    · intros; simp_all

theorem find2_body (body rest : Bytes) (h : noStarSlash body = true) :
    find2 42 47 (body ++ 42 :: 47 :: rest) = some body.length := by
  induction body with
  | nil => simp [find2]
  | cons c r ih =>
    obtain ⟨h1, h2⟩ := (noStarSlash_cons c r).mp h
    have ih' := ih h2
    cases r with
    | nil =>
      simp only [List.nil_append, List.cons_append] at ih' ⊢
      rw [find2, ih']
      simp
    | cons d r' =>
      simp only [List.cons_append] at ih' ⊢
      rw [find2, ih']
      have : ¬ (c = 42 ∧ d = 47) := fun ⟨e1, e2⟩ => h1 ⟨e1, by simp [e2]⟩
      by_cases e1 : c = 42 <;> by_cases e2 : d = 47 <;> simp_all

theorem find1_body (body rest : Bytes) (h : body.all (· ≠ 10) = true) :
    find1 10 (body ++ 10 :: rest) = some body.length := by
  induction body with
  | nil => simp [find1]
  | cons c r ih =>
    simp only [List.all_cons, Bool.and_eq_true, decide_eq_true_eq] at h
    simp [find1, h.1, ih h.2]

theorem find1_none (body : Bytes) (h : body.all (· ≠ 10) = true) : find1 10 body = none := by
  induction body with
  | nil => rfl
  | cons c r ih =>
    simp only [List.all_cons, Bool.and_eq_true, decide_eq_true_eq] at h
    simp [find1, h.1, ih h.2]

theorem scan_sq (s rest : Bytes) (h : s.all (· ≠ 39) = true) (f : Nat) (hf : s.length < f) :
    scanQuoted 39 f (s ++ 39 :: rest) = some (s, 39 :: rest) := by
  induction s generalizing f with
  | nil =>
    cases f with
    | zero => omega
    | succ f => simp [scanQuoted]
  | cons c r ih =>
    cases f with
    | zero => omega
    | succ f =>
      simp only [List.all_cons, Bool.and_eq_true, decide_eq_true_eq] at h
      simp only [List.cons_append, scanQuoted]
      have := ih h.2 f (by simp at hf; omega)
      by_cases hc : c = 92
      · simp [hc, this]
      · simp [hc, h.1, this]

theorem dqBody_esc (d : Nat) (r : Bytes) : dqBody (92 :: d :: r) = dqBody r := by rw [dqBody]
theorem dqBody_cons (c : Nat) (r : Bytes) (hc : c ≠ 92) : dqBody (c :: r) = (decide (c ≠ 34) && dqBody r) := by
  rw [dqBody]
  · intros; simp_all
  · intros; simp_all

theorem scan_dq_aux (n : Nat) : ∀ (s rest : Bytes), s.length ≤ n → dqBody s = true → ∀ (f : Nat), s.length < f →
    scanQuoted 34 f (s ++ 34 :: rest) = some (s, 34 :: rest) := by
  induction n with
  | zero =>
    intro s rest hl _ f hf
    have : s = [] := by cases s <;> simp_all
    subst this
    cases f with
    | zero => omega
    | succ f => simp [scanQuoted]
  | succ n ih =>
    intro s rest hl h f hf
    cases s with
    | nil =>
      cases f with
      | zero => omega
      | succ f => simp [scanQuoted]
    | cons c r =>
      cases f with
      | zero => omega
      | succ f =>
        by_cases hc : c = 92
        · subst hc
          cases r with
          | nil => simp [dqBody] at h
          | cons d r' =>
            rw [dqBody_esc] at h
            have := ih r' rest (by simp at hl; omega) h f (by simp at hf; omega)
            simp [scanQuoted, this]
        · rw [dqBody_cons c r hc] at h
          simp only [Bool.and_eq_true, decide_eq_true_eq] at h
          have := ih r rest (by simp at hl; omega) h.2 f (by simp at hf; omega)
          simp [scanQuoted, hc, h.1, this]

theorem scan_dq (s rest : Bytes) (h : dqBody s = true) (f : Nat) (hf : s.length < f) :
    scanQuoted 34 f (s ++ 34 :: rest) = some (s, 34 :: rest) :=
  scan_dq_aux s.length s rest (Nat.le_refl _) h f hf

/-! ### one lexeme -/

theorem sep_cases {c : Nat} (h : isSep c = true) : c = 32 ∨ c = 9 ∨ c = 13 ∨ c = 10 := by
  simp only [isSep, Bool.or_eq_true, decide_eq_true_eq] at h
  rcases h with ((h | h) | h) | h <;> simp [h]

theorem step_ws (bs rest : Bytes) (hok : (Lx.ws bs).ok rest) (f pos d : Nat) :
    lexItems true (f + 1) (bs ++ rest) pos d =
      (lexItems true f rest (pos + bs.length) d).map ((Lx.ws bs).items pos ++ ·) := by
  obtain ⟨hne, hall, hnext⟩ := hok
  cases bs with
  | nil => exact absurd rfl hne
  | cons c run =>
    simp only [List.all_cons, Bool.and_eq_true] at hall
    have hc := sep_cases hall.1
    have h47 : c ≠ 47 := by rcases hc with h | h | h | h <;> omega
    have htw : (run ++ rest).takeWhile isSep = run := takeWhile_run isSep run rest hall.2 hnext
    simp only [List.cons_append, lexItems, h47, decide_false, Bool.false_and, Bool.false_eq_true, ↓reduceIte, hall.1, htw,
      List.drop_left, Lx.items, List.length_cons, List.singleton_append, List.cons_append, List.nil_append]
    rw [show pos + 1 + run.length = pos + (run.length + 1) by omega]

theorem term_not {c : Nat} (h : isTerminator c = false) :
    isSep c = false ∧ c ≠ 59 ∧ c ≠ 123 ∧ c ≠ 34 ∧ c ≠ 125 := by
  simp only [isTerminator, Bool.or_eq_false_iff, decide_eq_false_iff_not] at h
  exact ⟨h.1.1.1.1, h.1.1.1.2, h.1.1.2, h.1.2, h.2⟩

theorem step_word (w rest : Bytes) (hok : (Lx.word w).ok rest) (f pos d : Nat) :
    lexItems true (f + 1) (w ++ rest) pos d =
      (lexItems true f rest (pos + w.length) d).map ((Lx.word w).items pos ++ ·) := by
  obtain ⟨hne, hall, hnext, h43, h39, hbc, hlc⟩ := hok
  cases w with
  | nil => exact absurd rfl hne
  | cons c w' =>
    simp only [List.all_cons, Bool.and_eq_true, Bool.not_eq_true'] at hall
    obtain ⟨hsep, h59, h123, h34, h125⟩ := term_not hall.1
    have hc43 : c ≠ 43 := fun e => h43 (by simp [e])
    have hc39 : c ≠ 39 := fun e => h39 (by simp [e])
    -- the second byte of the text, if the first is '/'
    have hsecond : ∀ x, (x = 42 ∨ x = 47) → ¬ (c = 47 ∧ (w' ++ rest).head? = some x) := by
      intro x hx ⟨e1, e2⟩
      cases w' with
      | nil =>
        simp only [List.nil_append] at e2
        rcases hnext with rfl | ⟨y, r, rfl, hy⟩
        · simp at e2
        · simp only [List.head?_cons, Option.some.injEq] at e2
          subst e2
          rcases hx with rfl | rfl <;> simp [isTerminator, isSep] at hy
      | cons y r =>
        simp only [List.cons_append, List.head?_cons, Option.some.injEq] at e2
        subst e2
        rcases hx with rfl | rfl
        · exact hbc ⟨by simp [e1], by simp⟩
        · exact hlc ⟨by simp [e1], by simp⟩
    have hb : (decide (c = 47) && decide ((w' ++ rest).head? = some 42)) = false := by
      have := hsecond 42 (Or.inl rfl)
      by_cases e1 : c = 47 <;> simp_all
    have hl : (decide (c = 47) && decide ((w' ++ rest).head? = some 47)) = false := by
      have := hsecond 47 (Or.inr rfl)
      by_cases e1 : c = 47 <;> simp_all
    have hrun : (c :: (w' ++ rest)).takeWhile (fun x => !isTerminator x) = c :: w' := by
      have := takeWhile_run (fun x => !isTerminator x) (c :: w') rest
        (by simp only [List.all_cons, Bool.and_eq_true, Bool.not_eq_true']; exact hall)
        (by
          rcases hnext with rfl | ⟨y, r, rfl, hy⟩
          · exact Or.inl rfl
          · exact Or.inr ⟨y, r, rfl, by simp [hy]⟩)
      simpa using this
    simp only [List.cons_append, lexItems, hb, hl, Bool.false_eq_true, ↓reduceIte, hsep, h34, hc39, decide_false, Bool.or_self,
      h123, h125, h59, hc43, hrun, List.length_cons, Bool.not_true, Bool.and_false, Lx.items, List.singleton_append,
      List.cons_append, List.nil_append]
    have : (c :: (w' ++ rest)).drop (w'.length + 1) = rest := by simp
    rw [this]

theorem drop_mid (body mid rest : Bytes) (n : Nat) (hn : n = body.length + mid.length) :
    (body ++ (mid ++ rest)).drop n = rest := by
  subst hn
  rw [← List.append_assoc, show body.length + mid.length = (body ++ mid).length by simp]
  exact List.drop_left

theorem step_blockC (body rest : Bytes) (hok : (Lx.blockC body).ok rest) (f pos d : Nat) :
    lexItems true (f + 1) ((Lx.blockC body).bytes ++ rest) pos d =
      lexItems true f rest (pos + (Lx.blockC body).bytes.length) d := by
  have hf := find2_body body rest hok
  have hb : (Lx.blockC body).bytes ++ rest = 47 :: 42 :: (body ++ 42 :: 47 :: rest) := by simp [Lx.bytes]
  have hl : (Lx.blockC body).bytes.length = body.length + 4 := by simp [Lx.bytes]
  rw [hb, hl, lexItems]
  simp only [decide_true, List.head?_cons, Bool.and_self, ↓reduceIte, List.drop_succ_cons, List.drop_zero, hf]
  rw [show body ++ 42 :: 47 :: rest = body ++ ([42, 47] ++ rest) by simp,
    drop_mid body [42, 47] rest (1 + body.length + 1) (by simp; omega)]
  congr 1
  omega

theorem step_lineC (body rest : Bytes) (hok : (Lx.lineC body).ok rest) (f pos d : Nat) :
    lexItems true (f + 1) ((Lx.lineC body).bytes ++ rest) pos d =
      lexItems true f rest (pos + (Lx.lineC body).bytes.length) d := by
  have hf := find1_body body rest hok
  have hb : (Lx.lineC body).bytes ++ rest = 47 :: 47 :: (body ++ 10 :: rest) := by simp [Lx.bytes]
  have hl : (Lx.lineC body).bytes.length = body.length + 3 := by simp [Lx.bytes]
  rw [hb, hl, lexItems]
  simp only [decide_true, List.head?_cons, Bool.true_and, Option.some.injEq, Nat.reduceEqDiff, decide_false,
    Bool.false_eq_true, ↓reduceIte, Bool.and_self, List.drop_succ_cons, List.drop_zero, hf]
  rw [show body ++ 10 :: rest = body ++ ([10] ++ rest) by simp,
    drop_mid body [10] rest (1 + body.length) (by simp; omega)]
  congr 1
  omega

theorem step_lineE (body : Bytes) (hok : body.all (· ≠ 10) = true) (f pos d : Nat) :
    lexItems true (f + 1) (Lx.lineE body).bytes pos d =
      lexItems true f [] (pos + (Lx.lineE body).bytes.length) d := by
  have hf := find1_none body hok
  have hl : (Lx.lineE body).bytes.length = body.length + 2 := by simp [Lx.bytes]
  rw [hl, show (Lx.lineE body).bytes = 47 :: 47 :: body from rfl, lexItems]
  simp only [decide_true, List.head?_cons, Bool.true_and, Option.some.injEq, Nat.reduceEqDiff, decide_false,
    Bool.false_eq_true, ↓reduceIte, Bool.and_self, List.drop_succ_cons, List.drop_zero, hf]
  congr 1
  omega

theorem step_dq (s rest : Bytes) (hok : (Lx.dq s).ok rest) (f pos d : Nat) :
    lexItems true (f + 1) ((Lx.dq s).bytes ++ rest) pos d =
      (lexItems true f rest (pos + (Lx.dq s).bytes.length) d).map ((Lx.dq s).items pos ++ ·) := by
  have hs := scan_dq s rest hok ((s ++ 34 :: rest).length + 1) (by simp; omega)
  have hb : (Lx.dq s).bytes ++ rest = 34 :: (s ++ 34 :: rest) := by simp [Lx.bytes]
  have hl : (Lx.dq s).bytes.length = s.length + 2 := by simp [Lx.bytes]
  rw [hb, hl, lexItems]
  simp only [Nat.reduceEqDiff, decide_false, Bool.false_and, Bool.false_eq_true, ↓reduceIte, isSep, Bool.or_self,
    decide_true, Bool.true_or, hs, List.drop_succ_cons, List.drop_zero, Lx.items, List.cons_append, List.nil_append]
  rw [show pos + 1 + s.length + 1 = pos + (s.length + 2) by omega]

theorem step_sq (s rest : Bytes) (hok : (Lx.sq s).ok rest) (f pos d : Nat) :
    lexItems true (f + 1) ((Lx.sq s).bytes ++ rest) pos d =
      (lexItems true f rest (pos + (Lx.sq s).bytes.length) d).map ((Lx.sq s).items pos ++ ·) := by
  have hs := scan_sq s rest hok ((s ++ 39 :: rest).length + 1) (by simp; omega)
  have hb : (Lx.sq s).bytes ++ rest = 39 :: (s ++ 39 :: rest) := by simp [Lx.bytes]
  have hl : (Lx.sq s).bytes.length = s.length + 2 := by simp [Lx.bytes]
  rw [hb, hl, lexItems]
  simp only [Nat.reduceEqDiff, decide_false, Bool.false_and, Bool.false_eq_true, ↓reduceIte, isSep, Bool.or_self,
    decide_true, Bool.or_true, hs, List.drop_succ_cons, List.drop_zero, Lx.items, List.cons_append, List.nil_append]
  rw [show pos + 1 + s.length + 1 = pos + (s.length + 2) by omega]

/-! ### the whole text -/

theorem step_lb (rest : Bytes) (f pos d : Nat) :
    lexItems true (f + 1) (123 :: rest) pos d = (lexItems true f rest (pos + 1) (d + 1)).map (⟨.lbrace, pos, [123]⟩ :: ·) := by
  simp [lexItems, isSep]
theorem step_rb (rest : Bytes) (f pos d : Nat) (hd : d > 0) :
    lexItems true (f + 1) (125 :: rest) pos d = (lexItems true f rest (pos + 1) (d - 1)).map (⟨.rbrace, pos, [125]⟩ :: ·) := by
  have : d ≠ 0 := by omega
  simp [lexItems, isSep, this]
theorem step_semi (rest : Bytes) (f pos d : Nat) :
    lexItems true (f + 1) (59 :: rest) pos d = (lexItems true f rest (pos + 1) d).map (⟨.semi, pos, [59]⟩ :: ·) := by
  simp [lexItems, isSep]
theorem step_plus (rest : Bytes) (f pos d : Nat) :
    lexItems true (f + 1) (43 :: rest) pos d = (lexItems true f rest (pos + 1) d).map (⟨.plus, pos, [43]⟩ :: ·) := by
  simp [lexItems, isSep]

/-- **the lexer reads back the lexemes**, with positions; comments leave no item -/
theorem lex_lexemes : ∀ (L : List Lx) (f pos d : Nat), okL d L → L.length < f →
    lexItems true f (renderL L) pos d = some (itemsFrom pos L)
  | [], f, pos, d, hok, hf => by
    cases f with
    | zero => omega
    | succ f =>
      simp only [okL] at hok
      subst hok
      simp [renderL, lexItems, itemsFrom]
  | x :: r, f, pos, d, hok, hf => by
    cases f with
    | zero => omega
    | succ f =>
      have hf' : r.length < f := by simp at hf; omega
      cases x with
      | lb =>
        simp only [okL] at hok
        simp only [renderL, Lx.bytes, List.singleton_append, List.cons_append, List.nil_append, step_lb,
          lex_lexemes r f (pos + 1) (d + 1) hok hf', Option.map_some, itemsFrom, Lx.items, List.length_singleton]
      | rb =>
        simp only [okL] at hok
        simp only [renderL, Lx.bytes, List.singleton_append, List.cons_append, List.nil_append, step_rb _ _ _ _ hok.1,
          lex_lexemes r f (pos + 1) (d - 1) hok.2 hf', Option.map_some, itemsFrom, Lx.items, List.length_singleton]
      | semi =>
        simp only [okL] at hok
        simp only [renderL, Lx.bytes, List.singleton_append, List.cons_append, List.nil_append, step_semi,
          lex_lexemes r f (pos + 1) d hok.2 hf', Option.map_some, itemsFrom, Lx.items, List.length_singleton]
      | plus =>
        simp only [okL] at hok
        simp only [renderL, Lx.bytes, List.singleton_append, List.cons_append, List.nil_append, step_plus,
          lex_lexemes r f (pos + 1) d hok.2 hf', Option.map_some, itemsFrom, Lx.items, List.length_singleton]
      | ws bs =>
        simp only [okL] at hok
        simp only [renderL, Lx.bytes, step_ws bs _ hok.1, lex_lexemes r f (pos + bs.length) d hok.2 hf',
          Option.map_some, itemsFrom]
      | word w =>
        simp only [okL] at hok
        simp only [renderL, Lx.bytes, step_word w _ hok.1, lex_lexemes r f (pos + w.length) d hok.2 hf',
          Option.map_some, itemsFrom]
      | blockC body =>
        simp only [okL] at hok
        simp only [renderL, step_blockC body _ hok.1, lex_lexemes r f _ d hok.2 hf', itemsFrom, Lx.items, List.nil_append]
      | lineC body =>
        simp only [okL] at hok
        simp only [renderL, step_lineC body _ hok.1, lex_lexemes r f _ d hok.2 hf', itemsFrom, Lx.items, List.nil_append]
      | lineE body =>
        simp only [okL, Lx.ok] at hok
        have hr := lex_lexemes r f (pos + (Lx.lineE body).bytes.length) d hok.2 hf'
        rw [hok.1.2] at hr
        simp only [renderL, hok.1.2, List.append_nil, step_lineE body hok.1.1, hr, itemsFrom, Lx.items, List.nil_append]
      | dq q =>
        simp only [okL] at hok
        simp only [renderL, step_dq q _ hok.1, lex_lexemes r f _ d hok.2 hf', Option.map_some, itemsFrom]
      | sq q =>
        simp only [okL] at hok
        simp only [renderL, step_sq q _ hok.1, lex_lexemes r f _ d hok.2 hf', Option.map_some, itemsFrom]

theorem renderL_length_ge : ∀ (L : List Lx) (d : Nat), okL d L → L.length ≤ (renderL L).length
  | [], _, _ => by simp [renderL]
  | x :: r, d, hok => by
    have hx : 1 ≤ x.bytes.length ∧ ∃ d', okL d' r := by
      cases x with
      | lb => simp only [okL] at hok; exact ⟨by simp [Lx.bytes], _, hok⟩
      | rb => simp only [okL] at hok; exact ⟨by simp [Lx.bytes], _, hok.2⟩
      | semi => simp only [okL] at hok; exact ⟨by simp [Lx.bytes], _, hok.2⟩
      | plus => simp only [okL] at hok; exact ⟨by simp [Lx.bytes], _, hok.2⟩
      | ws bs =>
        simp only [okL] at hok
        refine ⟨?_, _, hok.2⟩
        have := hok.1.1
        cases bs <;> simp_all [Lx.bytes]
      | word w =>
        simp only [okL] at hok
        refine ⟨?_, _, hok.2⟩
        have := hok.1.1
        cases w <;> simp_all [Lx.bytes]
      | blockC body => simp only [okL] at hok; exact ⟨by simp [Lx.bytes], _, hok.2⟩
      | lineC body => simp only [okL] at hok; exact ⟨by simp [Lx.bytes], _, hok.2⟩
      | lineE body => simp only [okL] at hok; exact ⟨by simp [Lx.bytes], _, hok.2⟩
      | dq q => simp only [okL] at hok; exact ⟨by simp [Lx.bytes], _, hok.2⟩
      | sq q => simp only [okL] at hok; exact ⟨by simp [Lx.bytes], _, hok.2⟩
    obtain ⟨h1, d', h2⟩ := hx
    have := renderL_length_ge r d' h2
    simp only [renderL, List.length_cons, List.length_append]
    omega

/-- **`lex` on a written text** -/
theorem lex_render (L : List Lx) (hok : okL 0 L) : lex true (renderL L) = some (itemsFrom 0 L) := by
  unfold lex
  exact lex_lexemes L _ 0 0 hok (by have := renderL_length_ge L 0 hok; omega)

end YV.Y
