/-
  Proofs.YEnc — decoding the JSON / RFC 7951 encoding of a well-formed tree gives the tree back (at the level
  of JSON values: the bytes ↔ values layer is the standard library's).
-/
import YV.Model.YEnc
namespace YV.E
open YV YV.Y YV.SC YV.D

variable {τ : Type}

/-- a value the writer can represent faithfully for its kind -/
def validValue (k : VK) (v : Bytes) : Bool :=
  match k with
  | .empty => v.isEmpty
  | .bool => v = tTrue || v = tFalse
  | _ => true

theorem decode_write (rfc : Bool) (k : VK) (v : Bytes) (hk : k ≠ .empty) (hv : validValue k v = true) :
    decodeValue (writeValue rfc k v) = some v := by
  cases k with
  | empty => exact absurd rfl hk
  | bool =>
    simp only [validValue, Bool.or_eq_true, decide_eq_true_eq] at hv
    rcases hv with h | h <;> subst h <;> simp [writeValue, decodeValue, lit, tTrue, tFalse]
  | num32 => simp [writeValue, decodeValue]
  | num64 => cases rfc <;> simp [writeValue, decodeValue]
  | other => simp [writeValue, decodeValue]

/-- a leaf: one value, of any kind (an empty leaf is written [null] / null and read back as "") -/
theorem values_write (rfc : Bool) (k : VK) (v : Bytes) (hv : validValue k v = true) :
    values (writeValue rfc k v) = some [v] := by
  cases k with
  | empty =>
    simp only [validValue, List.isEmpty_iff] at hv; subst hv
    cases rfc <;> simp [writeValue, values, decodeValue]
  | bool =>
    simp only [validValue, Bool.or_eq_true, decide_eq_true_eq] at hv
    rcases hv with h | h <;> subst h <;> simp [writeValue, values, decodeValue, lit, tTrue, tFalse]
  | num32 => simp [writeValue, values, decodeValue]
  | num64 => cases rfc <;> simp [writeValue, values, decodeValue]
  | other => simp [writeValue, values, decodeValue]

/-- a leaf-list: every value comes back, in order -/
theorem values_write_list (rfc : Bool) (k : VK) (hk : k ≠ .empty) : ∀ vals : List Bytes,
    (∀ v ∈ vals, validValue k v = true) → values (.arr (vals.map (writeValue rfc k))) = some vals := by
  intro vals hv
  simp only [values]
  induction vals with
  | nil => rfl
  | cons v r ih =>
    simp only [List.map_cons, List.mapM_cons, decode_write rfc k v hk (hv v (by simp))]
    rw [ih (fun x hx => hv x (by simp [hx]))]
    rfl

theorem stripMod_of_noColon (n : Tok) (h : n.contains 58 = false) : stripMod n = n := by
  unfold stripMod; rw [h]; rfl

theorem dropWhile_prefix (a n : Tok) (ha : a.contains 58 = false) :
    (a ++ [58] ++ n).dropWhile (· ≠ 58) = 58 :: n := by
  induction a with
  | nil => simp
  | cons x r ih =>
    simp only [List.contains_cons, Bool.or_eq_false_iff, beq_eq_false_iff_ne] at ha
    have hx : x ≠ 58 := fun h => ha.1 h.symm
    simp only [List.cons_append, List.dropWhile_cons, hx, ne_eq, not_false_eq_true, decide_true, if_true]
    simpa using ih ha.2

theorem stripMod_jname (rfc : Bool) (pm md n : Tok) (hm : md.contains 58 = false)
    (hn : n.contains 58 = false) : stripMod (jname rfc pm md n) = n := by
  unfold jname
  by_cases h : (rfc && decide (md ≠ pm)) = true
  · simp only [h, if_true, stripMod]
    have : (md ++ [58] ++ n).contains 58 = true := by simp
    simp only [this, if_true, dropWhile_prefix md n hm]
    rfl
  · simp only [h]; exact stripMod_of_noColon n hn

/-! ### well-formed data: what a valid tree looks like to the encoders -/

mutual
def wfKids (kind : τ → VK) (kids : List (SN τ)) : List DN → Bool
  | [] => true
  | d :: r =>
    (match lookup d.name (dataKids kids), d with
     | some (.container _ _ ck), .mk n dk vals => !n.contains 58 && vals.isEmpty && wfKids kind ck dk
     | some (.list _ keys _ _ _ ck), .mk n es vals => !n.contains 58 && vals.isEmpty && wfEntries kind ck (keys.headD []) es
     | some (.leaf _ ty _ _), .mk n dk vals =>
       !n.contains 58 && dk.isEmpty && (match vals with | [v] => validValue (kind ty) v | _ => false)
     | some (.leafList _ ty _ _), .mk n dk vals =>
       !n.contains 58 && dk.isEmpty && decide (kind ty ≠ .empty) && vals.all (validValue (kind ty))
     | _, _ => false) && !(r.any fun x => x.name = d.name) && wfKids kind kids r
/-- the entries of a list: named by the value of their key leaf -/
def wfEntries (kind : τ → VK) (kids : List (SN τ)) (key : Tok) : List DN → Bool
  | [] => true
  | .mk en ek ev :: r =>
    ev.isEmpty && wfKids kind kids ek &&
      decide (((ek.find? fun (d : DN) => d.name = key).bind fun d => d.vals.head?) = some en) &&
      !(r.any fun e => e.name = en) && wfEntries kind kids key r
end


theorem obind_some {α β} (a : α) (f : α → Option β) : ((some a : Option α) >>= f) = f a := rfl

/-- the members the writer produces carry the names of the nodes: a name no node has, no member has -/
theorem enc_no_name (kind : τ → VK) (rfc : Bool) (mo : List Tok → Tok) (hm : ∀ p, (mo p).contains 58 = false)
    (kids : List (SN τ)) (path : List Tok) (pm : Tok) (x : Tok) :
    ∀ (ds : List DN), wfKids kind kids ds = true → (ds.any fun d => d.name = x) = false →
      ((encKids kind rfc mo path pm kids ds).any fun kv => stripMod kv.1 = x) = false
  | [], _, _ => by simp [encKids]
  | d :: r, h, hx => by
    rw [wfKids.eq_def] at h
    simp only [Bool.and_eq_true] at h
    obtain ⟨⟨hd, _⟩, hr⟩ := h
    simp only [List.any_cons, Bool.or_eq_false_iff, decide_eq_false_iff_not] at hx
    obtain ⟨hdx, hrx⟩ := hx
    have ihr := enc_no_name kind rfc mo hm kids path pm x r hr hrx
    cases d with
    | mk n dk vals =>
      simp only [DN.name] at hd hdx
      rw [encKids.eq_def]
      simp only [DN.name, List.any_append, ihr, Bool.or_false]
      cases hl : lookup n (dataKids kids) with
      | none => simp [hl] at hd
      | some sn =>
        simp only [hl] at hd ⊢
        cases sn with
        | container cn cp ck =>
          simp only [Bool.and_eq_true, Bool.not_eq_true'] at hd
          simp [stripMod_jname rfc pm (mo (path ++ [n])) n (hm _) hd.1.1, hdx]
        | list ln keys mn mx us ck =>
          simp only [Bool.and_eq_true, Bool.not_eq_true'] at hd
          simp [stripMod_jname rfc pm (mo (path ++ [n])) n (hm _) hd.1.1, hdx]
        | leaf fn ty fd fm =>
          simp only [Bool.and_eq_true, Bool.not_eq_true'] at hd
          simp [stripMod_jname rfc pm (mo (path ++ [n])) n (hm _) hd.1.1, hdx]
        | leafList fn ty mn mx =>
          simp only [Bool.and_eq_true, Bool.not_eq_true'] at hd
          simp [stripMod_jname rfc pm (mo (path ++ [n])) n (hm _) hd.1.1.1, hdx]
        | choice a b c e => simp at hd
        | case a b => simp at hd

mutual
/-- **round trip (JSON values).** decoding what the writer produces for the children of a node gives the
    children back — names, values, order -/
theorem dec_enc_kids (kind : τ → VK) (rfc : Bool) (mo : List Tok → Tok) (hm : ∀ p, (mo p).contains 58 = false)
    (kids : List (SN τ)) :
    ∀ (path : List Tok) (pm : Tok) (ds : List DN), wfKids kind kids ds = true →
      decKids kids (encKids kind rfc mo path pm kids ds) = some ds
  | path, pm, [], _ => by simp [encKids, decKids]
  | path, pm, d :: r, h => by
    rw [wfKids.eq_def] at h
    simp only [Bool.and_eq_true] at h
    obtain ⟨⟨hd, hnd⟩, hr⟩ := h
    have ihr := dec_enc_kids kind rfc mo hm kids path pm r hr
    cases d with
    | mk n dk vals =>
      simp only [DN.name, Bool.not_eq_true'] at hd hnd
      have hno := enc_no_name kind rfc mo hm kids path pm n r hr hnd
      rw [encKids.eq_def]
      simp only [DN.name]
      cases hl : lookup n (dataKids kids) with
      | none => simp [hl] at hd
      | some sn =>
        simp only [hl] at hd ⊢
        cases sn with
        | container cn cp ck =>
          simp only [Bool.and_eq_true, Bool.not_eq_true', List.isEmpty_iff] at hd
          obtain ⟨⟨hn, hv⟩, hk⟩ := hd
          subst hv
          simp only [List.singleton_append]
          rw [decKids.eq_def]
          simp only [stripMod_jname rfc pm (mo (path ++ [n])) n (hm _) hn, hl, hno]
          rw [dec_enc_kids kind rfc mo hm ck (path ++ [n]) (mo (path ++ [n])) dk hk, ihr]
          rfl
        | list ln keys mn mx us ck =>
          simp only [Bool.and_eq_true, Bool.not_eq_true', List.isEmpty_iff] at hd
          obtain ⟨⟨hn, hv⟩, hk⟩ := hd
          subst hv
          simp only [List.singleton_append]
          rw [decKids.eq_def]
          simp only [stripMod_jname rfc pm (mo (path ++ [n])) n (hm _) hn, hl, hno]
          rw [dec_enc_entries kind rfc mo hm ck (keys.headD []) (path ++ [n]) (mo (path ++ [n])) dk hk, ihr]
          rfl
        | leaf fn ty fd fm =>
          simp only [Bool.and_eq_true, Bool.not_eq_true', List.isEmpty_iff] at hd
          obtain ⟨⟨hn, hk⟩, hv⟩ := hd
          subst hk
          match vals, hv with
          | [v], hv =>
            simp only [List.singleton_append]
            rw [decKids.eq_def]
            simp only [stripMod_jname rfc pm (mo (path ++ [n])) n (hm _) hn, hl, hno, values_write rfc (kind ty) v hv, ihr]
            rfl
        | leafList fn ty mn mx =>
          simp only [Bool.and_eq_true, Bool.not_eq_true', List.isEmpty_iff, decide_eq_true_eq, List.all_eq_true] at hd
          obtain ⟨⟨⟨hn, hk⟩, hne⟩, hv⟩ := hd
          subst hk
          simp only [List.singleton_append]
          rw [decKids.eq_def]
          simp only [stripMod_jname rfc pm (mo (path ++ [n])) n (hm _) hn, hl, hno, values_write_list rfc (kind ty) hne vals hv, ihr]
          rfl
        | choice a b c e => simp at hd
        | case a b => simp at hd
theorem dec_enc_entries (kind : τ → VK) (rfc : Bool) (mo : List Tok → Tok) (hm : ∀ p, (mo p).contains 58 = false)
    (kids : List (SN τ)) (key : Tok) : ∀ (path : List Tok) (pm : Tok) (es : List DN), wfEntries kind kids key es = true →
      decEntries kids key (encEntries kind rfc mo path pm kids es) = some es
  | path, pm, [], _ => by simp [encEntries, decEntries]
  | path, pm, .mk en ek ev :: r, h => by
    rw [wfEntries.eq_def] at h
    simp only [Bool.and_eq_true, List.isEmpty_iff, decide_eq_true_eq] at h
    obtain ⟨⟨⟨⟨hv, hk⟩, hkey⟩, hnd⟩, hr⟩ := h
    subst hv
    simp only [Bool.not_eq_true'] at hnd
    rw [encEntries.eq_def]
    simp only []
    rw [decEntries.eq_def]
    simp only []
    rw [dec_enc_kids kind rfc mo hm kids path pm ek hk]
    simp only [obind_some, hkey, dec_enc_entries kind rfc mo hm kids key path pm r hr, hnd]
    rfl
end

end YV.E
