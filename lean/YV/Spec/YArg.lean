/-
  Spec.YArg — RFC 6020 §6.1.3, read on the source text: the value of a statement argument written as
  unquoted text, single-quoted text (verbatim), or double-quoted text (trailing blanks before a line break
  and indentation of continuation lines up to the column of the opening quote — a tab counting 8 columns —
  are stripped; then \n \t \" \\ are substituted), pieces joined by '+'.
-/
import YV.Model.YParse
namespace YV.YS
open YV YV.Y

/-- left-to-right substitution of the four defined escapes; any other backslash pair is kept as is
    (the property names the four escapes that are substituted; `\r`, which the code substitutes as well —
    deliberately, its own test expects it — is outside what is compared with this specification) -/
def unescape : Bytes → Bytes
  | [] => []
  | 92 :: c :: r =>
    if c = 110 then 10 :: unescape r
    else if c = 116 then 9 :: unescape r
    else if c = 34 then 34 :: unescape r
    else if c = 92 then 92 :: unescape r
    else 92 :: c :: unescape r
  | c :: r => c :: unescape r

/-- strip up to `col` columns of blanks (a tab counts 8; a tab that crosses the column is replaced by the
    blanks that remain) or up to the first non-blank, whichever comes first -/
def stripColumns (col : Nat) : Nat → Bytes → Bytes
  | _, [] => []
  | w, c :: r =>
    if w ≥ col then c :: r
    else if c = 32 then stripColumns col (w + 1) r
    else if c = 9 then (if w + 8 > col then List.replicate (w + 8 - col) 32 ++ r else stripColumns col (w + 8) r)
    else c :: r

def stripTrailing (s : Bytes) : Bytes := (s.reverse.dropWhile (fun c => c = 32 || c = 9)).reverse

/-- lines of the raw text with their line breaks: (text, break) where break is [], [10] or [13,10] -/
def rawLines (s : Bytes) : List (Bytes × Bytes) :=
  (splitLF s).zipIdx.map fun (l, i) =>
    if i + 1 = (splitLF s).length then (l, [])
    else match l.reverse with
      | 13 :: b => (b.reverse, [13, 10])
      | _ => (l, [10])

def decodeDQ (col : Nat) (raw : Bytes) : Bytes :=
  let ls := rawLines raw
  let body := (ls.zipIdx.map fun ((l, br), i) =>
    let l1 := if i > 0 then stripColumns col 0 l else l
    let l2 := if br.isEmpty then l1 else stripTrailing l1
    l2 ++ br).flatten
  unescape body

inductive Piece
  | unquoted (s : Bytes)
  | single (s : Bytes)
  | double (col : Nat) (raw : Bytes)
  deriving Repr

def decodePiece : Piece → Bytes
  | .unquoted s => s
  | .single s => s
  | .double col raw => decodeDQ col raw

def decodeArg (ps : List Piece) : Bytes := (ps.map decodePiece).flatten

/-- does the double-quoted text contain the pair `\r`, or one of \n \t while the decoded text has a line
    break?  RFC 6020 does not fix the order of trimming and substitution; such texts are compared
    implementation-vs-model only. -/
def hasEscape (cs : List Nat) : Bytes → Bool
  | 92 :: c :: r => cs.contains c || hasEscape cs r
  | _ :: r => hasEscape cs r
  | [] => false

/-- the pair `\r` (read as pairs from the left: the `r` after an escaped backslash is not one) -/
def undefinedEscape : Bytes → Bool
  | 92 :: c :: r => c = 114 || undefinedEscape r
  | _ :: r => undefinedEscape r
  | [] => false

def orderSensitive (raw : Bytes) : Bool :=
  undefinedEscape raw ||
    (hasEscape [110, 116, 114] raw && ((unescape raw).contains 10 || raw.contains 10))

def pieceDontCare : Piece → Bool
  | .double _ raw => orderSensitive raw
  | _ => false

end YV.YS
