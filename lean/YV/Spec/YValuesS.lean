/-
  Spec.YValuesS — the value space of pattern-restricted strings, identityrefs and unions (RFC 6020 §9.4.6,
  §9.10, §9.12), stated independently of the validator: a regular expression denotes a language; an
  identity is a value of an identityref iff a chain of `base` statements leads from it up to the
  identityref's base (the base itself is not a value); a union accepts iff some member does.
-/
import YV.Model.YValues
import YV.Spec.YTypesS
namespace YV.VS
open YV YV.Y YV.T YV.TS YV.V

/-- the language of a regular expression (what "the pattern matches the whole string" means) -/
inductive Lang : Re → List Nat → Prop
  | eps : Lang .eps []
  | chr {c} : Lang (.chr c) [c]
  | any {c} : c ≠ 10 → Lang .any [c]
  | cls {neg rs c} : (inCls rs c != neg) = true → Lang (.cls neg rs) [c]
  | seq {a b s t} : Lang a s → Lang b t → Lang (.seq a b) (s ++ t)
  | altL {a b s} : Lang a s → Lang (.alt a b) s
  | altR {a b s} : Lang b s → Lang (.alt a b) s
  | starNil {a} : Lang (.star a) []
  | starCons {a s t} : Lang a s → Lang (.star a) t → Lang (.star a) (s ++ t)

/-- `i` is derived from `b` through at most `f` base statements, walking upwards from `i` -/
def up (ids : List Ident) : Nat → Ident → Bytes × Bytes → Bool
  | 0, _, _ => false
  | f + 1, i, b =>
    match i.base with
    | none => false
    | some p => p = b || ids.any fun j => j.key = p && up ids f j b

inductive SVT where
  | scalar (t : STy) (pats : List Re)
  | ident (ids : List Ident) (leafMod : Bytes) (base : Bytes × Bytes)
  | union (ms : List SVT)

mutual
def acceptsV : SVT → Bytes → Bool
  | .scalar t pats, s => accepts t s && pats.all fun r => reMatch r ((XL.decode s).map (·.cp))
  | .ident ids lm b, s => ids.any fun i => render lm i = s && up ids ids.length i b
  | .union ms, s => acceptsAny ms s
def acceptsAny : List SVT → Bytes → Bool
  | [], _ => false
  | m :: r, s => acceptsV m s || acceptsAny r s
end

end YV.VS
