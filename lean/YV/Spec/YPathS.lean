/-
  Spec.YPathS — what it means for a token path to walk a schema (property C17), independently of the
  child maps the compiled tree keeps: the schema is first seen through its *data view*, in which choice
  and case nodes do not exist (RFC 6020 §7.9: they are not data nodes), every list shows the type of its
  key, and every node is one of container / list / leaf / leaf-list.  A path is then judged left to
  right; a rejection names the index of the first token that cannot be consumed (or the length of the
  path when the path is merely incomplete) and why.
-/
import YV.Model.YSchema
namespace YV.SS
open YV YV.Y YV.SC

inductive V (τ : Type) where
  | cont (presence : Bool) (kids : List (Tok × V τ))
  | list (key : Option τ) (kids : List (Tok × V τ))
  | leaf (ty : τ)
  | leafList (ty : τ)
  | notData                     -- a choice or case met where a data node is expected (ill-formed tree)

variable {τ : Type}

def assoc {β : Type} (k : Tok) : List (Tok × β) → Option β
  | [] => none
  | (k', v) :: r => if k' = k then some v else assoc k r

def leafTy : V τ → Option τ
  | .leaf t => some t
  | _ => none

mutual
def view : SN τ → V τ
  | .container _ pr kids => .cont pr (viewKids kids)
  | .list _ keys _ _ _ kids =>
    .list (keys.head?.bind fun k => (assoc k (viewKids kids)).bind leafTy) (viewKids kids)
  | .leaf _ ty _ _ => .leaf ty
  | .leafList _ ty _ _ => .leafList ty
  | .choice .. => .notData
  | .case .. => .notData
/-- the data children of a node: choices are transparent -/
def viewKids : List (SN τ) → List (Tok × V τ)
  | [] => []
  | .choice _ _ _ cases :: r => viewCases cases ++ viewKids r
  | x :: r => (x.name, view x) :: viewKids r
/-- the data children contributed by the cases of a choice: cases are transparent -/
def viewCases : List (SN τ) → List (Tok × V τ)
  | [] => []
  | .case _ kids :: r => viewKids kids ++ viewCases r
  | x :: r => (x.name, view x) :: viewCases r
end

inductive Why | unknown | value | incomplete
  deriving DecidableEq, Repr

inductive Verdict
  | ok
  | bad (k : Nat) (why : Why)       -- k = number of tokens that were consumed before the offending one
  | internal
  deriving DecidableEq, Repr

/-- is `v` a value of the type (an `empty` leaf has no value: only the absent value "") -/
def valueOK (sem : TySem τ) (ty : τ) (v : Tok) : Bool :=
  if sem.isEmpty ty then v.isEmpty else sem.accepts ty v

/-- after a leaf / leaf-list name: at most one more token, the value -/
def leafS (sem : TySem τ) (allowInc : Bool) (needsValue : Bool) (ty : τ) (k : Nat) : List Tok → Verdict
  | [] => if !needsValue || allowInc then .ok else .bad k .incomplete
  | [v] => if valueOK sem ty v then .ok else .bad k .value
  | v :: _ :: _ => if valueOK sem ty v then .bad (k + 1) .unknown else .bad k .value

def walkS (sem : TySem τ) (allowInc : Bool) (v : V τ) (k : Nat) (p : List Tok) : Verdict :=
  match v with
  | .leaf ty => leafS sem allowInc (!sem.isEmpty ty) ty k p
  | .leafList ty => leafS sem allowInc true ty k p
  | .notData => .internal
  | .cont presence kids =>
    (match p with
     | [] => if presence || allowInc then .ok else .bad k .incomplete
     | h :: t =>
       match assoc h kids with
       | none => .bad k .unknown
       | some c => walkS sem allowInc c (k + 1) t)
  | .list key kids =>
    (match p with
     | [] => if allowInc then .ok else .bad k .incomplete
     | kv :: rest =>
       match key with
       | none => .internal
       | some kty =>
         if !valueOK sem kty kv then .bad k .value
         else match rest with
           | [] => .ok
           | h :: t =>
             match assoc h kids with
             | none => .bad (k + 1) .unknown
             | some c => walkS sem allowInc c (k + 2) t)
termination_by p.length
decreasing_by all_goals (simp_wf; try omega)

/-- the whole schema: the (virtual) root is a presence node whose children are the top-level data nodes -/
def walkTop (sem : TySem τ) (allowInc : Bool) (top : List (SN τ)) (p : List Tok) : Verdict :=
  match p with
  | [] => .ok
  | h :: t =>
    match assoc h (viewKids top) with
    | none => .bad 0 .unknown
    | some c => walkS sem allowInc c 1 t

/-- what an implementation error says, in the terms of the specification -/
def proj : Except VErr Unit → Verdict
  | .ok () => .ok
  | .error (.pathInvalid path _) => .bad path.length .unknown
  | .error (.missingChild path) => .bad path.length .incomplete
  | .error (.missingValue path) => .bad path.length .incomplete
  | .error (.badValue path) => .bad (path.length - 1) .value
  | .error (.emptyValue path _) => .bad path.length .value
  | .error (.internal _) => .internal

end YV.SS
