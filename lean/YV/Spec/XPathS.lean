/-
  Spec.XPathS — what a supported location path designates (property C02), written on the syntax tree,
  independently of the stack machine: root-based iff absolute, one element per step in order, every
  predicate [key = operand] attached as a key of the step it follows (whatever the predicate order),
  with value string(operand); operand paths are resolved, in source order, before the enclosing path.
-/
import YV.Spec.XSem
import YV.Model.XPathM
namespace YV.XPS

open YV YV.X YV.XS YV.XM

inductive SRoot | abs | rel | cur
  deriving DecidableEq, Repr

inductive SStep | up | name (n : Str)
  deriving DecidableEq, Repr

/-- predicate-free operand path: absolute, current()-rooted, or relative (then it starts with '..') -/
structure SPath where
  root : SRoot
  steps : List SStep
  deriving Repr

inductive Operand
  | lit (s : Str) | num (x : SF) | scalar (e : Expr) | path (p : SPath)
  /-- a function result whose arguments include paths: `.env i` in `e` stands for the value of `ps[i]` -/
  | scalarP (e : Expr) (ps : List SPath)
  deriving Repr

inductive Step
  | up
  | named (n : Str) (preds : List (Str × Operand))
  deriving Repr, Inhabited

inductive PathE
  | basic (root : SRoot) (steps : List Step)
  | deref (inner : PathE) (steps : List Step)
  deriving Repr

instance : Inhabited PathE := ⟨.basic .rel []⟩

def sstepElem : SStep → PElem
  | .up => { name := "..".toList }
  | .name n => { name := n }

/-- where a path with the given root starts when it is written at the node `here` -/
def rootBase (here : Path) : SRoot → Path
  | .abs => { root := true }
  | .cur => {}
  | .rel => here

/-- string-value of what the tree reports (the `invalid` test datum has none) -/
def litOf (d : Datum) : Str := match d.toLit with | .ok s => s | .error _ => []

def navReq (p : Path) : List String := ["Navigate(" ++ showPath p ++ ")", "GetValue(" ++ showPath p ++ ")"]

/-- value and requests of one predicate operand; `here` = the path of the step the predicate is on -/
def operandValue (t : Tree) (here : Path) : Operand → Str × List String
  | .lit s => (s, [])
  | .num x => (stringOfNumber x, [])
  | .scalar e => ((match eval true (fun _ => .emptyNodeset) e with | some v => stringOf v | none => []), [])
  | .path p =>
    let base := rootBase here p.root
    let rp := { base with elems := base.elems ++ p.steps.map sstepElem }
    (litOf (t.value rp), navReq rp)
  | .scalarP e ps =>
    -- every argument path is resolved, in source order, and the function sees the values the tree reports
    let rps := ps.map fun p => let base := rootBase here p.root; { base with elems := base.elems ++ p.steps.map sstepElem }
    let env : Nat → Datum := fun i => match rps[i]? with | some rp => t.value rp | none => .emptyNodeset
    ((match eval true env e with | some v => stringOf v | none => []), rps.flatMap navReq)

/-- attach the predicates of one step: requests in source order, keys as a map sorted by key name -/
def stepKeys (t : Tree) (here : Path) : List (Str × Operand) → List (Str × Str) × List String
  | [] => ([], [])
  | (k, op) :: rest =>
    let (v, rq) := operandValue t here op
    let (ks, rqs) := stepKeys t here rest
    ((k, v) :: ks, rq ++ rqs)

def walk (t : Tree) : Path → List Step → Path × List String
  | p, [] => (p, [])
  | p, .up :: rest => walk t { p with elems := p.elems ++ [{ name := "..".toList }] } rest
  | p, .named n preds :: rest =>
    let here := { p with elems := p.elems ++ [{ name := n }] }
    let (ks, rq) := stepKeys t here preds
    -- predicates in any order give the same key set: keys are kept sorted by name
    let keyed : PElem := { name := n, keys := (ks.foldl (fun acc kv => insertKey kv.1 kv.2 acc) []) }
    let (final, rqs) := walk t { p with elems := p.elems ++ [keyed] } rest
    (final, rq ++ rqs)

/-- the node a path designates and the requests made on the way (without the final request) -/
def designate (t : Tree) : PathE → Path × List String
  | .basic root steps => walk t { root := root == .abs } steps
  | .deref inner steps =>
    let (pi, rq) := designate t inner
    let rq := rq ++ ["Navigate(" ++ showPath pi ++ ")", "FollowLeafRef(" ++ showPath pi ++ ")"]
    let (final, rqs) := walk t (t.derefTarget pi) steps
    (final, rq ++ rqs)

/-- full observable behaviour of evaluating the path expression: request trace and value -/
def evalPath (t : Tree) (p : PathE) : List String × Datum :=
  let (final, rq) := designate t p
  (rq ++ navReq final, t.value final)

/-- two predicates on one step with the same key: outside what the property fixes -/
def dupKeysStep : Step → Bool
  | .up => false
  | .named _ preds => let ks := preds.map (·.1); ks.eraseDups.length ≠ ks.length

def dupKeys : PathE → Bool
  | .basic _ steps => steps.any dupKeysStep
  | .deref inner steps => dupKeys inner || steps.any dupKeysStep

end YV.XPS
