/-
  Spec.YRange — RFC 6020 §12 (ABNF), read as a scanner over the argument text:

    range-arg       = range-part *(optsep "|" optsep range-part)
    range-part      = range-boundary [optsep ".." optsep range-boundary]
    range-boundary  = min-keyword / max-keyword / integer-value / decimal-value
    length-arg      = length-part *(optsep "|" optsep length-part)
    length-part     = length-boundary [optsep ".." optsep length-boundary]
    length-boundary = min-keyword / max-keyword / non-negative-integer-value
    optsep          = *(WSP / line-break)          line-break = CRLF / LF
    integer-value   = ["-"] ("0" / non-zero-digit *DIGIT)      decimal-value = integer-value "." 1*DIGIT

  White space may stand around "|" and ".." and nowhere else: not inside a number, not inside a keyword.  The argument
  as a whole may have optsep before and after it (a quoted argument that begins or ends on a line of its own): that is
  this specification's reading, the ABNF itself has none there.  Which boundary may be `min` and which `max` is not a
  lexical matter (the scanner admits both on either side).  A length boundary has to fit 64 bits (the code's `uint64`).
-/
import YV.Model.YParse
namespace YV.YS
open YV YV.Y

def isDigit (c : Nat) : Bool := 48 ≤ c && c ≤ 57

/-- optsep at the head of the text: the rest -/
def skipOpt : Bytes → Bytes
  | 32 :: r => skipOpt r
  | 9 :: r => skipOpt r
  | 10 :: r => skipOpt r
  | 13 :: 10 :: r => skipOpt r
  | s => s

/-- ("0" / non-zero-digit *DIGIT) at the head: the digits and the rest -/
def scanNonNeg (s : Bytes) : Option (Bytes × Bytes) :=
  let ip := s.takeWhile isDigit
  if ip.isEmpty || (ip.length > 1 && ip.head? = some 48) then none else some (ip, s.dropWhile isDigit)

/-- integer-value / decimal-value at the head of the text: the rest -/
def scanNumber (s : Bytes) : Option Bytes :=
  let body := match s with | 45 :: r => r | r => r
  match scanNonNeg body with
  | none => none
  | some (_, rest) =>
    match rest with
    | 46 :: d :: r => if isDigit d then some ((d :: r).dropWhile isDigit) else some rest
    | _ => some rest

def scanRangeBoundary (s : Bytes) : Option Bytes :=
  match s with
  | 109 :: 105 :: 110 :: r => some r
  | 109 :: 97 :: 120 :: r => some r
  | _ => scanNumber s

def natOfDigits (ds : Bytes) : Nat := ds.foldl (fun a x => a * 10 + (x - 48)) 0

def scanLengthBoundary (s : Bytes) : Option Bytes :=
  match s with
  | 109 :: 105 :: 110 :: r => some r
  | 109 :: 97 :: 120 :: r => some r
  | _ => match scanNonNeg s with
    | some (ds, rest) => if natOfDigits ds < 2 ^ 64 then some rest else none
    | none => none

/-- boundary [optsep ".." optsep boundary]: the rest -/
def scanPart (b : Bytes → Option Bytes) (s : Bytes) : Option Bytes :=
  match b s with
  | none => none
  | some r =>
    match skipOpt r with
    | 46 :: 46 :: r2 => b (skipOpt r2)
    | _ => some r

/-- part *(optsep "|" optsep part), then optsep and the end of the text -/
def scanParts (b : Bytes → Option Bytes) : Nat → Bytes → Bool
  | 0, _ => false
  | fuel + 1, s =>
    match scanPart b s with
    | none => false
    | some r =>
      match skipOpt r with
      | [] => true
      | 124 :: r2 => scanParts b fuel (skipOpt r2)
      | _ => false

def rangeArgOK (s : Bytes) : Bool := scanParts scanRangeBoundary (s.length + 1) (skipOpt s)
def lengthArgOK (s : Bytes) : Bool := scanParts scanLengthBoundary (s.length + 1) (skipOpt s)

end YV.YS
