/-
  Spec.XCompile — the program an expression *tree* denotes (property C03): the postfix code of the
  tree, independent of how the tree was written down (parentheses, whitespace).  Both renderings of
  one tree must parse to exactly this.
-/
import YV.Spec.XPathS
namespace YV.XC

open YV YV.X YV.XL YV.XP YV.XM YV.XPS

def strToRunes (s : Str) : List Rune := s.map Char.toNat

inductive XE where
  | num (x : SF)
  | lit (s : Str)
  | neg (e : XE)
  | bin (op : BinOp) (a b : XE)
  | call (f : Fn) (args : List XE)
  | path (p : PathE)
  deriving Repr, Inhabited

def binPI : BinOp → PI
  | .add => .add | .sub => .sub | .mul => .mul | .div => .div | .mod => .mod | .and => .and | .or => .or
  | .eq => .eq | .ne => .ne | .lt => .lt | .gt => .gt | .le => .le | .ge => .ge

mutual
def scalarCode : Expr → List PI
  | .num x => [.num x]
  | .lit s => [.lit (strToRunes s)]
  | .env _ => []
  | .neg e => scalarCode e ++ [.negate]
  | .bin op a b => scalarCode a ++ scalarCode b ++ [binPI op]
  | .call f args => scalarListCode args ++ [.bltin f]
def scalarListCode : List Expr → List PI
  | [] => []
  | e :: es => scalarCode e ++ scalarListCode es
end

def sstepCode : SStep → PI
  | .up => .pathDotDot
  | .name n => .namePush [] (strToRunes n)

def rootCode : SRoot → List PI
  | .abs => [.pathRoot] | .cur => [.pathSetCurrent] | .rel => []

mutual
/-- a function result over paths: `.env i` is the i-th argument path, evaluated where it stands -/
def scalarCodeP (ps : List SPath) : Expr → List PI
  | .num x => [.num x]
  | .lit s => [.lit (strToRunes s)]
  | .env i => (match ps[i]? with
      | some p => rootCode p.root ++ p.steps.map sstepCode ++ [.evalLocPath]
      | none => [])
  | .neg e => scalarCodeP ps e ++ [.negate]
  | .bin op a b => scalarCodeP ps a ++ scalarCodeP ps b ++ [binPI op]
  | .call f args => scalarListCodeP ps args ++ [.bltin f]
def scalarListCodeP (ps : List SPath) : List Expr → List PI
  | [] => []
  | e :: es => scalarCodeP ps e ++ scalarListCodeP ps es
end

def operandCode : Operand → List PI
  | .lit s => [.lit (strToRunes s)]
  | .num x => [.num x]
  | .scalar e => scalarCode e
  | .path p =>
    rootCode p.root ++ p.steps.map sstepCode ++ [.evalLocPath]
  | .scalarP e ps => scalarCodeP ps e

def predCode (kv : Str × Operand) : List PI :=
  [.predStart, .namePush [] (strToRunes kv.1), .evalLocPath] ++ operandCode kv.2 ++ [.eq, .predEnd]

def stepCode : Step → List PI
  | .up => [.pathDotDot]
  | .named n preds =>
    .namePush [] (strToRunes n) ::
      (if preds.isEmpty then [] else [.predicatesStart] ++ preds.flatMap predCode ++ [.predicatesEnd])

/-- code of a location path without the final evalLocPath -/
def pathCode : PathE → List PI
  | .basic root steps =>
    rootCode root ++ steps.flatMap stepCode
  | .deref inner steps => pathCode inner ++ [.deref] ++ steps.flatMap stepCode

mutual
def code : XE → List PI
  | .num x => [.num x]
  | .lit s => [.lit (strToRunes s)]
  | .neg e => code e ++ [.negate]
  | .bin op a b => code a ++ code b ++ [binPI op]
  | .call f args => codeList args ++ [.bltin f]
  | .path p => pathCode p ++ [.evalLocPath]
def codeList : List XE → List PI
  | [] => []
  | e :: es => code e ++ codeList es
end

def program (e : XE) : List PI := code e ++ [.store]

end YV.XC
