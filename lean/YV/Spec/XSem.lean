/-
  Spec.XSem — XPath 1.0 scalar semantics (sections 3.4, 3.5, 4.1-4.4), written from the
  Recommendation, independent of the stack machine: a denotational `eval` on expression trees.

  Values: boolean, string (list of Unicode characters), number (IEEE-754 binary64 = SF),
  node-set given by the string-values of its nodes in document order (all a data-tree operand
  can be in this engine: absent node = empty set, leaf = singleton, leaf-list = its entries).
-/
import YV.Model.XEval
namespace YV.XS

open YV YV.X

inductive Val where
  | bool (b : Bool)
  | str (s : Str)
  | num (x : SF)
  | nset (l : List Str)
  deriving DecidableEq, Repr, Inhabited

/-! ### §4.4 number(): string → number.  `Number ::= Digits ('.' Digits?)? | '.' Digits`,
    optional leading minus, optional surrounding whitespace (#x20 #x9 #xD #xA); anything else NaN. -/

/-- recogniser written as the grammar reads: sign? then one of the two alternatives -/
def numberOfString (s : Str) : SF :=
  let t := trimXWS s
  let (neg, body) := match t with | '-' :: r => (true, r) | r => (false, r)
  let ip := body.takeWhile isDigit
  let rest := body.dropWhile isDigit
  let mk (ip fp : Str) : SF := SF.ofDecimal neg (digitsVal (ip ++ fp)) (Int.neg (Int.ofNat fp.length))
  if !ip.isEmpty then
    match rest with
    | [] => mk ip []
    | '.' :: fr => if fr.all isDigit then mk ip fr else .nan
    | _ => .nan
  else
    match rest with
    | '.' :: fr => if !fr.isEmpty && fr.all isDigit then mk [] fr else .nan
    | _ => .nan

/-! ### §4.2 string(): number → string -/

/-- "NaN", "Infinity", "-Infinity", "0" for both zeros; otherwise decimal notation without exponent,
    with as many digits as needed to uniquely distinguish the number from all other doubles -/
def stringOfNumber (x : SF) : Str := numToLit x

/-- `lenient = true` is the variant of the semantics in which number('Infinity') and
    number('-Infinity') are the infinities (known finding C01-number-of-Infinity-string);
    the specification proper is `lenient = false`. -/
def numOfStr (lenient : Bool) (s : Str) : SF :=
  if lenient && trimXWS s = "Infinity".toList then .inf false
  else if lenient && trimXWS s = "-Infinity".toList then .inf true
  else numberOfString s

def stringOf : Val → Str
  | .bool b => if b then "true".toList else "false".toList
  | .str s => s
  | .num x => stringOfNumber x
  | .nset [] => []
  | .nset (a :: _) => a              -- string-value of the first node in document order

def numberOf (ln : Bool) : Val → SF
  | .bool b => if b then SF.one else SF.zero
  | .str s => numOfStr ln s
  | .num x => x
  | v@(.nset _) => numOfStr ln (stringOf v)

/-- §4.3 boolean(): number true iff neither ±0 nor NaN; node-set iff non-empty; string iff non-empty -/
def booleanOf : Val → Bool
  | .bool b => b
  | .str s => !s.isEmpty
  | .num x => !(x.isZero || x.isNaN)
  | .nset l => !l.isEmpty

/-! ### §3.4 comparisons -/

def numRel (op : BinOp) (a b : SF) : Bool := numCmp op a b

def isRel (op : BinOp) : Bool := op = .lt || op = .gt || op = .le || op = .ge

/-- neither operand is a node-set -/
def cmpScalar (ln : Bool) (op : BinOp) (a b : Val) : Bool :=
  if isRel op then numRel op (numberOf ln a) (numberOf ln b)
  else
    let isB : Val → Bool := fun v => match v with | .bool _ => true | _ => false
    let isN : Val → Bool := fun v => match v with | .num _ => true | _ => false
    if isB a || isB b then (if op = .eq then booleanOf a == booleanOf b else booleanOf a != booleanOf b)
    else if isN a || isN b then numRel op (numberOf ln a) (numberOf ln b)
    else (if op = .eq then stringOf a == stringOf b else stringOf a != stringOf b)

def cmp (ln : Bool) (op : BinOp) (a b : Val) : Bool :=
  match a, b with
  | .nset [], _ => false             -- absent node: false in every comparison (property text)
  | _, .nset [] => false
  | .nset la, .nset lb => la.any fun x => lb.any fun y => cmpScalar ln op (.str x) (.str y)
  | .nset la, .bool y => cmpScalar ln op (.bool (!la.isEmpty)) (.bool y)
  | .bool x, .nset lb => cmpScalar ln op (.bool x) (.bool (!lb.isEmpty))
  | .nset la, y => la.any fun x => cmpScalar ln op (.str x) y
  | x, .nset lb => lb.any fun y => cmpScalar ln op x (.str y)
  | x, y => cmpScalar ln op x y

/-! ### §4 functions -/

/-- §4.4 round: the integer closest to the argument, ties toward +∞; NaN, ±∞, ±0 unchanged;
    a result of zero for a negative argument is negative zero.  Exact integer arithmetic. -/
def roundS : SF → SF
  | .fin s m e =>
    if m = 0 then .fin s m e
    else if e ≥ 0 then .fin s m e
    else
      let p := SF.pow2 (-e)
      let q := m / p
      let r := m % p
      let n := if s then (if 2 * r > p then q + 1 else q) else (if 2 * r ≥ p then q + 1 else q)
      SF.roundQ s n 1 0
  | x => x

/-- §4.2 substring: the characters whose 1-based position p satisfies
    p ≥ round(start) and p < round(start) + round(length) -/
def substringS (s : Str) (a b : SF) : Str :=
  let ra := roundS a
  let lim := SF.add ra (roundS b)
  (s.zipIdx 1).filterMap fun (c, i) =>
    if SF.fge (SF.ofNat i) ra && SF.flt (SF.ofNat i) lim then some c else none

/-- §4.2 translate: each character of the 1st string that occurs in the 2nd is replaced by the
    character at the corresponding position of the 3rd (removed if there is none); first occurrence wins -/
def translateS (src frm to : Str) : Str :=
  src.flatMap fun c =>
    match frm.idxOf? c with
    | none => [c]
    | some i => match to[i]? with | some d => [d] | none => []

/-- §4.2 normalize-space: strip leading/trailing whitespace, collapse inner runs to one space -/
def normalizeSpaceS (s : Str) : Str := joinSp (fields s)

def isInfixOf (pat s : Str) : Bool := (indexOf pat s).isSome

def fnS (ln : Bool) (f : Fn) (args : List Val) : Option Val :=
  match f, args with
  | .boolean, [a] => some (.bool (booleanOf a))
  | .not, [a] => some (.bool (!booleanOf a))
  | .xtrue, [] => some (.bool true)
  | .xfalse, [] => some (.bool false)
  | .number, [a] => some (.num (numberOf ln a))
  | .string, [a] => some (.str (stringOf a))
  | .ceiling, [a] => some (.num (SF.ceil (numberOf ln a)))
  | .floor, [a] => some (.num (SF.floor (numberOf ln a)))
  | .round, [a] => some (.num (roundS (numberOf ln a)))
  | .concat, [a, b] => some (.str (stringOf a ++ stringOf b))
  | .contains, [a, b] => some (.bool (isInfixOf (stringOf b) (stringOf a)))
  | .startsWith, [a, b] => some (.bool (isPrefixOf (stringOf b) (stringOf a)))
  | .stringLength, [a] => some (.num (SF.ofNat (stringOf a).length))
  | .normalizeSpace, [a] => some (.str (normalizeSpaceS (stringOf a)))
  | .substring, [a, b, c] => some (.str (substringS (stringOf a) (numberOf ln b) (numberOf ln c)))
  | .substringBefore, [a, b] =>
    let s := stringOf a; let p := stringOf b
    some (.str (match indexOf p s with | some i => s.take i | none => []))
  | .substringAfter, [a, b] =>
    let s := stringOf a; let p := stringOf b
    some (.str (match indexOf p s with | some i => s.drop (i + p.length) | none => []))
  | .translate, [a, b, c] => some (.str (translateS (stringOf a) (stringOf b) (stringOf c)))
  | .last, [] => some (.num SF.one)          -- the context of a must/when has size 1, position 1
  | .position, [] => some (.num SF.one)
  | _, _ => none

/-- how a data-tree operand is seen by XPath -/
def ofDatum : Datum → Val
  | .bool b => .bool b
  | .lit s => .str s
  | .num x => .num x
  | .emptyNodeset => .nset []
  | .slice ds => .nset ds
  | .invalid => .nset []

def arith (op : BinOp) (a b : SF) : SF :=
  match op with
  | .add => SF.add a b | .sub => SF.sub a b | .mul => SF.mul a b
  | .div => SF.div a b | .mod => SF.fmod a b | _ => .nan

mutual
def eval (ln : Bool) (env : Env) : Expr → Option Val
  | .num x => some (.num x)
  | .lit s => some (.str s)
  | .env id => some (ofDatum (env id))
  | .neg e => do let v ← eval ln env e; some (.num (SF.neg (numberOf ln v)))
  | .bin op a b => do
    let x ← eval ln env a
    let y ← eval ln env b
    match op with
    | .and => some (.bool (booleanOf x && booleanOf y))
    | .or => some (.bool (booleanOf x || booleanOf y))
    | .add | .sub | .mul | .div | .mod => some (.num (arith op (numberOf ln x) (numberOf ln y)))
    | _ => some (.bool (cmp ln op x y))
  | .call f args => do
    let vs ← evalList ln env args
    fnS ln f vs
def evalList (ln : Bool) (env : Env) : List Expr → Option (List Val)
  | [] => some []
  | e :: es => do let v ← eval ln env e; let vs ← evalList ln env es; some (v :: vs)
end

/-- a multi-valued leaf-list converted to a string or number: the property fixes only how it
    *compares*; XPath says "first node", the code joins the entries — outside what is claimed. -/
def multi : Val → Bool | .nset (_ :: _ :: _) => true | _ => false

end YV.XS
