/-
  Spec.YRfc — RFC 6020 substatement tables (sections 7.1.1 … 7.19, 9.x), written from the RFC, by keyword.
  A cell is "01" (0..1), "0n" (0..n), "11" (1), "1n" (1..n).  Where the RFC's tables and its ABNF disagree, or
  a constraint is not expressible per child, `slack` lists the cells for which more than one value is admitted.
-/
namespace YV.YR

def dataDefs : List (String × String) :=
  [("anyxml", "0n"), ("choice", "0n"), ("container", "0n"), ("leaf", "0n"), ("leaf-list", "0n"), ("list", "0n"), ("uses", "0n")]

def descRefStatus : List (String × String) := [("description", "01"), ("reference", "01"), ("status", "01")]

def moduleBody : List (String × String) :=
  dataDefs ++ [("augment", "0n"), ("deviation", "0n"), ("extension", "0n"), ("feature", "0n"), ("grouping", "0n"),
    ("identity", "0n"), ("import", "0n"), ("include", "0n"), ("notification", "0n"), ("rpc", "0n"), ("typedef", "0n"),
    ("contact", "01"), ("description", "01"), ("organization", "01"), ("reference", "01"), ("revision", "0n"),
    ("yang-version", "01")]

def restrictionSubs : List (String × String) :=
  [("description", "01"), ("error-app-tag", "01"), ("error-message", "01"), ("reference", "01")]

/-- parent keyword ↦ admissible (child keyword, cardinality) -/
def table : List (String × List (String × String)) := [
  ("module", moduleBody ++ [("namespace", "11"), ("prefix", "11")]),
  ("submodule", moduleBody ++ [("belongs-to", "11")]),
  ("import", [("prefix", "11"), ("revision-date", "01")]),
  ("include", [("revision-date", "01")]),
  ("belongs-to", [("prefix", "11")]),
  ("revision", [("description", "01"), ("reference", "01")]),
  ("typedef", descRefStatus ++ [("default", "01"), ("type", "11"), ("units", "01")]),
  ("type", [("base", "01"), ("bit", "0n"), ("enum", "0n"), ("fraction-digits", "01"), ("length", "01"), ("path", "01"),
            ("pattern", "0n"), ("range", "01"), ("require-instance", "01"), ("type", "0n")]),
  ("container", dataDefs ++ descRefStatus ++ [("config", "01"), ("grouping", "0n"), ("if-feature", "0n"), ("must", "0n"),
            ("presence", "01"), ("typedef", "0n"), ("when", "01")]),
  ("leaf", descRefStatus ++ [("config", "01"), ("default", "01"), ("if-feature", "0n"), ("mandatory", "01"), ("must", "0n"),
            ("type", "11"), ("units", "01"), ("when", "01")]),
  ("leaf-list", descRefStatus ++ [("config", "01"), ("if-feature", "0n"), ("max-elements", "01"), ("min-elements", "01"),
            ("must", "0n"), ("ordered-by", "01"), ("type", "11"), ("units", "01"), ("when", "01")]),
  ("list", dataDefs ++ descRefStatus ++ [("config", "01"), ("grouping", "0n"), ("if-feature", "0n"), ("key", "01"),
            ("max-elements", "01"), ("min-elements", "01"), ("must", "0n"), ("ordered-by", "01"), ("typedef", "0n"),
            ("unique", "0n"), ("when", "01")]),
  ("choice", descRefStatus ++ [("anyxml", "0n"), ("case", "0n"), ("config", "01"), ("container", "0n"), ("default", "01"),
            ("if-feature", "0n"), ("leaf", "0n"), ("leaf-list", "0n"), ("list", "0n"), ("mandatory", "01"), ("when", "01")]),
  ("case", dataDefs ++ descRefStatus ++ [("if-feature", "0n"), ("when", "01")]),
  ("anyxml", descRefStatus ++ [("config", "01"), ("if-feature", "0n"), ("mandatory", "01"), ("must", "0n"), ("when", "01")]),
  ("grouping", dataDefs ++ descRefStatus ++ [("grouping", "0n"), ("typedef", "0n")]),
  ("uses", descRefStatus ++ [("augment", "0n"), ("if-feature", "0n"), ("refine", "0n"), ("when", "01")]),
  ("rpc", descRefStatus ++ [("grouping", "0n"), ("if-feature", "0n"), ("input", "01"), ("output", "01"), ("typedef", "0n")]),
  ("input", dataDefs ++ [("grouping", "0n"), ("typedef", "0n")]),
  ("output", dataDefs ++ [("grouping", "0n"), ("typedef", "0n")]),
  ("notification", dataDefs ++ descRefStatus ++ [("grouping", "0n"), ("if-feature", "0n"), ("typedef", "0n")]),
  ("augment", dataDefs ++ descRefStatus ++ [("case", "0n"), ("if-feature", "0n"), ("when", "01")]),
  ("identity", descRefStatus ++ [("base", "01")]),
  ("extension", descRefStatus ++ [("argument", "01")]),
  ("argument", [("yin-element", "01")]),
  ("feature", descRefStatus ++ [("if-feature", "0n")]),
  ("deviation", [("description", "01"), ("deviate", "1n"), ("reference", "01")]),
  ("range", restrictionSubs), ("length", restrictionSubs), ("pattern", restrictionSubs), ("must", restrictionSubs),
  ("enum", descRefStatus ++ [("value", "01")]),
  ("bit", descRefStatus ++ [("position", "01")]),
  ("when", [("description", "01"), ("reference", "01")])
]

/-- cells where the RFC's own text admits more than one reading (table vs ABNF), or that the RFC constrains
    by a rule no per-child cell can express: (parent, child, also-admitted cells) -/
def slack : List (String × String × List String) := [
  ("uses", "augment", ["01", "0n"]),        -- §7.12.1 table 0..1, ABNF *
  ("uses", "refine", ["01", "0n"]),
  ("list", "key", ["01", "11"]),            -- required only for configuration lists
  ("deviation", "deviate", ["0n", "1n"])    -- "at least one deviate" spans the four deviate kinds (one node type each in the code)
]

/-- all RFC 6020 statement keywords -/
def keywords : List String :=
  ["anyxml", "argument", "augment", "base", "belongs-to", "bit", "case", "choice", "config", "contact", "container",
   "default", "description", "deviate", "deviation", "enum", "error-app-tag", "error-message", "extension", "feature",
   "fraction-digits", "grouping", "identity", "if-feature", "import", "include", "input", "key", "leaf", "leaf-list",
   "length", "list", "mandatory", "max-elements", "min-elements", "module", "must", "namespace", "notification",
   "ordered-by", "organization", "output", "path", "pattern", "position", "prefix", "presence", "range", "reference",
   "refine", "require-instance", "revision", "revision-date", "rpc", "status", "submodule", "type", "typedef", "unique",
   "units", "uses", "value", "when", "yang-version", "yin-element"]

def cellOf (parent child : String) : Option String :=
  (table.lookup parent).bind fun row => row.lookup child

def admitted (parent child : String) : List String :=
  match slack.find? (fun x => x.1 = parent && x.2.1 = child) with
  | some (_, _, l) => l
  | none => (match cellOf parent child with | some c => [c] | none => [])

/-- is `m` occurrences of `child` under `parent` within the RFC cardinality? (`none` = child not permitted) -/
def countOK (parent child : String) (m : Nat) : Bool :=
  match cellOf parent child with
  | none => m = 0
  | some c => (if c = "11" || c = "1n" then m ≥ 1 else true) && (if c = "01" || c = "11" then m ≤ 1 else true)

def isSlack (parent child : String) : Bool := slack.any fun x => x.1 = parent && x.2.1 = child

end YV.YR
