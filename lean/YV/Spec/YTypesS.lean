/-
  Spec.YTypesS — what a derived type means (RFC 6020 §7.3, §9.2.4, §9.4.4, §9.3.4), independently of how
  the compiler builds it: a restriction denotes a set of values; it is valid iff it is written in ascending
  order, its parts are disjoint, and it is a subset of the base; a value is accepted iff it satisfies every
  restriction of the chain; the default is that of the nearest definition that gives one, and must be a
  value of the final type.  Numbers are exact (decimal64 = integers scaled by 10^fraction-digits).
-/
import YV.Model.YTypes
namespace YV.TS
open YV YV.Y YV.T

/-- a set of exact values as sorted, pairwise disjoint closed intervals -/
abbrev IntSet := List (Int × Int)

def mem (s : IntSet) (v : Int) : Bool := s.any fun (a, b) => a ≤ v && v ≤ b

/-- merge intervals that touch (…n | n+1…): the same set, in the form where "subset" is interval containment -/
def mergeAdj : IntSet → IntSet
  | [] => []
  | [x] => [x]
  | (a, b) :: (c, d) :: rest => if b + 1 = c then mergeAdj ((a, d) :: rest) else (a, b) :: mergeAdj ((c, d) :: rest)
termination_by l => l.length

def subsetOf (part : Int × Int) (base : IntSet) : Bool := (mergeAdj base).any fun (a, b) => a ≤ part.1 && part.2 ≤ b

/-- resolve `min` / `max` against the base; check the three validity conditions -/
def validRestriction (base : IntSet) (parts : List (Option Int × Option Int)) : Option IntSet :=
  let bmin := (base.head?.map (·.1)).getD 0
  let bmax := (base.getLast?.map (·.2)).getD 0
  let rs : IntSet := parts.map fun (lo, hi) => (lo.getD bmin, hi.getD bmax)
  let ascending : IntSet → Bool := fun l => (l.zip (l.drop 1)).all fun ((_, b1), (a2, _)) => b1 < a2
  if rs.isEmpty then none
  else if rs.all (fun (a, b) => a ≤ b) && ascending rs && rs.all (fun p => subsetOf p base) then some rs
  else none

/-- decimal text → exact value scaled by 10^fd (`none`: not a decimal, or more than fd fraction digits) -/
def scaled (fd : Nat) (s : Bytes) : Option Int :=
  match parseDecimalText s with
  | none => none
  | some (neg, d, k) => if k > fd then none else some ((if neg then -1 else 1) * Int.ofNat (d * 10 ^ (fd - k)))

inductive STy where
  | int (w : Nat) (set : IntSet)
  | uint (w : Nat) (set : IntSet)
  | dec (fd : Nat) (set : IntSet)        -- scaled values
  | str (lens : IntSet)
  | bool | empty | enum (names : List Bytes)
  deriving Repr

/-- is the text a value of the type? -/
def accepts (t : STy) (s : Bytes) : Bool :=
  match t with
  | .int _ set => (match parseSigned s with | some v => mem set v | none => false)
  | .uint _ set => (match parseSigned s with | some v => mem set v | none => false)
  | .dec fd set => (match scaled fd s with | some v => mem set v | none => false)
  | .str lens => mem lens (Int.ofNat (utf8Len s))
  | .bool => s = msg "true" || s = msg "false"
  | .empty => s.isEmpty
  | .enum names => names.contains s

def initialS : BaseKind → STy
  | .int w => .int w [(-(2 ^ (w - 1) : Int), 2 ^ (w - 1) - 1)]
  | .uint w => .uint w [(0, 2 ^ w - 1)]
  | .dec fd => .dec fd [(-(2 ^ 63 : Int), 2 ^ 63 - 1)]
  | .str => .str [(0, 2 ^ 32 - 1)]       -- the implementation's ceiling for string lengths (RFC: 2^64-1); see DESIGN
  | .bool => .bool | .empty => .empty | .enum ns => .enum ns

def boundOf (conv : Bytes → Option Int) (kwd : String) (b : Bytes) : Option (Option Int) :=
  if b = msg kwd then some none else (conv b).map some

/-- the parts of a restriction over the base `set`: `min` / `max` stand for the smallest / largest value of the base in
    either position; a part that is one boundary only (written twice here) is that single value -/
def partsOf (conv : Bytes → Option Int) (set : List (Int × Int)) (ps : List (Bytes × Bytes)) :
    Option (List (Option Int × Option Int)) :=
  ps.mapM fun (lo, hi) =>
    if lo = msg "max" && hi = msg "max" then (set.getLast?.map fun b => (some b.2, none))
    else if lo = msg "min" && hi = msg "min" then (set.head?.map fun b => (none, some b.1))
    else
    match boundOf conv "min" lo, boundOf conv "max" hi with
    | some l, some h => some (l, h)
    | _, _ => none

def applyLevelS (t : STy) (lv : Level) : Option STy :=
  match lv.restr with
  | none => some t
  | some ps =>
    if !(ps.all fun p => singleKeyword p || ((p.1 = msg "min" || YC.numBoundaryOK p.1) && (p.2 = msg "max" || YC.numBoundaryOK p.2))) then none else
    match t with
    | .int w set => if lv.isLength then none else (partsOf boundaryInt set ps).bind fun p => (validRestriction set p).map (.int w)
    | .uint w set => if lv.isLength then none else
        (partsOf (fun b => (boundaryInt b).bind fun v => if v < 0 then none else some v) set ps).bind fun p => (validRestriction set p).map (.uint w)
    | .dec fd set => if lv.isLength then none else (partsOf (scaled fd) set ps).bind fun p => (validRestriction set p).map (.dec fd)
    | .str lens => if !lv.isLength then none else
        (partsOf (fun b => (boundaryInt b).bind fun v => if v < 0 then none else some v) lens ps).bind fun p => (validRestriction lens p).map .str
    | _ => none

/-- the chain: every level a valid restriction of the one below; the default in force at every level is a
    value of the type at that level -/
def buildS (k : BaseKind) (levels : List Level) : Option (STy × Option Bytes) :=
  let rec go (t : STy) (d : Option Bytes) : List Level → Option (STy × Option Bytes)
    | [] => some (t, d)
    | lv :: rest =>
      match applyLevelS t lv with
      | none => none
      | some t' =>
        let d' := match lv.dflt with | some x => some x | none => d
        match d' with
        | some dv => if accepts t' dv then go t' d' rest else none
        | none => go t' d' rest
  go (initialS k) none levels

end YV.TS
