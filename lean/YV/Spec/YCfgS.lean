/-
  Spec.YCfgS — what a deviation means as an edit of the target's source (RFC 6020 §7.18.3.2), and which
  features are in force (§7.18.1/2): `deviate add` writes a statement the target does not have and may
  have; `deviate replace` rewrites one it has; `deviate delete` removes one it has with that very argument
  (only default — of the properties modelled here — can be deleted); `not-supported` removes the node.
  A feature is in force iff it and every feature reachable through if-feature statements is enabled.
-/
import YV.Model.YCfg
namespace YV.CS
open YV YV.Y YV.SC YV.C

def editNode (d : Dev) (a : A) : Option (Option A) :=      -- none: forbidden; some none: node removed
  match d.kind with
  | .notSupported => if d.alone then some none else none      -- §7.18.3.2: it must be the only deviate statement
  | .add => if applicable a d.prop && (getProp a d.prop).isNone then some (some (setProp a d.prop (some d.val))) else none
  | .replace => if (getProp a d.prop).isSome then some (some (setProp a d.prop (some d.val))) else none
  | .delete => if d.prop = .dflt && getProp a d.prop = some d.val then some (some (setProp a d.prop none)) else none

mutual
def editKids (d : Dev) : List Tok → List A → Option (List A)
  | [], _ => none
  | _ :: _, [] => none
  | p :: rest, a :: r =>
    if a.name = p then
      (if rest.isEmpty then (editNode d a).map fun o => o.toList ++ r
       else (editInto d rest a).map (· :: r))
    else (editKids d (p :: rest) r).map (a :: ·)
def editInto (d : Dev) (rest : List Tok) : A → Option A
  | .container n m pr kids => (editKids d rest kids).map (.container n m pr)
  | .list n m ks mn mx kids => (editKids d rest kids).map (.list n m ks mn mx)
  | .choice n m md df cases => (editKids d rest cases).map (.choice n m md df)
  | .case n m kids => (editKids d rest kids).map (.case n m)
  | _ => none
end

def editAll (top : List A) : List Dev → Option (List A)
  | [] => some top
  | d :: r => (editKids d d.path top).bind fun t => editAll t r

/-- everything reachable from a feature through at most `n` if-feature steps -/
def reach (decls : List FeatDecl) : Nat → Tok → List Tok
  | 0, _ => []
  | n + 1, k =>
    match findDecl decls k with
    | none => []
    | some d => d.deps ++ d.deps.flatMap (reach decls n)

def inForce (decls : List FeatDecl) (raw : List Tok) (n : Nat) (k : Tok) : Bool :=
  raw.contains k && (reach decls n k).all raw.contains

end YV.CS
