/-
  Spec.YDataS — what structural validity of a data tree and "the defaults in use" mean (RFC 6020 §7.5.1,
  §7.6.1, §7.6.5, §7.7.3/4, §7.8.3, §7.9.3/4), written as one recursion over the schema in which choices
  and cases are looked through where they stand.

  Required below an existing parent (the root, a container instance, a list entry) whose configured child
  names are `cfg`: a mandatory leaf, a list or leaf-list with min-elements; inside an absent non-presence
  container the same with nothing configured; a choice none of whose cases has a node configured is a
  violation when it is mandatory; the cases of a choice that do have a node configured are looked into.
  Defaults in use: the default of an absent leaf whose ancestors up to an existing node are non-presence
  containers, and every choice on the way either has a node of the leaf's case configured, or has nothing
  configured at all and the leaf's case is the default case.
-/
import YV.Model.YData
namespace YV.DS
open YV YV.Y YV.SC YV.D

variable {τ : Type}

/-- some data node of these schema children (choices looked through) is configured -/
def active (kids : List (SN τ)) (cfg : List Tok) : Bool := (dataKids kids).any fun n => cfg.contains n.name
def activeCases (cases : List (SN τ)) (cfg : List Tok) : Bool := (caseKids cases).any fun n => cfg.contains n.name

mutual
def required (cfg : List Tok) (path : List Tok) : List (SN τ) → List DErr
  | [] => []
  | .leaf n _ _ m :: r => (if m && !cfg.contains n then [.mand path n] else []) ++ required cfg path r
  | .list n _ mn _ _ _ :: r => (if mn > 0 && !cfg.contains n then [.mand path n] else []) ++ required cfg path r
  | .leafList n _ mn _ :: r => (if mn > 0 && !cfg.contains n then [.mand path n] else []) ++ required cfg path r
  | .container n pr kids :: r =>
    (if !pr && !cfg.contains n then required [] (path ++ [n]) kids else []) ++ required cfg path r
  | .choice _ m _ cases :: r =>
    (if activeCases cases cfg then requiredCases cfg path cases else if m then [.choice path] else []) ++
      required cfg path r
  | .case _ _ :: r => required cfg path r
def requiredCases (cfg : List Tok) (path : List Tok) : List (SN τ) → List DErr
  | [] => []
  | .case _ kids :: r => (if active kids cfg then required cfg path kids else []) ++ requiredCases cfg path r
  | .choice .. :: r => requiredCases cfg path r
  | .container .. :: r => requiredCases cfg path r
  | .list .. :: r => requiredCases cfg path r
  | .leaf .. :: r => requiredCases cfg path r
  | .leafList .. :: r => requiredCases cfg path r
end

/-- min-elements / max-elements of a list or leaf-list that is present -/
def cardViolated (min : Nat) (max : Option Nat) (len : Nat) : Bool :=
  len < min || (match max with | some m => len > m | none => false)

/-- the values of the leaves of a unique set in one entry; `none` if one of them does not exist -/
def leafAt : List (SN τ) → List DN → List Tok → Option Bytes
  | _, _, [] => none
  | kids, ds, hd :: tl =>
    match ds.find? (fun d => d.name = hd) with
    | none => none
    | some d =>
      match lookup hd (dataKids kids) with
      | some (.container _ _ ck) => leafAt ck d.kids tl
      | some (.leaf ..) => if tl.isEmpty then d.vals.head? else none
      | _ => none

def tupleOf (kids : List (SN τ)) (entry : DN) (u : List (List Tok)) : Option (List Bytes) :=
  u.mapM (leafAt kids entry.kids)

/-- classes (of size ≥ 2) of entries that have all leaves of the set and agree on all of them -/
def agreeing (kids : List (SN τ)) (entries : List DN) (u : List (List Tok)) : List (List Tok) :=
  groups (entries.filterMap fun e => (tupleOf kids e u).map fun t => (t, e.name))

mutual
def violNode (sn : SN τ) (d : DN) (path xpath : List Tok) : List DErr :=
  match sn, d with
  | .leafList n _ mn mx, .mk _ _ vals => if cardViolated mn mx vals.length then [.card (xpath ++ [n])] else []
  | .container n _ kids, .mk _ dk _ =>
    required (dk.map (·.name)) (path ++ [n]) kids ++ violKids kids dk (path ++ [n]) (xpath ++ [n])
  | .list n _ mn mx us kids, .mk _ entries _ =>
    -- a list whose size is wrong is reported as such; its entries are not examined further
    if cardViolated mn mx entries.length then [.card (xpath ++ [n])]
    else
      (us.flatMap fun u => (agreeing kids entries u).map fun g => DErr.unique (path ++ [n]) g) ++
        violEntries kids entries (path ++ [n]) (xpath ++ [n])
  | _, _ => []
def violKids (kids : List (SN τ)) (ds : List DN) (path xpath : List Tok) : List DErr :=
  match ds with
  | [] => []
  | d :: r =>
    (match lookup d.name (dataKids kids) with
     | some sn => violNode sn d path xpath
     | none => []) ++ violKids kids r path xpath
def violEntries (kids : List (SN τ)) (es : List DN) (path xpath : List Tok) : List DErr :=
  match es with
  | [] => []
  | .mk en ek _ :: r =>
    (required (ek.map (·.name)) (path ++ [en]) kids ++ violKids kids ek (path ++ [en]) xpath) ++
      violEntries kids r path xpath
end

def violations (top : List (SN τ)) (root : DN) : List DErr :=
  required (root.kids.map (·.name)) [] top ++ violKids top root.kids [] []

/-! ### defaults -/

mutual
/-- the defaults in use below a parent (existing, or a non-presence container being instantiated) -/
def defaultsS (cfg : List Tok) : List (SN τ) → List DN
  | [] => []
  | .leaf n _ d m :: r =>
    (match d with
     | some dv => if !m && !cfg.contains n then [.mk n [] [dv]] else []
     | none => []) ++ defaultsS cfg r
  | .container n pr kids :: r =>
    (if !pr && !cfg.contains n then
       (let ds := defaultsS [] kids; if ds.isEmpty then [] else [.mk n ds []])
     else []) ++ defaultsS cfg r
  | .choice _ _ d cases :: r =>
    (if activeCases cases cfg then defaultsActive cfg cases
     else match d with
       | some dc => defaultsOfCase dc cases
       | none => []) ++ defaultsS cfg r
  | .list .. :: r => defaultsS cfg r
  | .leafList .. :: r => defaultsS cfg r
  | .case .. :: r => defaultsS cfg r
def defaultsActive (cfg : List Tok) : List (SN τ) → List DN
  | [] => []
  | .case _ kids :: r => (if active kids cfg then defaultsS cfg kids else []) ++ defaultsActive cfg r
  | .choice .. :: r => defaultsActive cfg r
  | .container .. :: r => defaultsActive cfg r
  | .list .. :: r => defaultsActive cfg r
  | .leaf .. :: r => defaultsActive cfg r
  | .leafList .. :: r => defaultsActive cfg r
def defaultsOfCase (dc : Tok) : List (SN τ) → List DN
  | [] => []
  | .case n kids :: r => if n = dc then defaultsS [] kids else defaultsOfCase dc r
  | .choice .. :: r => defaultsOfCase dc r
  | .container .. :: r => defaultsOfCase dc r
  | .list .. :: r => defaultsOfCase dc r
  | .leaf .. :: r => defaultsOfCase dc r
  | .leafList .. :: r => defaultsOfCase dc r
end

mutual
def decorateKidsS (kids : List (SN τ)) (ds : List DN) : List DN :=
  decorateEachS kids ds ++ defaultsS (ds.map (·.name)) kids
def decorateEachS (kids : List (SN τ)) : List DN → List DN
  | [] => []
  | d :: r =>
    (match lookup d.name (dataKids kids) with
     | some sn => decorateNodeS sn d
     | none => d) :: decorateEachS kids r
def decorateNodeS (sn : SN τ) (d : DN) : DN :=
  match sn, d with
  | .container _ _ kids, .mk n dk v => .mk n (decorateKidsS kids dk) v
  | .list _ _ _ _ _ kids, .mk n entries v => .mk n (decorateEntriesS kids entries) v
  | _, d => d
def decorateEntriesS (kids : List (SN τ)) : List DN → List DN
  | [] => []
  | .mk en ek v :: r => .mk en (decorateKidsS kids ek) v :: decorateEntriesS kids r
end

def decorateS (top : List (SN τ)) (root : DN) : DN :=
  match root with
  | .mk n dk v => .mk n (decorateKidsS top dk) v

end YV.DS
