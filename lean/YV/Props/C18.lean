/-
  Props.C18 — structural data validation and default decoration are exact.

  Proved: the mandatory-node machinery (checkMandatory, hasMandatoryChildren, choiceHasMandatory,
  caseHasMandatory, hasCaseMandatoryChildren) reports an error iff the one-recursion specification
  requires it, for every schema (any nesting of non-presence containers, choices within cases) and every
  set of configured names; cardinality = min/max; explicit data is kept by the decoration; the
  specification of the defaults only ever adds a default for an absent node.  The equality of the
  decoration with the specification of "defaults in use" (IsActiveDefault vs the structural recursion),
  idempotence and the unique check are compared by the correspondence stream only (`…_partial`).
-/
import YV.Proofs.YData
namespace YV.Props.C18
open YV YV.Y YV.SC YV.D YV.DS

variable {τ : Type}

/-- **C18 (mandatory nodes).** For an existing parent with schema children `kids` and configured child
    names `cfg`, an error is reported iff the specification requires it: a mandatory leaf, a list or
    leaf-list with min-elements, or a mandatory choice is missing — looking through absent non-presence
    containers, into the cases that have something configured, and into choices nested in those cases. -/
theorem C18_mandatory (kids : List (SN τ)) (cfg path : List Tok) (e : DErr) :
    e ∈ checkMand kids cfg path ↔ e ∈ required cfg path kids := mem_checkMand_iff kids cfg path e

/-- below an absent non-presence container: the same errors in the same order -/
theorem C18_absent_container (path : List Tok) (kids : List (SN τ)) :
    hasMandKids path kids = required [] path kids := hasMandKids_eq path kids

/-- **C18 (min/max-elements).** `cardinalityInRange` rejects exactly the sizes outside [min, max]
    (max-elements is unbounded or positive: RFC 6020 §7.7.4) -/
theorem C18_cardinality (mn : Nat) (mx : Option Nat) (len : Nat) (h : mx ≠ some 0) :
    cardBad mn mx len = true ↔ (len < mn ∨ ∃ m, mx = some m ∧ len > m) := by
  rw [cardBad_eq mn mx len h]
  unfold cardViolated
  cases mx with
  | none => simp
  | some m => simp

/-- **C18 (explicit data is never altered).** In the decorated tree the original nodes sit unchanged —
    names, values, order — at the front of every child list, at every depth -/
theorem C18_explicit_kept (top : List (SN τ)) (root : DN) : restrictTo (decorate top root) root = root :=
  restrict_decorate top root

/-- **C18 (defaults, specification side).** a default is only ever instantiated for a node that is not
    configured, and it is the default of a data node of that parent -/
theorem C18_default_only_if_absent (cfg : List Tok) (kids : List (SN τ)) (x : DN) (h : x ∈ defaultsS cfg kids) :
    cfg.contains x.name = false ∧ ∃ n ∈ dataKids kids, n.name = x.name :=
  ⟨defaultsS_absent cfg x kids h, defaultsS_names cfg x kids h⟩

/-! non-vacuity: container c (non-presence) { choice ch { mandatory; case a { leaf x (mandatory) ; leaf y } } } -/
def demoInner : List (SN Unit) :=
  [.choice [1] true none [.case [2] [.leaf [3] () none true, .leaf [4] () none false]]]
def demoKids : List (SN Unit) := [.container [99] false demoInner]

example : checkMand demoKids [] [] = [.choice [[99]]] := by
  simp [checkMand, demoKids, demoInner, missingOf, choiceHasMand, hasMandKids]
example : checkMand demoInner [[4]] [[99]] = [.mand [[99]] [3]] := by
  simp [checkMand, demoInner, missingOf, choiceHasMand, caseHasMand, hasOneOf, caseKids, dataKids, SN.name]
example : checkMand demoInner [[3]] [[99]] = [] := by
  simp [checkMand, demoInner, missingOf, choiceHasMand, caseHasMand, hasOneOf, caseKids, dataKids, SN.name]

end YV.Props.C18
