/-
  Props.C18 — structural data validation and default decoration are exact.

  Proved: the mandatory-node machinery (checkMandatory, hasMandatoryChildren, choiceHasMandatory,
  caseHasMandatory, hasCaseMandatoryChildren) reports an error iff the one-recursion specification
  requires it, for every schema (any nesting of non-presence containers, choices within cases) and every
  set of configured names; cardinality = min/max; explicit data is kept by the decoration; the
  specification of the defaults only ever adds a default for an absent node.  The equality of the
  unique check (after the repair of `getUniqueKey`): the key written for a tuple of values is injective, so the
  groups the check reports are exactly the classes of entries that agree on every leaf of the set, and on
  unique sets whose paths end at leaves with a value this is the specification's `agreeing`.
  `C18_defaults_in_use`: on every schema the compiler can build (the children of a choice are cases with
  different names, the names of every flattened child map differ — `wfTop`, checked by the driver on every
  schema the stream feeds) the decorated view of the model — `yangDataChildren` with `IsActiveDefault` /
  `isActiveDefaultCase` looking names up in child maps, `createDefault` filling default containers — is the
  specification's: one recursion over the schema where choices and cases stand, adding the default of an absent
  leaf whose choices on the way have a node of its case configured or nothing configured and the leaf's case
  as default.  `C18_idempotent`: decorating twice equals decorating once (a second pass emits nothing because
  the configured names now include what the first emitted, and leaves what was added alone).
-/
import YV.Proofs.YData
import YV.Proofs.YUnique
import YV.Proofs.YDeco
namespace YV.Props.C18
open YV YV.Y YV.SC YV.D YV.DS

variable {τ : Type}

/-- **C18 (mandatory nodes).** For an existing parent with schema children `kids` and configured child
    names `cfg`, an error is reported iff the specification requires it: a mandatory leaf, a list or
    leaf-list with min-elements, or a mandatory choice is missing — looking through absent non-presence
    containers, into the cases that have something configured, and into choices nested in those cases. -/
theorem C18_mandatory (kids : List (SN τ)) (cfg path : List Tok) (e : DErr) :
    e ∈ checkMand kids cfg path ↔ e ∈ required cfg path kids := mem_checkMand_iff kids cfg path e

/-- below an absent non-presence container: the same errors in the same order -/
theorem C18_absent_container (path : List Tok) (kids : List (SN τ)) :
    hasMandKids path kids = required [] path kids := hasMandKids_eq path kids

/-- **C18 (min/max-elements).** `cardinalityInRange` rejects exactly the sizes outside [min, max]
    (max-elements is unbounded or positive: RFC 6020 §7.7.4) -/
theorem C18_cardinality (mn : Nat) (mx : Option Nat) (len : Nat) (h : mx ≠ some 0) :
    cardBad mn mx len = true ↔ (len < mn ∨ ∃ m, mx = some m ∧ len > m) := by
  rw [cardBad_eq mn mx len h]
  unfold cardViolated
  cases mx with
  | none => simp
  | some m => simp

/-- **C18 (explicit data is never altered).** In the decorated tree the original nodes sit unchanged —
    names, values, order — at the front of every child list, at every depth -/
theorem C18_explicit_kept (top : List (SN τ)) (root : DN) : restrictTo (decorate top root) root = root :=
  restrict_decorate top root

/-- **C18 (defaults, specification side).** a default is only ever instantiated for a node that is not
    configured, and it is the default of a data node of that parent -/
theorem C18_default_only_if_absent (cfg : List Tok) (kids : List (SN τ)) (x : DN) (h : x ∈ defaultsS cfg kids) :
    cfg.contains x.name = false ∧ ∃ n ∈ dataKids kids, n.name = x.name :=
  ⟨defaultsS_absent cfg x kids h, defaultsS_names cfg x kids h⟩

/-- **C18 (unique, the key).** different tuples of values never share a key — whatever bytes the values
    contain (the defect repaired in 8238fb7: joined by U+00B7, ("x·x","x") and ("x","x·x") collided) -/
theorem C18_unique_key_injective (vs ws : List Bytes) (h : encTuple vs = encTuple ws) : vs = ws :=
  encTuple_inj vs ws h

/-- **C18 (defaults in use).** The decorated view is exactly the specification's, for every well-formed schema and
    every data tree: the defaults of absent leaves under existing parents and non-presence containers, following
    the active or default case of choices, and nothing else. -/
theorem C18_defaults_in_use (top : List (SN τ)) (hwf : wfTop top = true) (root : DN) :
    decorate top root = decorateS top root := by
  rw [wfTop, Bool.and_eq_true, decide_eq_true_eq] at hwf
  exact decorate_eq_spec top (wfLb_sound top hwf.1) hwf.2 root

/-- what is added at one parent: `yangDataChildren`'s defaults = the defaults in use -/
theorem C18_added_defaults (kids : List (SN τ)) (hwf : wfTop kids = true) (seen : List Tok) :
    addedDefaults kids seen = defaultsS seen kids := by
  rw [wfTop, Bool.and_eq_true, decide_eq_true_eq] at hwf
  exact addedDefaults_eq_spec kids (wfLb_sound kids hwf.1) hwf.2 seen

/-- **C18 (idempotence).** Decorating twice equals decorating once. -/
theorem C18_idempotent (top : List (SN τ)) (hwf : wfTop top = true) (root : DN) :
    decorate top (decorate top root) = decorate top root := by
  rw [wfTop, Bool.and_eq_true, decide_eq_true_eq] at hwf
  exact decorate_idem top (wfLb_sound top hwf.1) hwf.2 root

/-- **C18 (unique).** the groups `checkUnique` reports are the classes (of two or more entries, in order of
    first occurrence) of entries whose resolved values agree leaf by leaf; entries lacking a leaf of the set
    are not examined -/
theorem C18_unique_by_tuple (kids : List (SN τ)) (entries : List DN) (u : List (List Tok)) :
    uniqueGroups kids entries u = groups (tupled kids entries u) := uniqueGroups_by_tuple kids entries u

/-- on unique sets whose paths end at leaves (what the compiler guarantees) the model's groups are the
    specification's — also for a leaf node that carries no value: it counts as a leaf that is not there
    (the premise "carries a value" that this theorem once needed was where the real validator panicked) -/
theorem C18_unique (kids : List (SN τ)) (entries : List DN) (u : List (List Tok))
    (h : ∀ e ∈ entries, ∀ p ∈ u, goodPath kids e.kids p) :
    uniqueGroups kids entries u = agreeing kids entries u := uniqueGroups_eq_agreeing kids entries u h

/-- the joined key of the unrepaired code was not injective (the witness found by the proof attempt) -/
example : ([[120, 0xC2, 0xB7, 120], [120]].intersperse [0xC2, 0xB7]).flatten =
    ([[120], [120, 0xC2, 0xB7, 120]].intersperse [0xC2, 0xB7] : List Bytes).flatten := by decide
example : encTuple [[120, 0xC2, 0xB7, 120], [120]] ≠ encTuple [[120], [120, 0xC2, 0xB7, 120]] := by decide

/-! non-vacuity: container c (non-presence) { choice ch { mandatory; case a { leaf x (mandatory) ; leaf y } } } -/
def demoInner : List (SN Unit) :=
  [.choice [1] true none [.case [2] [.leaf [3] () none true, .leaf [4] () none false]]]
def demoKids : List (SN Unit) := [.container [99] false demoInner]

example : checkMand demoKids [] [] = [.choice [[99]]] := by
  simp [checkMand, demoKids, demoInner, missingOf, choiceHasMand, hasMandKids]
example : checkMand demoInner [[4]] [[99]] = [.mand [[99]] [3]] := by
  simp [checkMand, demoInner, missingOf, choiceHasMand, caseHasMand, hasOneOf, caseKids, dataKids, SN.name]
example : checkMand demoInner [[3]] [[99]] = [] := by
  simp [checkMand, demoInner, missingOf, choiceHasMand, caseHasMand, hasOneOf, caseKids, dataKids, SN.name]

/-! non-vacuity of `wfTop`: container c { leaf a (default 7); choice ch (default case p) { case p { leaf x (default 8);
    choice in { case q { leaf y (default 9) } } } case r { leaf z (default 5) } } }: with nothing configured the default
    case gives x (the nested choice has no default case); with z configured only a is added -/
def demoDef : List (SN Unit) :=
  [.container [99] false
    [.leaf [1] () (some [55]) false,
     .choice [2] false (some [3])
       [.case [3] [.leaf [4] () (some [56]) false, .choice [5] false none [.case [6] [.leaf [7] () (some [57]) false]]],
        .case [8] [.leaf [9] () (some [53]) false]]]]

example : wfTop demoDef = true := by decide +kernel
def demoC : List (SN Unit) := match demoDef with | [.container _ _ k] => k | _ => []
example : (addedDefaults demoC []).map DN.name = [[1], [4]] := by decide +kernel
example : (addedDefaults demoC [[9]]).map DN.name = [[1]] := by decide +kernel
example : (addedDefaults demoC [[7]]).map DN.name = [[1], [4]] := by decide +kernel
example : (addedDefaults demoDef []).flatMap (fun d => d.kids.map DN.name) = [[1], [4]] := by decide +kernel

end YV.Props.C18
