/-
  Props.C15 — embedded XPath is checked at compile time in the right prefix scope.

  What a theorem carries here is small: which prefixes a name test may carry is decided by `pfxOk` against
  the import map of the module the text is written in — a function of that map alone, so copying the
  statement into another module (uses, augment) cannot change the verdict.  That every must / when / path of
  a module set is parsed with exactly that map, that a syntax error or unknown prefix anywhere fails the
  compile with an error naming the statement, and the namespace every name test resolves to, are compared on
  the real compiler against the Lean XPath lexer + parser model (the model of C03 / C04 / C05) by the
  correspondence stream `yxp`.
-/
import YV.Model.XParse
namespace YV.Props.C15
open YV YV.X YV.XL YV.XP

/-- **C15 (prefix scope).** A prefixed name is accepted iff its prefix is one the textual module imports (or
    its own); an unprefixed name always is -/
theorem C15_prefix_scope (ps : List (List Rune)) (p : List Rune) :
    pfxOk (some ps) p = true ↔ p = [] ∨ p ∈ ps := by
  simp [pfxOk, List.isEmpty_iff]

/-- the verdict on a prefix depends on the import map of the text, nothing else: two modules that map the
    same prefix to different modules both accept it; a module that does not import it rejects it even when
    the module the statement is copied into does -/
example : pfxOk (some [strR "b", strR "x"]) (strR "x") = true ∧ pfxOk (some [strR "b", strR "x"]) (strR "y") = false ∧
    pfxOk (some [strR "m", strR "y"]) (strR "y") = true := by decide

end YV.Props.C15
