/-
  Props.C15 — embedded XPath is checked at compile time in the right prefix scope.

  Proved: which prefixes a name test may carry is decided by `pfxOk` against the import map of the module the
  text is written in — a function of that map alone, so copying the statement into another module (uses,
  augment) cannot change the verdict (`C15_prefix_scope`); and **an unknown prefix is an error, whatever
  the expression looks like** (`C15_unknown_prefix_is_error`): for every byte string, both grammars and every
  prefix map, if a machine is built then every name test in it carries no prefix or one of the map — through
  the whole lexer (name, prefixed name, wildcard forms, whitespace around the colon) and both parsers
  (invariant over the eleven / six mutually recursive functions: a Name-Push is only ever emitted for the
  NAMETEST token being looked at).  That every must / when / path of a module set is parsed with exactly the
  map of its textual module, that the error names the statement, and the namespace every name test resolves
  to, are compared on the real compiler against this lexer + parser model by the correspondence stream `yxp`.
-/
import YV.Model.XParse
import YV.Proofs.XNames
namespace YV.Props.C15
open YV YV.X YV.XL YV.XP

/-- **C15 (prefix scope).** A prefixed name is accepted iff its prefix is one the textual module imports (or
    its own); an unprefixed name always is -/
theorem C15_prefix_scope (ps : List (List Rune)) (p : List Rune) :
    pfxOk (some ps) p = true ↔ p = [] ∨ p ∈ ps := by
  simp [pfxOk, List.isEmpty_iff]

/-- **C15 (an unknown prefix is an error).** whatever the text: a machine is only built when every name test
    in it has a prefix the map accepts; with a map `some ps` that is: no prefix, or one of `ps` -/
theorem C15_unknown_prefix_is_error (strict fixed : Bool) (g : Grammar) (ps : List (List Rune)) (bs : List Nat)
    (prog : List PI) (h : build strict fixed g (some ps) bs = .machine prog) :
    ∀ p l, PI.namePush p l ∈ prog → p = [] ∨ p ∈ ps := by
  intro p l hm
  have := build_names strict fixed g bs prog h (.namePush p l) hm
  exact (C15_prefix_scope ps p).mp this

/-- the verdict on a prefix depends on the import map of the text, nothing else: two modules that map the
    same prefix to different modules both accept it; a module that does not import it rejects it even when
    the module the statement is copied into does -/
example : pfxOk (some [strR "b", strR "x"]) (strR "x") = true ∧ pfxOk (some [strR "b", strR "x"]) (strR "y") = false ∧
    pfxOk (some [strR "m", strR "y"]) (strR "y") = true := by decide

end YV.Props.C15
