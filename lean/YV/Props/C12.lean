/-
  Props.C12 — uses, refine and augment expand to the equivalent inline definition.

  The statement "the expanded module compiles to the same schema as the inline module" is checked on the
  real compiler by construction (the generator writes the inline module and factors it into groupings,
  refines and augments) and against this model; the theorems below are the facts about the expansion that
  hold for every grouping environment and every nesting.  `C12_written_out_is_fixed_point` is the statement of
  the property on the model: what the expansion yields, written out as a module text without any uses, compiles
  to the very same definitions — so a module and "the module with everything written in place" have one schema.
-/
import YV.Proofs.YInline
namespace YV.Props.C12
open YV YV.Y YV.SC YV.C

/-- **C12 (uses = inline).** A uses with nothing under it is its grouping body written in place, for every
    body — nested uses included — and whatever follows it -/
theorem C12_uses_is_inline (env : GEnv) (ns : Tok) (fuel : Nat) (g : Tok) (body r : List G)
    (hg : env.lookup g = some body) :
    expandKids env ns (fuel + 2) (.uses g [] [] [] :: r) =
      (do let a ← expandKids env ns fuel body
          let b ← expandKids env ns (fuel + 1) r
          pure (a ++ b)) := uses_is_inline env ns fuel g body r hg

/-- **C12 (written in place = expanded).** Let a body with uses (nested, refined, augmented inside the uses)
    expand to `r` in module `ns`.  Then `r` written out as source — no uses left: the grouping bodies and the
    augmenting nodes stand in place, the refinements are applied — is a module body that expands to `r` again,
    whatever groupings are in scope (`env'`), given fuel for its size -/
theorem C12_written_out_is_fixed_point (env env' : GEnv) (ns : Tok) (fuel : Nat) (gs : List G) (r : List A)
    (h : expandKids env ns fuel gs = .ok r) (fuel' : Nat) (hf : szAll r ≤ fuel') :
    expandKids env' ns fuel' (embed.embedAll r) = .ok r := expand_fixed_point env env' ns fuel gs r h fuel' hf

/-- a module body without uses expands to itself, the module written on every node -/
theorem C12_plain_is_itself (env : GEnv) (ns : Tok) (l : List A) (fuel : Nat) (hf : szAll l ≤ fuel) :
    expandKids env ns fuel (embed.embedAll l) = .ok (stampAll ns l) := expand_embedAll env ns l fuel hf

/-- **C12 (namespace, at every depth).** every node of an expansion — the children of the nodes a uses brings
    in and the nodes an augment under it adds included — belongs to the module it is expanded in -/
theorem C12_namespace_deep (env : GEnv) (ns : Tok) (fuel : Nat) (gs : List G) (as : List A)
    (h : expandKids env ns fuel gs = .ok as) : deepAll ns as = true := expandKids_deep env ns fuel gs as h

/-- **C12 (namespace).** Whatever grouping environment, nesting, refines and augments: every node a
    module's expansion produces at a level belongs to the module it is expanded in (the using module for
    nodes copied from a grouping — also a grouping of another module; the augmenting module for the
    children of an augment, `expandModule`) -/
theorem C12_namespace (env : GEnv) (ns : Tok) (fuel : Nat) (gs : List G) (as : List A)
    (h : expandKids env ns fuel gs = .ok as) : ∀ a ∈ as, a.meta.ns = ns := expandKids_ns env ns fuel gs as h

/-- **C12 (if-feature on a uses or augment).** applies to every node introduced, and a refine or an augment
    under the uses does not remove it -/
theorem C12_iff_applies (fs : List Tok) (l : List A) : ∀ a ∈ l.map (addIff fs), ∀ f ∈ fs, f ∈ a.meta.iff := by
  intro a ha f hf
  simp only [List.mem_map] at ha
  obtain ⟨b, _, rfl⟩ := ha
  rw [addIff_iff]; simp [hf]

/-- **C12 (status on a uses or augment).** applies to every node introduced that has no status of its own; a node
    that has one keeps it -/
theorem C12_status_applies (st : Nat) (a : A) : (addSt st a).meta.st = some (a.meta.st.getD st) := by
  unfold addSt
  cases h : a.meta.st with
  | some s => simp [h]
  | none => cases a <;> simp_all [A.setMeta, A.meta]

theorem C12_uses_status (env : GEnv) (ns : Tok) (fuel : Nat) (st : Nat) (g : G) :
    expandOne env ns (fuel + 1) (.stat st g) = (expandOne env ns fuel g).map fun r => r.map (addSt st) := by
  simp only [expandOne]
  cases expandOne env ns fuel g <;> rfl

theorem C12_refine_keeps_iff (a : A) (p : RProp) (v : Bytes) : (setRefine a p v).meta.iff = a.meta.iff :=
  (setRefine_ns_iff a p v).2

/-- **C12 (name clash).** In every tree the compiler builds, the names in the child map of every node —
    its data children, with those of its choices and their cases flattened in — are pairwise distinct:
    a clash among the siblings that uses and augment produce is a compile error -/
theorem C12_no_clash (f : Attr → Bool) (env : FeatEnv) (inh : Inh) (a : A) (at_ : Attr) (ks : List CN)
    (h : build f env inh a = .ok (.mk at_ ks)) :
    (at_.kind = .choice → (flatCaseNames ks).Nodup) ∧ (at_.kind ≠ .choice → (flatNames ks).Nodup) :=
  build_names f env inh a at_ ks h

/-! non-vacuity: grouping g { leaf x; } used in module m: the leaf belongs to m; a refine sets its default -/
example : expandKids [([1], [.leaf [9] {} false none])] [109] 5 [.uses [1] [] [⟨[[9]], .dflt, [53]⟩] []] =
    .ok [.leaf [9] { ns := [109] } false (some [53])] := by
  simp [expandKids, expandOne, List.lookup, applyRefine, atPath, setRefine, addIff, A.setMeta, A.meta, A.name,
    List.foldlM, Except.map]

/-! non-vacuity of the fixed point: container c { uses g { refine x { default 5 } augment x-holder … } } -/
def demoEnv : GEnv := [([1], [.container [7] {} false [.leaf [9] {} false none]])]
def demoBody : List G := [.uses [1] [] [⟨[[7], [9]], .dflt, [53]⟩] [.aug [[7]] [] [.leafList [8] {} none none]]]
def demoOut : List A :=
  [.container [7] { ns := [109] } false [.leaf [9] { ns := [109] } false (some [53]), .leafList [8] { ns := [109] } none none]]
example : expandKids demoEnv [109] 6 demoBody = .ok demoOut := by
  simp [demoEnv, demoBody, demoOut, expandKids, expandOne, List.lookup, applyRefine, applyUsesAug, addKidsAt, atPath,
    setRefine, addIff, A.setMeta, A.meta, A.name, A.kids, A.setKids, A.augmentable, List.foldlM, Except.map]
example : expandKids [] [109] 20 (embed.embedAll demoOut) = .ok demoOut :=
  C12_written_out_is_fixed_point demoEnv [] [109] 6 demoBody demoOut
    (by simp [demoEnv, demoBody, demoOut, expandKids, expandOne, List.lookup, applyRefine, applyUsesAug, addKidsAt, atPath,
          setRefine, addIff, A.setMeta, A.meta, A.name, A.kids, A.setKids, A.augmentable, List.foldlM, Except.map])
    20 (by simp [demoOut, szAll, sz])

end YV.Props.C12
