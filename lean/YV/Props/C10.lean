/-
  C10 — the parse tree mirrors the source and ignores trivia.  Headline theorems.

  Full statement: Model.parse (spellModule ℓ t) = ok (t with positions) for every statement tree t, every
  trivia layout ℓ and every quoting of the arguments.
  Proved: the statement parser returns the tree that was written (`C10_tree_is_source`: for every source
  tree — any depth, any number of sub-statements, arguments absent, unquoted or single-quoted pieces joined
  by '+' — spelled as lexer items with any run of separators before any token, the result is exactly that
  tree: keywords, arguments, keyword positions, source order and nesting; the fuel `parse` supplies always
  suffices); separators are invisible to the parser (`C10_sep_blind`); the lexer's stream always ends
  properly (C07); the argument decoding lemmas of C08 (double-quoted pieces); the lexer reads back what was
  written (`C10_lexer_reads_back`: a text given as any sequence of lexemes — blank runs, block and line
  comments, unquoted words, double- and single-quoted strings, braces, semicolons, '+' — with balanced braces
  is turned into exactly the items of those lexemes at their byte positions, then EOF; a comment yields no
  item, a blank run one separator item), hence from bytes to tree (`C10_text_to_tree`) and comments are
  invisible (`C10_comment_invisible`).  Stream ytree compares the real parser's tree walk with the model and
  the generated tree incl. line:column of every keyword on random trees × layouts × quotings.
-/
import YV.Proofs.YLex
import YV.Proofs.YArg
import YV.Proofs.YTree
import YV.Proofs.YLexR
namespace YV.C10
open YV YV.Y

theorem C10_sep_blind (seps rest : List Item) (h : AllSep seps) (s : PS) (f : Nat) :
    ∃ s' : PS, peekNS (f + seps.length) { s with items := seps ++ rest } =
      peekNS f { s' with items := rest } ∧ s'.items = rest :=
  peekNS_skip seps rest h s f

/-- **the tree mirrors the source, trivia changes nothing**: `Src` is a statement tree together with the
    separator items written before each of its tokens.  Parsing its items returns `src.tree`, which by
    definition reads only the keywords (value and position), the argument pieces and the sub-statements —
    none of the separator runs — so two spellings of one tree that differ in trivia parse to trees that
    differ in positions only. -/
theorem C10_tree_is_source (input : Bytes) (src : Src) (hw : src.wf) (seps : List Item) (eof : Item)
    (hseps : AllSep seps) (heof : eof.typ = .eof) :
    ∃ s', parseItems noChk input (src.items ++ (seps ++ [eof])) = .ok (src.tree, s') ∧ s'.items = [] :=
  parseItems_spec input src hw seps eof hseps heof

/-- `parse` is `parseItems` on what the lexer produced -/
theorem C10_parse_of_items (input : Bytes) (src : Src) (hw : src.wf) (seps : List Item) (eof : Item)
    (hseps : AllSep seps) (heof : eof.typ = .eof)
    (hlex : lex true input = some (src.items ++ (seps ++ [eof]))) :
    ∃ taken total, parse noChk true input = .ok src.tree taken total := by
  obtain ⟨s', h, _⟩ := parseItems_spec input src hw seps eof hseps heof
  unfold parse
  simp only [hlex]
  unfold parseItems at h
  simp only [h]
  exact ⟨_, _, rfl⟩

/-- non-vacuity: a nested source with a comment, a quoted concatenation and blanks is such a `Src` -/
def srcEx : Src :=
  .block [] ⟨.string, 0, [97]⟩ (.bare [⟨.sep, 1, [32]⟩] ⟨.string, 2, [98]⟩) [] ⟨.lbrace, 3, [123]⟩
    [.leaf [⟨.sep, 4, [32]⟩, ⟨.sep, 10, [32]⟩] ⟨.string, 11, [99]⟩
       (.quoted [⟨.sep, 12, [32]⟩] ⟨.quote, 13, [39]⟩ ⟨.string, 14, [120]⟩ ⟨.quote, 15, [39]⟩
          [([], ⟨.plus, 16, [43]⟩, [], ⟨.quote, 17, [39]⟩, ⟨.string, 18, [121]⟩, ⟨.quote, 19, [39]⟩)])
       [] ⟨.semi, 20, [59]⟩]
    [] ⟨.rbrace, 21, [125]⟩

example : lex true ("a b{ /*;*/ c 'x'+'y';}\n".toList.map Char.toNat) =
    some (srcEx.items ++ ([⟨.sep, 22, [10]⟩] ++ [⟨.eof, 23, []⟩])) := by decide
example : srcEx.wf := by
  simp [srcEx, Src.wf, wfL, SArg.wf, moreWf, AllSep]

/-- comments are not items: the lexer emits nothing for them (worked instance, both comment forms,
    a comment containing statement punctuation) -/
def asc (s : String) : Bytes := s.toList.map Char.toNat
def visible (l : Option (List Item)) : Option (List (ITyp × Bytes)) :=
  l.map fun its => (its.filter (·.typ ≠ .sep)).map fun it => (it.typ, it.val)
example : visible (lex true (asc "a /* ; { \" */ b; // c }\n")) = visible (lex true (asc "a b;\n")) := by decide

/-- **the lexer reads back the lexemes** -/
theorem C10_lexer_reads_back (L : List Lx) (hok : okL 0 L) : lex true (renderL L) = some (itemsFrom 0 L) :=
  lex_render L hok

/-- **from bytes to tree**: a text whose lexemes spell a source tree (with any trivia) parses to that tree -/
theorem C10_text_to_tree (L : List Lx) (hok : okL 0 L) (src : Src) (hw : src.wf) (seps : List Item) (eof : Item)
    (hseps : AllSep seps) (heof : eof.typ = .eof) (h : itemsFrom 0 L = src.items ++ (seps ++ [eof])) :
    ∃ taken total, parse noChk true (renderL L) = .ok src.tree taken total :=
  C10_parse_of_items (renderL L) src hw seps eof hseps heof (by rw [lex_render L hok, h])

/-- what the parser can see of an item stream: kinds and values, not positions -/
def shape (l : List Item) : List (ITyp × Bytes) := l.map fun it => (it.typ, it.val)

theorem shape_itemsFrom (L : List Lx) : ∀ p q, shape (itemsFrom p L) = shape (itemsFrom q L) := by
  induction L with
  | nil => intro p q; rfl
  | cons x r ih =>
    intro p q
    simp only [itemsFrom, shape, List.map_append] at ih ⊢
    rw [ih (p + x.bytes.length) (q + x.bytes.length)]
    congr 1
    cases x <;> rfl

/-- **comments are trivia**: a block or line comment anywhere in the text changes no item, only positions -/
theorem C10_comment_invisible (L1 L2 : List Lx) (c : Lx)
    (hc : (∃ b, c = .blockC b) ∨ (∃ b, c = .lineC b) ∨ (∃ b, c = .lineE b)) (pos : Nat) :
    shape (itemsFrom pos (L1 ++ c :: L2)) = shape (itemsFrom pos (L1 ++ L2)) := by
  induction L1 generalizing pos with
  | nil =>
    rcases hc with ⟨b, rfl⟩ | ⟨b, rfl⟩ | ⟨b, rfl⟩ <;>
      simp only [List.nil_append, itemsFrom, Lx.items] <;> exact shape_itemsFrom L2 _ _
  | cons x r ih =>
    simp only [List.cons_append, itemsFrom, shape, List.map_append] at ih ⊢
    rw [ih]

/-- non-vacuity: `m {/*x*/a;//c⏎}` is a well-formed lexeme sequence -/
example : okL 0 [.word [109], .ws [32], .lb, .blockC [120], .word [97], .semi, .lineC [99], .rb] := by
  simp [okL, Lx.ok, renderL, Lx.bytes, nextIs, isTerminator, isSep, noStarSlash]

/-- non-vacuity (after the repair of `lexCommentLine`): a line comment may end the text without a line break,
    and the text lexes to the items of its statements followed by EOF -/
example : okL 0 [.word [109], .ws [32], .lb, .word [97], .semi, .rb, .ws [32], .lineE [101, 110, 100]] := by
  simp [okL, Lx.ok, renderL, Lx.bytes, nextIs, isTerminator, isSep]
example : lex true (renderL [.word [109], .ws [32], .lb, .word [97], .semi, .rb, .ws [32], .lineE [101, 110, 100]]) =
    some (itemsFrom 0 [.word [109], .ws [32], .lb, .word [97], .semi, .rb, .ws [32], .lineE [101, 110, 100]]) :=
  lex_render _ (by simp [okL, Lx.ok, renderL, Lx.bytes, nextIs, isTerminator, isSep])

end YV.C10
