/-
  C10 — the parse tree mirrors the source and ignores trivia.  Headline theorems.

  Full statement: Model.parse (spellModule ℓ t) = ok (t with positions) for every statement tree t, every
  trivia layout ℓ and every quoting of the arguments.
  Proved: separators are invisible to the parser (`C10_sep_blind`: whatever run of separator items precedes
  the next item, the parser's view is the same), the lexer's stream always ends properly (C07), and the
  argument decoding lemmas of C08.  Not proved: the full round trip — held by stream ytree (random trees ×
  layouts with comments / blanks / line breaks at every token boundary × quotings, the real parser's tree
  walk compared with the model and with the generated tree incl. line:column of every keyword).
-/
import YV.Proofs.YLex
import YV.Proofs.YArg
namespace YV.C10
open YV YV.Y

theorem C10_sep_blind (seps rest : List Item) (h : AllSep seps) (s : PS) (f : Nat) :
    ∃ s' : PS, peekNS (f + seps.length) { s with items := seps ++ rest } =
      peekNS f { s' with items := rest } ∧ s'.items = rest :=
  peekNS_skip seps rest h s f

/-- comments are not items: the lexer emits nothing for them (worked instance, both comment forms,
    a comment containing statement punctuation) -/
def asc (s : String) : Bytes := s.toList.map Char.toNat
def visible (l : Option (List Item)) : Option (List (ITyp × Bytes)) :=
  l.map fun its => (its.filter (·.typ ≠ .sep)).map fun it => (it.typ, it.val)
example : visible (lex true (asc "a /* ; { \" */ b; // c }\n")) = visible (lex true (asc "a b;\n")) := by decide

end YV.C10
