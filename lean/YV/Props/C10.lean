/-
  C10 — the parse tree mirrors the source and ignores trivia.  Headline theorems.

  Full statement: Model.parse (spellModule ℓ t) = ok (t with positions) for every statement tree t, every
  trivia layout ℓ and every quoting of the arguments.
  Proved: the statement parser returns the tree that was written (`C10_tree_is_source`: for every source
  tree — any depth, any number of sub-statements, arguments absent, unquoted or single-quoted pieces joined
  by '+' — spelled as lexer items with any run of separators before any token, the result is exactly that
  tree: keywords, arguments, keyword positions, source order and nesting; the fuel `parse` supplies always
  suffices); separators are invisible to the parser (`C10_sep_blind`); the lexer's stream always ends
  properly (C07); the argument decoding lemmas of C08 (double-quoted pieces).  Not proved: that the lexer
  turns every spelling into those items (comments produce no item, blanks one separator item) — held by
  stream ytree (random trees ×
  layouts with comments / blanks / line breaks at every token boundary × quotings, the real parser's tree
  walk compared with the model and with the generated tree incl. line:column of every keyword).
-/
import YV.Proofs.YLex
import YV.Proofs.YArg
import YV.Proofs.YTree
namespace YV.C10
open YV YV.Y

theorem C10_sep_blind (seps rest : List Item) (h : AllSep seps) (s : PS) (f : Nat) :
    ∃ s' : PS, peekNS (f + seps.length) { s with items := seps ++ rest } =
      peekNS f { s' with items := rest } ∧ s'.items = rest :=
  peekNS_skip seps rest h s f

/-- **the tree mirrors the source, trivia changes nothing**: `Src` is a statement tree together with the
    separator items written before each of its tokens.  Parsing its items returns `src.tree`, which by
    definition reads only the keywords (value and position), the argument pieces and the sub-statements —
    none of the separator runs — so two spellings of one tree that differ in trivia parse to trees that
    differ in positions only. -/
theorem C10_tree_is_source (input : Bytes) (src : Src) (hw : src.wf) (seps : List Item) (eof : Item)
    (hseps : AllSep seps) (heof : eof.typ = .eof) :
    ∃ s', parseItems noChk input (src.items ++ (seps ++ [eof])) = .ok (src.tree, s') ∧ s'.items = [] :=
  parseItems_spec input src hw seps eof hseps heof

/-- `parse` is `parseItems` on what the lexer produced -/
theorem C10_parse_of_items (input : Bytes) (src : Src) (hw : src.wf) (seps : List Item) (eof : Item)
    (hseps : AllSep seps) (heof : eof.typ = .eof)
    (hlex : lex true input = some (src.items ++ (seps ++ [eof]))) :
    ∃ taken total, parse noChk true input = .ok src.tree taken total := by
  obtain ⟨s', h, _⟩ := parseItems_spec input src hw seps eof hseps heof
  unfold parse
  simp only [hlex]
  unfold parseItems at h
  simp only [h]
  exact ⟨_, _, rfl⟩

/-- non-vacuity: a nested source with a comment, a quoted concatenation and blanks is such a `Src` -/
def srcEx : Src :=
  .block [] ⟨.string, 0, [97]⟩ (.bare [⟨.sep, 1, [32]⟩] ⟨.string, 2, [98]⟩) [] ⟨.lbrace, 3, [123]⟩
    [.leaf [⟨.sep, 4, [32]⟩, ⟨.sep, 10, [32]⟩] ⟨.string, 11, [99]⟩
       (.quoted [⟨.sep, 12, [32]⟩] ⟨.quote, 13, [39]⟩ ⟨.string, 14, [120]⟩ ⟨.quote, 15, [39]⟩
          [([], ⟨.plus, 16, [43]⟩, [], ⟨.quote, 17, [39]⟩, ⟨.string, 18, [121]⟩, ⟨.quote, 19, [39]⟩)])
       [] ⟨.semi, 20, [59]⟩]
    [] ⟨.rbrace, 21, [125]⟩

example : lex true ("a b{ /*;*/ c 'x'+'y';}\n".toList.map Char.toNat) =
    some (srcEx.items ++ ([⟨.sep, 22, [10]⟩] ++ [⟨.eof, 23, []⟩])) := by decide
example : srcEx.wf := by
  simp [srcEx, Src.wf, wfL, SArg.wf, moreWf, AllSep]

/-- comments are not items: the lexer emits nothing for them (worked instance, both comment forms,
    a comment containing statement punctuation) -/
def asc (s : String) : Bytes := s.toList.map Char.toNat
def visible (l : Option (List Item)) : Option (List (ITyp × Bytes)) :=
  l.map fun its => (its.filter (·.typ ≠ .sep)).map fun it => (it.typ, it.val)
example : visible (lex true (asc "a /* ; { \" */ b; // c }\n")) = visible (lex true (asc "a b;\n")) := by decide

end YV.C10
