/-
  C02 — location paths resolve to exactly the designated data node.  Headline theorems
  (lemmas: YV/Proofs/XPathC.lean, YV/Proofs/XKeys.lean, YV/Proofs/XRun.lean).
-/
import YV.Proofs.XPathC
import YV.Proofs.XKeys
import YV.Proofs.XRun
namespace YV.C02
open YV YV.X YV.XP YV.XM YV.XPS YV.XC

/-- Full statement of the property (kept visible):  for every supported path `p`, every tree `t`
    without injected fault, `run (program p)` = the specification's requests and value.
    What is proved is `C02_nav_partial`: the same statement for paths whose predicate operands are
    literals, numbers, predicate-free paths (absolute, current()-rooted, '..'-rooted) and function results —
    any closed, arity-correct expression without '=' over the functions of C01_machine_is_xpath: the scalar
    sub-machine runs inside the predicate (`exec_scalar`) and the key receives the string-value the XPath 1.0
    semantics gives the operand (`evalM_spec`) — and whose predicates use pairwise different keys per step
    (`GoodPath`).  Missing: operands calling round() / substring() (see C01) or containing '=' (inside a
    predicate the '=' instruction records a key).
    Two predicates with the same key on one step are outside what the property fixes. -/
theorem C02_nav_partial (t : Tree) (hf : NoFault t) (hv : ValidTree t) (p : PathE) (hg : GoodPath p) :
    run true t (program (.path p)) =
      { value := some (evalPath t p).2, err := none, trace := (evalPath t p).1 } :=
  run_path_eq_spec t hf hv p hg

/-- **C02 (several location paths in one expression).** The operands of an operator, the arguments of a function: for
    every list of supported paths, the code that evaluates them one after the other issues the requests of the first,
    then those of the second, … — each path resolved from the context node exactly as if it stood alone, nothing of one
    path left behind for the next — and leaves their values on the stack in source order, the machine otherwise as it
    started (one empty context path, no predicate open). -/
theorem C02_paths_in_sequence (t : Tree) (hf : NoFault t) (hv : ValidTree t) (ps : List PathE)
    (hg : ∀ p ∈ ps, GoodPath p) :
    ∃ s', exec true t (pathsCode ps) {} = .ok s' ∧ s'.trace.reverse = pathsTrace t ps ∧
      s'.stack = (pathsValues t ps).reverse ∧ s'.paths = [{}] ∧ s'.predCount = 0 := by
  obtain ⟨llf, h⟩ := exec_paths t hf hv ps hg {} rfl rfl rfl rfl
  exact ⟨_, h, by simp, by simp, rfl, rfl⟩

/-- that code is what the compiler writes for two paths under a binary operator and for two paths as arguments -/
theorem C02_operands_code (op : BinOp) (p1 p2 : PathE) :
    code (.bin op (.path p1) (.path p2)) = pathsCode [p1, p2] ++ [binPI op] := by
  simp [code, pathsCode, List.append_assoc]

theorem C02_arguments_code (f : Fn) (p1 p2 : PathE) :
    code (.call f [.path p1, .path p2]) = pathsCode [p1, p2] ++ [.bltin f] := by
  simp [code, codeList, pathsCode, List.append_assoc]

theorem stepKeys_fst (t : Tree) (here : Path) (preds : List (Str × Operand)) :
    (stepKeys t here preds).1 = preds.map (fun kv => (kv.1, (operandValue t here kv.2).1)) := by
  induction preds with
  | nil => rfl
  | cons kv preds ih => obtain ⟨k, op⟩ := kv; simp [stepKeys, ih]

/-- Predicate order is irrelevant for the node that is designated: permuting the predicates of a step
    (pairwise different keys) leaves the step's path element — name and key set — unchanged. -/
theorem C02_pred_order (t : Tree) (p : Path) (n : Str) (preds preds' : List (Str × Operand))
    (hp : preds.Perm preds') (hd : (preds.map Prod.fst).Nodup) :
    (stepPath t p (.named n preds)).1 = (stepPath t p (.named n preds')).1 := by
  simp only [stepPath, stepKeys_fst]
  have h := keysOf_perm
    (preds.map (fun kv => (kv.1, (operandValue t { p with elems := p.elems ++ [{ name := n }] } kv.2).1)))
    (preds'.map (fun kv => (kv.1, (operandValue t { p with elems := p.elems ++ [{ name := n }] } kv.2).1)))
    (hp.map _) (by simpa [List.map_map, Function.comp_def] using hd)
  simp only [keysOf] at h
  rw [h]

/-- A prefix on a step never changes which node is addressed: the machine does not look at it. -/
theorem C02_prefix_irrelevant (t : Tree) (pfx pfx' loc : List XL.Rune) (s : MSt) :
    step true t (.namePush pfx loc) s = step true t (.namePush pfx' loc) s :=
  step_prefix_irrelevant true t pfx pfx' loc s

/-- non-vacuity: `/a/b[k2=../x][k1='v']/c` is a covered path, on a concrete tree -/
def exPath : PathE :=
  .basic .abs [.named "a".toList [],
               .named "b".toList [("k2".toList, .path ⟨.rel, [.up, .name "x".toList]⟩), ("k1".toList, .lit "v".toList)],
               .named "c".toList []]

def exTree : Tree := { value := fun p => .lit (showPath p).toList, derefTarget := id }

example : GoodPath exPath ∧ NoFault exTree ∧ ValidTree exTree := by
  refine ⟨?_, rfl, fun p => by simp [exTree]⟩
  intro st hst
  simp [exPath] at hst
  rcases hst with h | h | h <;> subst h <;> simp [GoodStep, GoodPreds, okOp]

example : (run true exTree (program (.path exPath))).trace =
    ["Navigate(ROOT/a/b/../x)", "GetValue(ROOT/a/b/../x)",
     "Navigate(ROOT/a/b[k1=v][k2=ROOT/a/b/../x]/c)", "GetValue(ROOT/a/b[k1=v][k2=ROOT/a/b/../x]/c)"] := by
  decide

/-- non-vacuity for function-result operands: `/a[k=concat('x', string(1 + 2))]` addresses `a[k=x3]` -/
def exFn : PathE :=
  .basic .abs [.named "a".toList [("k".toList,
    .scalar (.call .concat [.lit "x".toList, .call .string [.bin .add (.num SF.one) (.num (SF.ofNat 2))]]))]]

example : GoodPath exFn := by
  intro st hst
  simp [exFn] at hst
  subst hst
  simp [GoodStep, GoodPreds, okOp, GoodScalar, WellFormed, WellFormedList, XS.PureX, XS.PureXs, XS.pureFn,
    ClosedNoEq, ClosedNoEqs, Fn.sig]

end YV.C02
