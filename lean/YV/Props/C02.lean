import YV.Spec.XCompile
namespace YV.C02
theorem placeholder : True := trivial
end YV.C02
