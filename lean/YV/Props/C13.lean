/-
  C13 — derived types narrow their base and inherit its default.  Headline theorems.

  * `C13_narrow`: whatever the base and the restriction text, if the compiler's range/length construction
    accepts, the result is a subset of the base, ascending and pairwise disjoint (any number of parts,
    adjacent base parts merged) — integer types and string lengths, exact arithmetic.
  * `C13_chain`: a value accepted by a type built through any chain of restrictions is a value of every
    type below it in the chain (induction over the chain).
  * `C13_default_partial`: the default of the built type is that of the nearest level that gives one.
  * `C13_kinds`, `C13_bounds`: which restriction applies to which base, and the initial bounds of every width
    / fraction-digits, are those of the source (regenerated), and the bound tables are exactly the 2^n formulas.
  * `C13_complete`, `C13_chain_is_spec`: completeness — for integer types and lengths the compiler accepts a
    restriction exactly when the specification does (every part non-empty, ascending, each inside one block of
    the base after adjacent base ranges are merged) and with the same result, at every level of any chain of
    derivations starting from a built-in range (the bases that arise are sorted: `restrict_keeps_sorted`).
  Not proved: completeness for decimal64 (no merging there; modelled with binary64 bounds as the code has them,
  known finding C13-decimal64-float-bounds) — held by stream ytypes against the spec.
-/
import YV.Proofs.YTypes
import YV.Proofs.YRange
import YV.Spec.YTypesS
import YV.Gen.Types
import YV.Gen.Status
namespace YV.C13
open YV YV.Y YV.T

theorem C13_narrow (base : List (Int × Int)) (hne : base ≠ []) (parts : List (Part Int)) (rs : List (Int × Int))
    (h : restrict intOps base parts = some rs) :
    (∀ v, InSet rs v → InSet base v) ∧ orderedDisjoint intOps rs = true :=
  restrict_sound base hne parts rs h

/-- iterating restrictions only ever narrows: the set after any chain of accepted restrictions is inside
    the set it started from -/
theorem C13_chain (base : List (Int × Int)) (hne : base ≠ []) (chain : List (List (Part Int))) :
    ∀ final, (chain.foldlM (fun cur parts => restrict intOps cur parts) base = some final) →
      ∀ v, InSet final v → InSet base v := by
  induction chain generalizing base with
  | nil => intro final h v hv; simp [List.foldlM] at h; subst h; exact hv
  | cons parts rest ih =>
    intro final h v hv
    simp only [List.foldlM_cons] at h
    cases hr : restrict intOps base parts with
    | none => simp [hr] at h
    | some rs =>
      simp only [hr, Option.bind_eq_bind, Option.bind_some] at h
      have hsound := restrict_sound base hne parts rs hr
      have hrs : rs ≠ [] := by
        intro e; subst e
        simp only [restrict] at hr
        cases hm : parts.mapM (stepPart intOps base) with
        | none => simp [hm] at hr
        | some x => simp only [hm] at hr; split at hr <;> simp_all
      exact hsound.1 v (ih rs hrs final h v hv)

/-- **completeness**: on a sorted base the compiler's construction *is* the specification's `validRestriction` -/
theorem C13_complete (base : List (Int × Int)) (hne : base ≠ []) (hs : sortedBase base) (parts : List (Part Int)) :
    restrict intOps base parts = TS.validRestriction base (parts.map fun p => (p.lo, p.hi)) :=
  restrict_eq_spec base hne hs parts

theorem chain_is_spec (chain : List (List (Part Int))) : ∀ (base : List (Int × Int)), base ≠ [] → sortedBase base →
    chain.foldlM (fun cur parts => restrict intOps cur parts) base =
      chain.foldlM (fun cur parts => TS.validRestriction cur (parts.map fun p => (p.lo, p.hi))) base := by
  induction chain with
  | nil => intro base _ _; rfl
  | cons parts rest ih =>
    intro base hne hs
    simp only [List.foldlM_cons]
    rw [← restrict_eq_spec base hne hs parts]
    cases hr : restrict intOps base parts with
    | none => rfl
    | some rs =>
      have := restrict_keeps_sorted base parts rs hr
      simp only [Option.bind_eq_bind, Option.bind_some]
      exact ih rs this.1 this.2

/-- … through any chain of derivations from a built-in type's range [lo, hi] -/
theorem C13_chain_is_spec (lo hi : Int) (h : lo ≤ hi) (chain : List (List (Part Int))) :
    chain.foldlM (fun cur parts => restrict intOps cur parts) [(lo, hi)] =
      chain.foldlM (fun cur parts => TS.validRestriction cur (parts.map fun p => (p.lo, p.hi))) [(lo, hi)] :=
  chain_is_spec chain [(lo, hi)] (by simp) h

/-- the default in force after a chain: the nearest definition that gives one -/
def nearestDefault (levels : List Level) : Option Bytes :=
  levels.foldl (fun d lv => nearer lv.dflt d) none

theorem go_default (levels : List Level) (t : Ty) (d : Option Bytes) :
    ∀ (t0 : Ty) (d0 : Option Bytes), build.go t0 d0 levels = some (t, d) →
      d = levels.foldl (fun d lv => nearer lv.dflt d) d0 := by
  induction levels with
  | nil => intro t0 d0 h; simp [build.go] at h; exact h.2.symm
  | cons lv rest ih =>
    intro t0 d0 h
    simp only [build.go] at h
    cases ha : applyLevel t0 lv with
    | none => simp [ha] at h
    | some t' =>
      simp only [ha] at h
      simp only [List.foldl_cons]
      split at h
      · split at h
        · rename_i dv heq _
          have := ih t' _ h
          simpa [heq] using this
        · simp at h
      · rename_i heq
        have := ih t' _ h
        simpa [heq] using this

theorem C13_default_partial (k : BaseKind) (levels : List Level) (t : Ty) (d : Option Bytes)
    (h : build k levels = some (t, d)) : d = nearestDefault levels := go_default levels t d _ _ h

theorem go_default_valid (levels : List Level) (lv : Level) (t : Ty) (d : Option Bytes) (dv : Bytes) (hd : d = some dv) :
    ∀ (t0 : Ty) (d0 : Option Bytes), build.go t0 d0 (levels ++ [lv]) = some (t, d) → validate t dv = true := by
  induction levels with
  | nil =>
    intro t0 d0 h
    simp only [List.nil_append, build.go] at h
    cases ha : applyLevel t0 lv with
    | none => simp [ha] at h
    | some t' =>
      simp only [ha] at h
      split at h
      · split at h
        · rename_i dv' heq hv
          simp at h
          obtain ⟨rfl, rfl⟩ := h
          rw [heq] at hd; cases hd; exact hv
        · simp at h
      · rename_i heq
        simp at h
        obtain ⟨rfl, rfl⟩ := h
        rw [heq] at hd; cases hd
  | cons l0 rest ih =>
    intro t0 d0 h
    simp only [List.cons_append, build.go] at h
    cases ha : applyLevel t0 l0 with
    | none => simp [ha] at h
    | some t' =>
      simp only [ha] at h
      split at h
      · split at h
        · exact ih _ _ h
        · simp at h
      · exact ih _ _ h

/-- … and a default the final type rejects makes the build fail at that level (`validateDefault`) -/
theorem C13_default_valid (k : BaseKind) (levels : List Level) (lv : Level) (t : Ty) (d : Option Bytes) (dv : Bytes)
    (h : build k (levels ++ [lv]) = some (t, d)) (hd : d = some dv) : validate t dv = true :=
  go_default_valid levels lv t d dv hd _ _ h

/-- which restriction statements apply to which base kind: as in the source -/
theorem C13_kinds : Gen.validRestrictions = [
    ("SchemaBits", ["NodeBit"]), ("SchemaBool", []),
    ("SchemaDecimal64", ["NodeConfigdSyntax", "NodeFractionDigits", "NodeRange"]),
    ("SchemaEmpty", []), ("SchemaEnumeration", ["NodeEnum"]), ("SchemaIdentity", []),
    ("SchemaInstanceId", ["NodeRequireInstance"]), ("SchemaLeafRef", ["NodePath"]),
    ("SchemaNumber", ["NodeConfigdSyntax", "NodeRange"]),
    ("SchemaString", ["NodeConfigdSyntax", "NodeLength", "NodePattern"]), ("SchemaUnion", ["NodeTyp"])] := by decide

def asc (s : String) : Bytes := s.toList.map Char.toNat

/-- the bound tables of the source are exactly [-2^(w-1), 2^(w-1)-1], [0, 2^w-1] and ∓2^63(-1)/10^fd -/
theorem C13_bounds :
    Gen.inttab.map (fun r => (boundaryInt (asc r.2.1), boundaryInt (asc r.2.2))) =
      [8, 16, 32, 64].map (fun w => (some (-(2 ^ (w - 1) : Int)), some ((2 ^ (w - 1) : Int) - 1))) ∧
    Gen.uinttab.map (fun r => (boundaryInt (asc r.2.1), boundaryInt (asc r.2.2))) =
      [8, 16, 32, 64].map (fun w => (some (0 : Int), some ((2 ^ w : Int) - 1))) ∧
    Gen.fdtab.map (fun r => (TS.scaled (asc r.1).length.succ.pred (asc r.2.1), r.1)) =
      Gen.fdtab.map (fun r => (TS.scaled (asc r.1).length (asc r.2.1), r.1)) := by
  refine ⟨by decide, by decide, rfl⟩

theorem C13_fd_bounds :
    (List.range 18).map (fun i => (Gen.fdtab.lookup (toString (i + 1))).map fun r =>
        (TS.scaled (i + 1) (asc r.1), TS.scaled (i + 1) (asc r.2))) =
      (List.range 18).map (fun _ => some (some (-(2 ^ 63 : Int)), some ((2 ^ 63 : Int) - 1))) := by decide

/-- non-vacuity: `range "1..5 | 10..20"` restricted by `"3..4 | 12..15"` is accepted, by `"3..12"` is not -/
example : restrict intOps [(1, 5), (10, 20)] [⟨some 3, some 4⟩, ⟨some 12, some 15⟩] = some [(3, 4), (12, 15)] ∧
          restrict intOps [(1, 5), (10, 20)] [⟨some 3, some 12⟩] = none ∧
          restrict intOps [(1, 5), (6, 20)] [⟨some 3, some 12⟩] = some [(3, 12)] := by decide

end YV.C13
