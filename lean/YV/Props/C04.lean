/-
  C04 — exactly the supported XPath and leafref path syntax is accepted.  Headline obligations.
-/
import YV.Model.XTables
import YV.Gen.XPath
import YV.Gen.Status
import YV.Proofs.XReject
import YV.Proofs.XFuncs
import YV.Proofs.XLeafref
import YV.Proofs.XText
namespace YV.C04
open YV YV.X YV.XL YV.XP

/-- the translator recognised every shape it was asked to extract -/
theorem C04_gen_complete : Gen.extractionFailures = [] := by decide

/-- the function table of the source is the one the models use (names, arities, argument kinds, return kinds) -/
theorem C04_fn_table : Gen.fnTable = XT.fnTableSorted := by decide

theorem C04_token_consts : Gen.tokenConsts = XT.tokenConsts := by decide
/-- in particular the two values the lexer model hard-codes -/
theorem C04_eof_err : Gen.tokenConsts.lookup "EOF" = some XL.EOF ∧ Gen.tokenConsts.lookup "ERR" = some XL.ERR := by decide

theorem C04_expr_token_map : Gen.exprTokenMap = XT.exprTokenMap := by decide
theorem C04_leafref_token_map : Gen.leafrefTokenMap = XT.leafrefTokenMap := by decide
theorem C04_patheval_token_map : Gen.pathEvalTokenMap = XT.pathEvalTokenMap := by decide
theorem C04_name_lists :
    Gen.nodeTypeNames = XT.nodeTypeNames ∧ Gen.axisNames = XT.axisNames ∧
    Gen.operatorNames = XT.operatorNames ∧ Gen.notOperatorAfter = XT.notOperatorAfter := by decide +kernel

/-- the grammars the parser models transcribe are the grammars of the source, production by production,
    including which ProgBuilder method each action calls -/
theorem C04_expr_rules : Gen.exprRules = XT.exprRules := by decide +kernel
theorem C04_leafref_rules : Gen.leafrefRules = XT.leafrefRules := by decide +kernel

/-- goyacc reports no conflict for the current grammars (so LALR(1) accepts exactly the context-free
    language and the recursive-descent transcription is equivalent), and the checked-in tables are fresh -/
theorem C04_yacc_no_conflicts :
    Gen.yaccConflicts = [("xpath.y", "0/0"), ("leafref.y", "0/0"), ("path_eval.y", "0/0")] := by decide
theorem C04_yacc_fresh : Gen.yaccFresh = [("xpath.go", "fresh"), ("path_eval.go", "fresh")] := by decide

/-- **C04 (unsupported constructs are rejected).** If a machine is built for a must / when (or path-eval)
    expression, then no token the lexer delivered before the end of the text is an axis name, an '@', a '//' or a
    node-type test: every expression using one of them is refused with an error (invariant over the eleven
    mutually recursive parser functions: an action sets parseErr as soon as such a token is read, and the result
    is a machine only if parseErr is empty). -/
theorem C04_unsupported_rejected (strict fixed : Bool) (g : Grammar) (hg : g ≠ .leafref) (pm : PfxMap) (bs : List Nat)
    (prog : List PI) (h : build strict fixed g pm bs = .machine prog) :
    ∃ pre rest, (lexAll strict g pm bs).1 = pre ++ rest ∧ (∀ t ∈ pre, bad t.tok = false) ∧
      (rest.head?.map (·.tok)).getD .eof = .eof :=
  build_rejects strict fixed g hg pm bs prog h

/-- **C04 (functions are the registered ones).** The lexer of the must / when and path-eval grammars hands out a
    function token only for a name that the function table (`C04_fn_table`: regenerated from symbol.go) maps to that
    function, and only before an opening parenthesis -/
theorem C04_function_tokens_are_registered (strict : Bool) (pm : PfxMap) (c : Rune) (s s' : LexSt) (f : Fn)
    (h : lexNameCommon strict pm c s = (.func f, s')) :
    lookupFn (constructToken c nameCharCommon "NAME" s).1 = some f ∧
      nnwsIs [chr '('] (constructToken c nameCharCommon "NAME" s).2 = true :=
  func_token_from_table strict pm c s s' f h

/-- **C04 (unknown functions are rejected).** A name before an opening parenthesis that the table does not hold — a
    near-miss spelling such as `starts_with`, a function of XPath this code base does not implement — is a lexer
    error (`current`, `deref` and the node-type names have tokens of their own) -/
theorem C04_unknown_function_rejected (strict : Bool) (pm : PfxMap) (c : Rune) (s : LexSt)
    (hop : canBeOperator (constructToken c nameCharCommon "NAME" s).2.prec = false)
    (hpar : nnwsIs [chr '('] (constructToken c nameCharCommon "NAME" s).2 = true)
    (hno : lookupFn (constructToken c nameCharCommon "NAME" s).1 = none)
    (hc : (constructToken c nameCharCommon "NAME" s).1 ≠ strR "current")
    (hd : (constructToken c nameCharCommon "NAME" s).1 ≠ strR "deref")
    (hn : isNodeType (constructToken c nameCharCommon "NAME" s).1 = false) :
    (lexNameCommon strict pm c s).1 = .err :=
  unknown_function_is_error strict pm c s hop hpar hno hc hd hn

/-- non-vacuity: the table knows `starts-with` and neither `starts_with` nor `lang` -/
example : (lookupFn (strR "starts-with")).isSome = true ∧ lookupFn (strR "starts_with") = none ∧
    lookupFn (strR "lang") = none := by decide

/-- what the lexer makes of the characters in question ('@' and '//'; axis and node-type names are recognised by
    `lexNameCommon` before '::' / '(') -/
theorem C04_at_token (strict : Bool) (pm : PfxMap) (s : LexSt) : (lexTok strict .expr pm (chr '@') s).1 = .ch (chr '@') := by
  simp [lexTok, chr, EOF, ERR, isDigitR]
theorem C04_dblslash_token (strict : Bool) (pm : PfxMap) (s : LexSt) (h : (next s).1 = chr '/') :
    (lexTok strict .expr pm (chr '/') s).1 = .dblslash := by
  simp [lexTok, chr, EOF, ERR, isDigitR] at h ⊢
  simp [h]
example : bad (.ch (chr '@')) = true ∧ bad .dblslash = true ∧ bad (.axisname []) = true ∧ bad (.nodetype []) = true := by
  simp [bad]

/-! ### the leafref path grammar -/

/-- **C04 (leafref: exactly RFC 6020 path-arg).**  The leafref parser accepts a token list iff it is — up to the
    end-of-input token — the token sequence of a tree of the RFC 6020 grammar (`LPath`: absolute-path =
    1*("/" (node-identifier *path-predicate)); relative-path = 1*(".." "/") descendant-path; descendant-path =
    node-identifier [*path-predicate absolute-path]; path-predicate = "[" node-identifier "=" function "(" ")" "/"
    1*(".." "/") *(node-identifier "/") node-identifier "]"), for every token list: any number of steps,
    predicates and "..", and nothing else.  (That the function is `current` is the lexer's: the leafref lexer
    makes a function token of no other name.) -/
theorem C04_leafref_exact (toks : List LexedTok) :
    (∃ s', parseLeafrefToks toks = .ok s') ↔
      ∃ (p : LPath) (rest : List Tok), toks.map (·.tok) = p.toks ++ rest ∧ rest.headD .eof = .eof := by
  constructor
  · rintro ⟨s', h⟩
    obtain ⟨p, rest, h1, h2, _⟩ := parse_sound toks s' h
    exact ⟨p, rest, h1, h2⟩
  · rintro ⟨p, rest, h1, h2⟩
    obtain ⟨s', h, _⟩ := parse_complete p toks rest h1 h2
    exact ⟨s', h⟩

/-- … and the program of an accepted path is the one the grammar actions emit for that tree -/
theorem C04_leafref_program (toks : List LexedTok) (s' : PSt) (h : parseLeafrefToks toks = .ok s') :
    ∃ p : LPath, s'.out.reverse = p.code ++ [.evalLocPath, .store] ∧
      ∃ rest, toks.map (·.tok) = p.toks ++ rest := by
  obtain ⟨p, rest, h1, _, h3⟩ := parse_sound toks s' h
  exact ⟨p, h3, rest, h1⟩

/-- non-vacuity: ../../a[k = current()/../b]/c  is a tree -/
def exLref : LPath :=
  .rel 1 ([], [97]) (some ([⟨([], [107]), .current, 0, [], ([], [98])⟩], ⟨([], [99]), []⟩, []))
example : exLref.toks =
    [.dotdot, .ch (chr '/'), .dotdot, .ch (chr '/'), .nametest [] [97], .ch (chr '['), .nametest [] [107], .eq,
     .func .current, .ch (chr '('), .ch (chr ')'), .ch (chr '/'), .dotdot, .ch (chr '/'), .nametest [] [98],
     .ch (chr ']'), .ch (chr '/'), .nametest [] [99]] := by
  simp [exLref, LPath.toks, upsToks, predsToks, LPred.toks, namesToks, LStep.toks, restToks, QN.tok]

/-- **C04 (must / when: the operator fragment is accepted).**  Every text of the fragment of `C03_text_to_program`
    compiles: `build` returns a machine, not an error. -/
theorem C04_fragment_accepted (e : PE) (hf : e.fits 0) (hn : e.lexable) (items : List Item)
    (hi : items.map (·.tok) = e.toks) (hok : ∀ i ∈ items, i.ok) (hgl : glued items) (lead : List Rune)
    (hl : ∀ x ∈ lead, isWS x = true) (pm : PfxMap)
    (hpf : ∀ i ∈ items, ∀ p l, i.tok = .nametest p l → pfxOk pm p = true) (fixed : Bool) (bs : List Nat)
    (hbs : (decode bs).map (·.cp) = lead ++ renderX items) :
    ∃ prog, build false fixed .expr pm bs = .machine prog :=
  ⟨_, text_to_program e hf hn items hi hok hgl lead hl pm hpf fixed bs hbs⟩

end YV.C04
