import YV.Model.XParse
namespace YV.C04
theorem placeholder : True := trivial
end YV.C04
