/-
  C07 — YANG parsing is total and leaves nothing running.  Headline theorems.

  Full statement: for every byte string, `parse` returns `.ok` with a root or `.err l c` with l ≥ 1 and
  (l,c) inside the text, never `.diverge`/`.fuel`, and the lexer's item stream is fully consumed or drained.
  Proved: the repaired lexer state machine terminates on every input and its stream always ends with an
  EOF or Error item (`C07_lex_total` — this is the goroutine's termination: every state consumes input or
  stops); the parser is total (`C07_parse_total`: for every byte string and every statement check the
  outcome is a tree or a located error — never `.diverge`, never `.fuel`: each step that recurses has received
  at least one item, so the fuel `parse` supplies, the number of items plus two, cannot run out); the
  reported line lies inside the text (`C07_error_line_in_text`).
  Not proved (held by the correspondence streams yfuzz: all texts ≤3/4 bytes over a 16-byte alphabet, every
  prefix of generated modules, random bytes; watchdog + goroutine dump on the real code): the column bound;
  that the Go runtime reaps the drained goroutine is observed, not proved.
-/
import YV.Proofs.YLex
import YV.Proofs.YTotal
import YV.Gen.Parse
import YV.Model.YTables
namespace YV.C07
open YV YV.Y

theorem C07_lex_total (input : Bytes) :
    ∃ l, lex true input = some l ∧ ∃ init last, l = init ++ [last] ∧ (last.typ = .eof ∨ last.typ = .error) :=
  lex_total input

theorem C07_parse_no_diverge_partial (chk : Stmt → Bool) (input : Bytes) :
    (match parse chk true input with | .diverge => False | _ => True) := by
  obtain ⟨l, hl, _⟩ := lex_total input
  simp only [parse, hl]
  generalize (do
      let (st, s1) ← pStmt chk input (l.length + 2) { items := l }
      let (_, s2) ← expectT .eof s1
      pure (st, s2) : P (Stmt × PS)) = r
  rcases r with ⟨e, n⟩ | ⟨st, s⟩
  · cases e <;> trivial
  · trivial

/-- **totality of parsing**: every input, every statement check: a root or an error with a position -/
theorem C07_parse_total (chk : Stmt → Bool) (input : Bytes) :
    (∃ root taken total, parse chk true input = .ok root taken total) ∨
    (∃ l c taken total, parse chk true input = .err l c taken total) := parse_total chk input

/-- the line an error names is a line of the text: between 1 and the number of line feeds plus one -/
theorem C07_error_line_in_text (input : Bytes) (pos : Nat) :
    1 ≤ (lineCol input pos).1 ∧ (lineCol input pos).1 ≤ 1 + (input.filter (· = 10)).length := by
  unfold lineCol
  simp only []
  refine ⟨by omega, ?_⟩
  have : ((input.take pos).filter (· = 10)).length ≤ (input.filter (· = 10)).length := by
    conv => rhs; rw [← List.take_append_drop pos input]
    rw [List.filter_append, List.length_append]; omega
  omega

/-- the defect that was repaired, as a theorem about the unrepaired state machine: a text that ends inside
    an unquoted word makes it spin forever (parse.Parse("x", "module", nil) never returned) -/
def asc (s : String) : Bytes := s.toList.map Char.toNat
theorem C07_unrepaired_diverges : lex false (asc "module") = none := by decide

example : (lex true (asc "a b;")).isSome = true := by decide

/-- **C07 (the stack).** The statement parser recurses once per level of nesting and once per '+' piece; the model is a
    fuelled function and has no stack to exhaust.  What keeps the code's recursion bounded are two constants of
    parse/parse.go: they are there (regenerated on every run; their absence is a failed extraction) and they are the
    values the driver predicts stream ydeep with. -/
theorem C07_recursion_bounds_are_source : Gen.parseLimits = YT.parseLimits := by decide

end YV.C07
