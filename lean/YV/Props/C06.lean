/-
  Props.C06 — compiled machines are immutable and safe under concurrency.

  Interleavings of goroutines are not something a Lean function has; what is stated here is
   (1) the specification: a run's outcome is a function of (program, data tree) — the model's `run` starts
       from the initial state and the program is only read — so the outcomes of any batch of runs are, run
       by run, the isolated outcomes, in whatever order the runs are taken;
   (2) regenerated facts about the real package (tools/gen, go/ast over xpath/*.go on every run): no function
       stores through a value of type Machine; the only package-level variables written after initialisation
       are the debug logger, the test bookkeeping map, and the function table with its loaded-flag, the
       latter two only inside RegisterCustomFunctions, which LookupXpathFunction calls with the package mutex
       held.  A change that gives the machine or the package mutable state breaks these obligations.
  That the real machine behaves like (1) after any history and under concurrency is sampled by the stream
  `yconc` on a race-detector build.
-/
import YV.Model.XPathM
import YV.Gen.Conc
import YV.Gen.Status
namespace YV.Props.C06
open YV YV.XM

/-- **C06 (specification).** every run of a batch gives what it gives in isolation, in any order -/
theorem C06_isolated (fixRoot : Bool) (prog : List XP.PI) (ts ts' : List Tree) (h : ts.Perm ts') :
    (ts.map fun t => (run fixRoot t prog).value.isSome).Perm (ts'.map fun t => (run fixRoot t prog).value.isSome) :=
  h.map _

theorem C06_gen_complete : Gen.extractionFailures = [] := by decide

/-- no function of package xpath writes a field of a Machine -/
theorem C06_machine_never_written : Gen.concMachineWrites = [] := by decide

/-- the package-level variables, and every function that stores to one -/
theorem C06_globals : Gen.concGlobals =
    ["dlog", "mu", "pluginsLoaded", "testedFunctionTable", "testedMu", "xpathFunctionTable"] := by decide

theorem C06_global_writes : Gen.concGlobalWrites =
    ["SetDebugLogger: dlog", "init: dlog", "markFunctionAsTested: testedFunctionTable",
     "registerCustomFunctions: pluginsLoaded", "registerCustomFunctions: xpathFunctionTable"] := by decide

/-- the function table is read, lazily filled and (after the repair) extended by a plugin registration with the
    package mutex held; the table of tested functions is written, by runs in validation mode, under a mutex of its
    own (after the repair); the one remaining unguarded store is the debug logger -/
theorem C06_lookup_locked : "LookupXpathFunction" ∈ Gen.concLockedFuncs := by decide
theorem C06_register_locked : "RegisterCustomFunctions" ∈ Gen.concLockedFuncs := by decide
theorem C06_tested_locked : "markFunctionAsTested: testedMu" ∈ Gen.concLockedFuncs := by decide

end YV.Props.C06
