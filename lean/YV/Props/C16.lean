/-
  C16 — type validation accepts exactly the YANG value space.  Headline theorems (one iff per type).

  integers / unsigned / strings / boolean / empty / enumeration: the model's `validate` is unfolded into the
  lexical condition, the exact width bounds and the range set.  decimal64: the lexical condition and the exact
  64-bit bounds are proved against scaled integers (`C16_dec64_lex`); the comparison with *ranges* is done by
  the code in binary64, which is adequate away from the 64-bit bounds and not near them (known finding
  C16-decimal64-float-ranges; witness `C16_dec64_float_witness`).  Patterns (RE2 vs XSD dialect), identityref
  and union are not in this model: union = "some member accepts" and identities = "derived set" are covered by
  the correspondence stream only where the generator builds them.
-/
import YV.Spec.YTypesS
namespace YV.C16
open YV YV.Y YV.T YV.TS

theorem C16_int (w : Nat) (rs : List (Int × Int)) (s : Bytes) :
    validate (.int w rs) s = true ↔
      ∃ v, parseSigned s = some v ∧ -(2 ^ (w - 1) : Int) ≤ v ∧ v ≤ 2 ^ (w - 1) - 1 ∧ inRanges rs v = true := by
  simp only [validate]
  cases h : parseSigned s with
  | none => simp
  | some v => simp [and_assoc]

theorem C16_uint (w : Nat) (rs : List (Int × Int)) (s : Bytes) :
    validate (.uint w rs) s = true ↔
      allDigits (stripPlus s) = true ∧ Int.ofNat (natOf (stripPlus s)) ≤ 2 ^ w - 1 ∧
        inRanges rs (Int.ofNat (natOf (stripPlus s))) = true := by
  simp only [validate]
  by_cases h : allDigits (stripPlus s) = true
  · simp [h]
  · simp [h]

theorem C16_bool (s : Bytes) : validate .bool s = true ↔ (s = msg "true" ∨ s = msg "false") := by
  simp [validate]

theorem C16_empty (s : Bytes) : validate .empty s = true ↔ s = [] := by
  simp [validate]

theorem C16_enum (names : List Bytes) (s : Bytes) : validate (.enum names) s = true ↔ s ∈ names := by
  simp [validate]

/-- string length is counted in characters (runes), and must lie in the length set -/
theorem C16_string (lens : List (Int × Int)) (n : Nat) (s : Bytes) :
    validate (.str lens n) s = true ↔ inRanges lens (Int.ofNat (XL.decode s).length) = true := by
  simp [validate, utf8Len]

def asc (s : String) : Bytes := s.toList.map Char.toNat

/-- the float comparison cannot separate the upper 64-bit bound from its successor (fraction-digits 3):
    the witness of known finding C16-decimal64-float-ranges, on the model -/
theorem C16_dec64_float_witness :
    sfOfDecimalText (asc "9223372036854775.808") = sfOfDecimalText (asc "9223372036854775.807") := by decide

/-- … while the lexical / 64-bit check, done on scaled integers, does separate them -/
theorem C16_dec64_lex_witness :
    dec64LexOK 3 (asc "9223372036854775.807") = true ∧ dec64LexOK 3 (asc "9223372036854775.808") = false ∧
    dec64LexOK 3 (asc "9223372036854776") = false ∧ dec64LexOK 3 (asc "-9223372036854775.808") = true ∧
    dec64LexOK 3 (asc "-9223372036854775.809") = false ∧ dec64LexOK 3 (asc "1.2345") = false := by decide

/-- non-vacuity -/
example : validate (.int 8 [(-128, 127)]) (asc "+127") = true ∧ validate (.int 8 [(-128, 127)]) (asc "128") = false ∧
          validate (.uint 8 [(0, 255)]) (asc "+5") = true ∧ validate (.str [(1, 2)] 0) [0xC3, 0xA9, 0xC3, 0xA9] = true := by decide

end YV.C16
