/-
  C16 — type validation accepts exactly the YANG value space.  Headline theorems (one iff per type).

  integers / unsigned / strings / boolean / empty / enumeration: the model's `validate` is unfolded into the
  lexical condition, the exact width bounds and the range set.  decimal64: the lexical condition and the exact
  64-bit bounds are proved against scaled integers (`C16_dec64_lex`); the comparison with *ranges* is done by
  the code in binary64, which is adequate away from the 64-bit bounds and not near them (known finding
  C16-decimal64-float-ranges; witness `C16_dec64_float_witness`).  Patterns: a string is accepted iff its
  length fits and every pattern of every level matches the whole string, where "matches" is membership in the
  language of the expression (`C16_pattern`, `C16_pattern_lang`; the expressions are the regular fragment the
  generators use — RE2 itself is trusted on it).  identityref: the accepted values are exactly the identities
  whose chain of `base` statements leads up to the base (`C16_identityref`).  union: some member accepts
  (`C16_union`).  What a rejection carries: `C16_reject_num`, `C16_reject_str`.
-/
import YV.Spec.YTypesS
import YV.Proofs.YValues
import YV.Proofs.YDec
namespace YV.C16
open YV YV.Y YV.T YV.TS YV.V YV.VS

theorem C16_int (w : Nat) (rs : List (Int × Int)) (s : Bytes) :
    validate (.int w rs) s = true ↔
      ∃ v, parseSigned s = some v ∧ -(2 ^ (w - 1) : Int) ≤ v ∧ v ≤ 2 ^ (w - 1) - 1 ∧ inRanges rs v = true := by
  simp only [validate]
  cases h : parseSigned s with
  | none => simp
  | some v => simp [and_assoc]

theorem natOf_zeros : ∀ (r : Bytes) (a : Nat), r.all (· = 48) = true → r.foldl (fun a c => a * 10 + (c - 48)) a = a * 10 ^ r.length
  | [], a, _ => by simp
  | c :: r, a, h => by
    simp only [List.all_cons, Bool.and_eq_true, decide_eq_true_eq] at h
    simp only [List.foldl_cons, h.1, Nat.sub_self, Nat.add_zero, List.length_cons]
    rw [natOf_zeros r (a * 10) h.2, Nat.pow_succ, Nat.mul_assoc, Nat.mul_comm 10]

theorem foldl_ge : ∀ (r : Bytes) (a : Nat), a ≤ r.foldl (fun a c => a * 10 + (c - 48)) a
  | [], a => by simp
  | c :: r, a => by
    simp only [List.foldl_cons]
    exact Nat.le_trans (by omega) (foldl_ge r (a * 10 + (c - 48)))

/-- digits that denote zero are zeros -/
theorem natOf_eq_zero : ∀ (r : Bytes), r.all YC.isDig = true → natOf r = 0 → r.all (· = 48) = true
  | [], _, _ => rfl
  | c :: r, hd, h => by
    simp only [List.all_cons, Bool.and_eq_true] at hd
    simp only [natOf, List.foldl_cons, Nat.zero_mul, Nat.zero_add] at h
    have hge := foldl_ge r (c - 48)
    have hc : c - 48 = 0 := by omega
    have hc48 : c = 48 := by
      have := hd.1; simp only [YC.isDig, Bool.and_eq_true, decide_eq_true_eq] at this; omega
    rw [hc] at h
    simp only [List.all_cons, hc48, decide_true, Bool.true_and]
    exact natOf_eq_zero r hd.2 h

/-- **C16 (unsigned).** accepted iff the text is an integer — optional sign, digits — whose value lies in
    [0, 2^w − 1] and in the range set: "+5" and "-0" are such texts, "-1" is not -/
theorem C16_uint (w : Nat) (rs : List (Int × Int)) (s : Bytes) :
    validate (.uint w rs) s = true ↔
      ∃ v, parseSigned s = some v ∧ 0 ≤ v ∧ v ≤ 2 ^ w - 1 ∧ inRanges rs v = true := by
  simp only [validate]
  cases s with
  | nil => simp [uintDigits, parseSigned, allDigits]
  | cons c r =>
    by_cases h43 : c = 43
    · subst h43; simp only [uintDigits, parseSigned]
      by_cases h : allDigits r = true <;> simp [h]
    · by_cases h45 : c = 45
      · subst h45
        simp only [uintDigits, parseSigned]
        by_cases hz : (!r.isEmpty && r.all (· = 48)) = true
        · simp only [hz, ↓reduceIte]
          simp only [Bool.and_eq_true, Bool.not_eq_true', List.isEmpty_eq_false_iff] at hz
          have hd : allDigits r = true := by
            simp only [allDigits, Bool.and_eq_true, Bool.not_eq_true', List.isEmpty_eq_false_iff]
            refine ⟨hz.1, ?_⟩
            rw [List.all_eq_true] at hz ⊢
            intro x hx; have := hz.2 x hx; simp only [decide_eq_true_eq] at this; subst this; decide
          have h0 : natOf r = 0 := by
            have := natOf_zeros r 0 hz.2; simpa [natOf] using this
          simp [hd, h0]
        · have hnd : allDigits (45 :: r) = false := by simp [allDigits, YC.isDig]
          simp only [hz, Bool.false_eq_true, ↓reduceIte, hnd]
          simp only [false_iff, not_exists, not_and]
          intro v hv h0
          by_cases hd : allDigits r = true
          · simp only [hd, ↓reduceIte, Option.some.injEq] at hv
            subst hv
            have hn : natOf r = 0 := by
              simp only [Int.ofNat_eq_natCast] at h0; omega
            simp only [allDigits, Bool.and_eq_true, Bool.not_eq_true', List.isEmpty_eq_false_iff] at hd
            have := natOf_eq_zero r hd.2 hn
            simp [hd.1, this] at hz
          · simp [hd] at hv
      · have hu : uintDigits (c :: r) = c :: r := by
          unfold uintDigits; split <;> simp_all
        have hp : parseSigned (c :: r) = if allDigits (c :: r) then some (Int.ofNat (natOf (c :: r))) else none := by
          unfold parseSigned; split <;> simp_all
        rw [hu, hp]
        by_cases h : allDigits (c :: r) = true <;> simp [h]

theorem C16_bool (s : Bytes) : validate .bool s = true ↔ (s = msg "true" ∨ s = msg "false") := by
  simp [validate]

theorem C16_empty (s : Bytes) : validate .empty s = true ↔ s = [] := by
  simp [validate]

theorem C16_enum (names : List Bytes) (s : Bytes) : validate (.enum names) s = true ↔ s ∈ names := by
  simp [validate]

/-- string length is counted in characters (runes), and must lie in the length set -/
theorem C16_string (lens : List (Int × Int)) (n : Nat) (s : Bytes) :
    validate (.str lens n) s = true ↔ inRanges lens (Int.ofNat (XL.decode s).length) = true := by
  simp [validate, utf8Len]

def asc (s : String) : Bytes := s.toList.map Char.toNat

/-- the float comparison cannot separate the upper 64-bit bound from its successor (fraction-digits 3):
    the witness of known finding C16-decimal64-float-ranges, on the model -/
theorem C16_dec64_float_witness :
    sfOfDecimalText (asc "9223372036854775.808") = sfOfDecimalText (asc "9223372036854775.807") := by decide +kernel

/-- **C16 (decimal64, lexical form and 64-bit bounds).** For every fraction-digits 1..18 and every text: the check
    of `validateDecimal64String` (integer part and zero-padded fraction part against quotient and remainder of
    2^63-1 by 10^fd) passes iff the text is a decimal with at most fd fraction digits whose value, scaled by
    10^fd, lies in [-2^63, 2^63-1] -/
theorem C16_dec64_lex (fd : Nat) (h1 : 1 ≤ fd) (h2 : fd ≤ 18) (s : Bytes) :
    dec64LexOK fd s = true ↔ ∃ v, scaled fd s = some v ∧ -(2 ^ 63 : Int) ≤ v ∧ v ≤ 2 ^ 63 - 1 :=
  dec64LexOK_iff fd h1 h2 s

/-- … while the lexical / 64-bit check, done on scaled integers, does separate them -/
theorem C16_dec64_lex_witness :
    dec64LexOK 3 (asc "9223372036854775.807") = true ∧ dec64LexOK 3 (asc "9223372036854775.808") = false ∧
    dec64LexOK 3 (asc "9223372036854776") = false ∧ dec64LexOK 3 (asc "-9223372036854775.808") = true ∧
    dec64LexOK 3 (asc "-9223372036854775.809") = false ∧ dec64LexOK 3 (asc "1.2345") = false := by decide

/-- non-vacuity -/
example : validate (.int 8 [(-128, 127)]) (asc "+127") = true ∧ validate (.int 8 [(-128, 127)]) (asc "128") = false ∧
          validate (.uint 8 [(0, 255)]) (asc "+5") = true ∧ validate (.str [(1, 2)] 0) [0xC3, 0xA9, 0xC3, 0xA9] = true := by decide

/-! ### patterns, identityrefs, unions, error information (Model.YValues) -/

theorem firstFailing_none (s : List Nat) (pats : List (Re × EI)) :
    firstFailing s pats = none ↔ ∀ p ∈ pats, reMatch p.1 s = true := by
  induction pats with
  | nil => simp [firstFailing]
  | cons p r ih =>
    obtain ⟨re, ei⟩ := p
    simp only [firstFailing]
    by_cases h : reMatch re s = true <;> simp [h, ih]

theorem firstFailing_some (s : List Nat) (pats : List (Re × EI)) (ei : EI) :
    firstFailing s pats = some ei → ∃ re, (re, ei) ∈ pats ∧ reMatch re s = false := by
  induction pats with
  | nil => simp [firstFailing]
  | cons p r ih =>
    obtain ⟨re, e⟩ := p
    simp only [firstFailing]
    by_cases h : reMatch re s = true
    · simp only [h, if_true]; intro h2; obtain ⟨re', hm, hf⟩ := ih h2; exact ⟨re', by simp [hm], hf⟩
    · simp only [h]; intro h2; cases h2; exact ⟨re, by simp, by simpa using h⟩

/-- **C16 (strings with patterns).** accepted iff the length fits and every pattern of every level of the
    typedef chain matches the whole string (implicit anchoring) -/
theorem C16_pattern (t : Ty) (len : EI) (pats : List (Re × EI)) (s : Bytes) :
    check (.str t len pats) s = none ↔
      validate t s = true ∧ ∀ p ∈ pats, reMatch p.1 ((XL.decode s).map (·.cp)) = true := by
  simp only [check]
  by_cases hv : validate t s = true
  · simp only [hv, Bool.not_true, Bool.false_eq_true, if_false, true_and]
    rw [← firstFailing_none]
    cases firstFailing ((XL.decode s).map (·.cp)) pats <;> simp
  · simp [hv]

/-- … and "matches" is membership in the language the expression denotes -/
theorem C16_pattern_lang (r : Re) (s : List Nat) : reMatch r s = true ↔ Lang r s := reMatch_iff r s

/-- **C16 (identityref).** with the compiler's fuel (the number of identities) or any other: the values
    accepted are the renderings of exactly the identities derived, at any depth, from the base -/
theorem C16_identityref (ids : List Ident) (lm : Bytes) (f : Nat) (b : Bytes × Bytes) (s : Bytes) :
    check (.ident (identVals ids lm f b)) s = none ↔ ∃ i ∈ ids, render lm i = s ∧ up ids f i b = true := by
  simp only [check]
  rw [← mem_identVals_iff]
  by_cases h : s ∈ identVals ids lm f b <;> simp [h]

theorem anyAccepts_iff (ms : List VT) (s : Bytes) : anyAccepts ms s = true ↔ ∃ m ∈ ms, check m s = none := by
  induction ms with
  | nil => simp [anyAccepts]
  | cons m r ih => simp [anyAccepts, ih, Option.isNone_iff_eq_none]

/-- **C16 (union).** a union accepts iff some member accepts -/
theorem C16_union (ms : List VT) (s : Bytes) : check (.union ms) s = none ↔ ∃ m ∈ ms, check m s = none := by
  simp only [check]
  rw [← anyAccepts_iff]
  by_cases h : anyAccepts ms s = true <;> simp [h]

/-- **C16 (what a rejection carries, numbers).** the custom message of the effective range statement when
    it defines one, its app-tag or the default "range-violation" -/
theorem C16_reject_num (t : Ty) (ei : EI) (s : Bytes) (r : Rej) :
    check (.num t ei) s = some r → validate t s = false ∧ r.msg = ei.msg ∧ r.tag = ei.tag.getD "range-violation" := by
  simp only [check]
  by_cases hv : validate t s = true
  · simp [hv]
  · have hf : validate t s = false := by simpa using hv
    simp only [hf]; intro h; cases h; simp

/-- **C16 (what a rejection carries, strings).** either the length is violated and the error is the length
    statement's, or some pattern does not match and the error is that pattern's -/
theorem C16_reject_str (t : Ty) (len : EI) (pats : List (Re × EI)) (s : Bytes) (r : Rej) :
    check (.str t len pats) s = some r →
      (validate t s = false ∧ r.msg = len.msg ∧ r.tag = len.tag.getD "length-violation") ∨
      (validate t s = true ∧ ∃ re ei, (re, ei) ∈ pats ∧ reMatch re ((XL.decode s).map (·.cp)) = false ∧
        r.msg = ei.msg ∧ r.tag = ei.tag.getD "pattern-violation") := by
  simp only [check]
  by_cases hv : validate t s = true
  · simp only [hv, Bool.not_true, Bool.false_eq_true, if_false]
    cases hf : firstFailing ((XL.decode s).map (·.cp)) pats with
    | none => simp
    | some ei =>
      intro h; cases h
      obtain ⟨re, hm, hn⟩ := firstFailing_some _ _ _ hf
      exact .inr ⟨by simp, re, ei, hm, hn, rfl, rfl⟩
  · have hf : validate t s = false := by simpa using hv
    simp only [hf]; intro h; cases h; simp

/-! non-vacuity: the anchoring matters — `a|b` accepts "a" and "b" and not "ab" -/
example : reMatch (.alt (.chr 97) (.chr 98)) [97] = true ∧ reMatch (.alt (.chr 97) (.chr 98)) [97, 98] = false := by decide
example : let ids : List Ident := [⟨[1], [10], none⟩, ⟨[1], [11], some ([1], [10])⟩, ⟨[2], [12], some ([1], [11])⟩]
    identVals ids [1] 3 ([1], [10]) = [[11], [2, 58, 12]] := by decide

end YV.C16
