/-
  C09 — statement grammar: cardinality, ordering and argument syntax are enforced.  Headline theorems.

  * `C09_tables_are_source`: the cardinality table, keyword table, NodeType order, argument-kind switch,
    range predicates and checkModule case lists the model uses are those of /repo (regenerated every run).
  * `C09_table_is_rfc`: every cell of the code's table for an RFC 6020 statement is the cell of the RFC's
    substatement tables (Spec.YRfc, written from the RFC), and every RFC cell is present — up to the listed
    slack cells (uses/augment, uses/refine, list/key, deviation/deviate).
  * `C09_keywords`: exactly the RFC 6020 keywords map to a node type of their own.
  * `C09_check`: the cardinality checker accepts iff every table cell is respected and every child is permitted.
  * `C09_order`, `C09_revs`: section order = non-decreasing sections; revisions = valid calendar dates,
    strictly descending.
  * `C09_range_arg`, `C09_length_arg`: the range / length check of the model accepts exactly the texts of the ABNF
    scanner of Spec.YRange (proved for every text in Proofs.YRangeLex), with the keywords on their sides.
  The other argument lexers: after the repairs the code implements the RFC ABNF rules directly; the model's `argOK`
  is that ABNF (model = spec by definition) and is tied to the code by the exhaustive/edited probe stream.
  Vendor vocabularies (configd:*, opd:*) are modelled as they are and excluded from the RFC comparison.
-/
import YV.Model.YCheck
import YV.Proofs.YRangeLex
import YV.Spec.YRfc
import YV.Gen.Parse
import YV.Gen.Status
namespace YV.C09
open YV YV.Y YV.YC

theorem C09_gen_complete : Gen.extractionFailures = [] := by decide

theorem C09_tables_are_source :
    Gen.nodeTypes = YT.nodeTypes ∧ Gen.nodeNames = YT.nodeNames ∧ Gen.cardinalities = YT.cardinalities ∧
    Gen.argKinds = YT.argKinds ∧ Gen.rangePreds = YT.rangePreds ∧ Gen.moduleSections = YT.moduleSections := by
  decide +kernel

/-- keyword of a node-type constant; the four deviate variants are one RFC keyword -/
def kwOfConst (c : String) : String :=
  if c ∈ ["NodeDeviateAdd", "NodeDeviateDelete", "NodeDeviateReplace", "NodeDeviateNotSupported", "NodeDeviate"] then "deviate"
  else (YT.nodeNames.lookup c).getD ""

def rowConforms (pkw : String) (codeRow : List (String × String × String)) (specRow : List (String × String)) : Bool :=
  (codeRow.all fun (c, s, e) =>
      let kw := kwOfConst c
      !(YR.keywords.contains kw) || (YR.admitted pkw kw).contains (s ++ e)) &&
  (specRow.all fun (kw, _) => codeRow.any fun (c, _, _) => kwOfConst c = kw)

def tableConforms : Bool :=
  YR.table.all fun (pkw, specRow) =>
    match YT.nodeNames.find? (fun p => p.2 = pkw) with
    | some (pc, _) => rowConforms pkw ((YT.cardinalities.lookup pc).getD []) specRow
    | none => false

theorem C09_table_is_rfc : tableConforms = true := by decide +kernel

/-- every RFC keyword has a node type, and no other unprefixed keyword has (apart from the internal names
    the check rejects: "unknown", "deviate-*" and the range markers containing blanks) -/
def keywordsConform : Bool :=
  YR.keywords.all (fun kw => YT.nodeNames.any fun p => p.2 = kw) &&
  YT.nodeNames.all fun (_, kw) =>
    YR.keywords.contains kw || kw.toList.contains ':' || kw.toList.contains ' ' || kw = "unknown" ||
      "deviate-".toList.isPrefixOf kw.toList

theorem C09_keywords : keywordsConform = true := by decide +kernel

/-- what the table demands of the children of a statement of type `t`: every cell respected (a minimum of
    one is met, a maximum of one is not exceeded) and every child permitted (extension statements always are,
    those the package knows by name included), and a deviation has a deviate statement of some kind -/
def SubstmtsOk (t : String) (kids : List String) : Prop :=
  (∀ c s e, (c, s, e) ∈ (YT.cardinalities.lookup t).getD [] →
      (s = "1" → ¬ count kids c = 0) ∧ (e = "1" → count kids c ≤ 1)) ∧
  (∀ c ∈ kids, (c = "NodeUnknown" ∨ c = "NodeDataDef" ∨ isPrefixedType c = true) ∨
      ∃ s e, (c, s, e) ∈ (YT.cardinalities.lookup t).getD []) ∧
  (t = "NodeDeviation" → ∃ c ∈ kids, isDeviateNode c = true)

theorem C09_check (t : String) (kids : List String)
    (ht : ¬ (t = "NodeUnknown" ∨ t = "NodeRefine" ∨ isDeviateNode t = true)) :
    cardOK t kids = true ↔ SubstmtsOk t kids := by
  have h1 : (t = "NodeUnknown" || t = "NodeRefine" || isDeviateNode t) = false := by
    simp only [not_or] at ht
    simp [ht.1, ht.2.1, ht.2.2]
  simp only [cardOK, h1, Bool.false_eq_true, ↓reduceIte, Bool.and_eq_true, List.all_eq_true, SubstmtsOk]
  constructor
  · rintro ⟨⟨ha, hb⟩, hd⟩
    refine ⟨fun c s e hc => ?_, fun c hc => ?_, fun htd => ?_⟩
    · have := ha (c, s, e) hc
      simp at this
      exact ⟨fun h => this.1.resolve_left (fun n => n h), fun h => this.2.resolve_left (fun n => n h)⟩
    · have := hb c hc
      simpa [or_assoc] using this
    · simpa [htd] using hd
  · rintro ⟨ha, hb, hd⟩
    refine ⟨⟨fun cell hc => ?_, fun c hc => ?_⟩, ?_⟩
    · obtain ⟨c, s, e⟩ := cell
      have := ha c s e hc
      simp
      exact ⟨Classical.or_iff_not_imp_left.mpr (fun h => this.1 (Classical.not_not.mp h)),
             Classical.or_iff_not_imp_left.mpr (fun h => this.2 (Classical.not_not.mp h))⟩
    · have := hb c hc
      simpa [or_assoc] using this
    · by_cases htd : t = "NodeDeviation"
      · simpa [htd] using hd htd
      · simp [htd]

/-- sections in order: header ≤ linkage ≤ meta ≤ revision ≤ body along the substatements (extensions ignored) -/
def InOrder : Nat → List Nat → Prop
  | _, [] => True
  | p, s :: r => p ≤ s ∧ InOrder s r

def sectionsOf (kids : List String) : List Nat := (kids.map sectionOf).filter (· ≠ 9)

theorem sectionsOK_iff (prev : Nat) (kids : List String) :
    sectionsOK prev kids = true ↔ InOrder prev (sectionsOf kids) := by
  induction kids generalizing prev with
  | nil => simp [sectionsOK, sectionsOf, InOrder]
  | cons c r ih =>
    simp only [sectionsOK, sectionsOf, List.map_cons]
    by_cases h9 : sectionOf c = 9
    · simp only [h9, ↓reduceIte]
      rw [ih]
      simp [sectionsOf, List.filter]
    · simp only [h9, ↓reduceIte, List.filter, ne_eq, not_false_eq_true, decide_true]
      by_cases h0 : sectionOf c = 0
      · simp only [h0, ↓reduceIte, Bool.and_eq_true, decide_eq_true_eq, InOrder]
        rw [ih]
        constructor
        · rintro ⟨hp, hr⟩; subst hp; exact ⟨Nat.le_refl _, hr⟩
        · rintro ⟨hp, hr⟩
          have : prev = 0 := by omega
          subst this; exact ⟨rfl, hr⟩
      · simp only [h0, ↓reduceIte, Bool.and_eq_true, decide_eq_true_eq, InOrder]
        rw [ih]
        rfl

theorem C09_order (kids : List String) : sectionsOK 0 kids = true ↔ InOrder 0 (sectionsOf kids) :=
  sectionsOK_iff 0 kids

/-- revision dates: each a calendar date, each strictly earlier than the one before -/
def Descending : Option Nat → List Bytes → Prop
  | _, [] => True
  | p, d :: r => calendarOK d = true ∧ (∀ q, p = some q → dateKey d < q) ∧ Descending (some (dateKey d)) r

theorem C09_revs (prev : Option Nat) (ds : List Bytes) : revisionsOK prev ds = true ↔ Descending prev ds := by
  induction ds generalizing prev with
  | nil => simp [revisionsOK, Descending]
  | cons d r ih =>
    simp only [revisionsOK, Bool.and_eq_true, Descending, ih]
    cases prev with
    | none => simp
    | some p => simp [and_assoc]

/-- **C09 (range arguments).** The range check of the model (parse/arg.go: split at "|", split at "..", trim optsep off
    every boundary — white space inside a boundary stays and makes it invalid) accepts exactly the texts of the RFC 6020
    ABNF read as a scanner (`Spec.YRange`: optsep around "|" and ".." and nowhere else), with `min` only before and `max`
    only after "..".  For every text. -/
theorem C09_range_arg (s : Bytes) : argOK "RangeArg" s = (YS.rangeArgOK s && sidesOK s) := by
  show rangeLikeOK numBoundaryOK s = _
  rw [rangeLikeOK_eq numBoundaryOK numBoundaryOK_min numBoundaryOK_max, rangeArgOK_eq]

/-- **C09 (length arguments).** the same for lengths: boundaries are non-negative integers below 2^64 -/
theorem C09_length_arg (s : Bytes) : argOK "LengthArg" s = (YS.lengthArgOK s && sidesOK s) := by
  show rangeLikeOK _ s = _
  rw [rangeLikeOK_eq _ (by rw [msg_min]; decide) (by rw [msg_max]; decide), lengthArgOK_eq]
  rfl

/-! non-vacuity: blanks around the separators are optsep, blanks inside a number are not -/
example : YS.rangeArgOK (msg "1 .. 5 | 7") = true ∧ YS.rangeArgOK (msg "1 0..20") = false ∧
          YS.rangeArgOK (msg "1.5..2.5") = true ∧ YS.rangeArgOK (msg "m in..5") = false ∧
          YS.lengthArgOK (msg "0..18446744073709551615") = true ∧ YS.lengthArgOK (msg "18446744073709551616") = false := by
  decide +kernel

/-- non-vacuity -/
example : sectionsOK 0 ["NodeNamespace", "NodePrefix", "NodeImport", "NodeDescription", "NodeRevision", "NodeLeaf"] = true := by decide
example : sectionsOK 0 ["NodeNamespace", "NodeLeaf", "NodeImport"] = false := by decide
example : cardOK "NodeLeaf" ["NodeTyp", "NodeDescription"] = true ∧ cardOK "NodeLeaf" ["NodeDescription"] = false ∧
          cardOK "NodeLeaf" ["NodeTyp", "NodeTyp"] = false ∧ cardOK "NodeLeaf" ["NodeTyp", "NodeKey"] = false := by decide +kernel
example : cardOK "NodeLeaf" ["NodeTyp", "NodeConfigdHelp", "NodeOpdCommand"] = true ∧
          cardOK "NodeDeviation" ["NodeDescription"] = false ∧ cardOK "NodeDeviation" ["NodeDeviateAdd", "NodeDeviateAdd"] = true := by
  decide +kernel

end YV.C09
