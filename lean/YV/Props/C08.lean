/-
  C08 — YANG string arguments are decoded as RFC 6020 §6.1.3 prescribes.  Headline theorems.

  Full statement: for every value v, every quoting q of v (unquoted, single, double, '+'-concatenations)
  and every layout ℓ:  Model.argumentOf (spell q ℓ v) = v.
  Proved: the three ingredients the decoder is built from —
    * `C08_escape`: the code's Split-on-backslash substitution is the left-to-right scan of the defined
      escapes, for every text (no `\r` pair; RFC 6020 does not define it);
    * `C08_roundtrip_single_line`: escaping a value and decoding it returns the value, for every value and
      every quote column (single-line source form), and single-quoted / unquoted text is verbatim;
    * `C08_indent`: the code's column stripping (tabs = 8 columns, a tab across the column leaves blanks)
      equals the specification's, for every line and every quote column ≥ 1.
    * `C08_layout`: for every double-quoted text without a backslash — any number of lines, LF or CRLF,
      blank lines, blanks and tabs before and behind the text of a line, any quote column ≥ 1 — the code's
      decoder (`trimWhitespace`: per-line loop with its index bookkeeping, CR handling and empty-line cases)
      yields exactly what the specification reads off the source (trailing blanks before a line break and
      the indentation of continuation lines up to the quote column removed, a tab counting eight).
    * `C08_layout_with_escapes`: the same for texts that contain the escapes \" and \\ anywhere (every
      backslash starts one of the two pairs): substituting first and laying out afterwards — what the code
      does — equals laying out first and substituting afterwards — what the specification says; the two
      do not interfere because neither pair contains a blank, a tab, CR or LF.
  Not proved: texts with \n / \t escapes next to line breaks (the RFC leaves their order open) — held by stream yarg
  (value × quoting × layout triples on the real parser, compared with model and with `Spec.decodeArg`).
  The order of trimming and substitution is not fixed by RFC 6020: texts with \n/\t escapes next to real or
  escaped line breaks are compared implementation-vs-model only (Spec.orderSensitive), and so are texts with
  the pair \r (substituted by the code, not an escape of RFC 6020); every other backslash pair stays as it is,
  in the specification as in the code.
-/
import YV.Proofs.YArg
import YV.Proofs.YLayout
import YV.Proofs.YLayoutEsc
namespace YV.C08
open YV YV.Y YV.YS

theorem C08_escape (s : Bytes) (h : hasEscape [114] s = false) : escapeSubst s = unescape s :=
  escapeSubst_eq_unescape s h

theorem C08_indent (col : Nat) (hc : col ≥ 1) (line : Bytes) :
    trimLeadWS col 0 line = stripColumns col 0 line :=
  trimLeadWS_eq col hc line 0 (by omega)

/-- **C08 (layout).** -/
theorem C08_layout (col : Nat) (hc : col ≥ 1) (raw : Bytes) (h92 : ∀ x ∈ raw, x ≠ 92) :
    trimWhitespace col raw = decodeDQ col raw := trimWhitespace_eq_decodeDQ col hc raw h92

/-- **C08 (layout with escapes).** -/
theorem C08_layout_with_escapes (col : Nat) (hc : col ≥ 1) (raw : Bytes) (hs : safe raw = true) :
    trimWhitespace col raw = decodeDQ col raw := trimWhitespace_eq_decodeDQ_safe col hc raw hs

/-- non-vacuity: say \"hi\" <LF> <blanks> c:\\dir -/
example : safe [115, 97, 121, 32, 92, 34, 104, 105, 92, 34, 32, 10, 32, 32, 32, 99, 58, 92, 92, 100, 105, 114] = true := by decide

/-- non-vacuity: a three-line text, CRLF and LF, a tab across the quote column, trailing blanks, a blank line -/
example : decodeDQ 4 [97, 32, 32, 13, 10, 32, 32, 9, 98, 32, 10, 10, 32, 32, 32, 32, 32, 99] =
    [97, 13, 10, 32, 32, 32, 32, 32, 32, 98, 10, 10, 32, 99] := by decide

theorem splitLF_go_no10 (s cur : Bytes) (acc : List Bytes) (h : ∀ x ∈ s, x ≠ 10) :
    splitLF.go cur acc s = (acc.reverse ++ [cur.reverse ++ s]) := by
  induction s generalizing cur with
  | nil => simp [splitLF.go]
  | cons c r ih =>
    have hc : c ≠ 10 := h c (by simp)
    simp only [splitLF.go, hc, ↓reduceIte]
    rw [ih _ (fun x hx => h x (by simp [hx]))]
    simp

theorem decodeDQ_single_line (col : Nat) (raw : Bytes) (h : ∀ x ∈ raw, x ≠ 10) : decodeDQ col raw = unescape raw := by
  have hs : splitLF raw = [raw] := by
    simpa [splitLF] using splitLF_go_no10 raw [] [] h
  simp [decodeDQ, rawLines, hs]

theorem escapeStr_no10 (v : Bytes) : ∀ x ∈ escapeStr true v, x ≠ 10 := by
  induction v with
  | nil => simp [escapeStr]
  | cons c r ih =>
    intro x hx
    simp only [escapeStr, Bool.true_and, decide_eq_true_eq] at hx
    split at hx
    · simp only [List.mem_cons] at hx; rcases hx with h | h | h
      · omega
      · omega
      · exact ih x h
    · split at hx
      · simp only [List.mem_cons] at hx; rcases hx with h | h | h
        · omega
        · omega
        · exact ih x h
      · split at hx
        · simp only [List.mem_cons] at hx; rcases hx with h | h | h
          · omega
          · omega
          · exact ih x h
        · split at hx
          · simp only [List.mem_cons] at hx; rcases hx with h | h | h
            · omega
            · omega
            · exact ih x h
          · simp only [List.mem_cons] at hx; rcases hx with h | h
            · omega
            · exact ih x h

/-- all three source forms of a value decode to the value (double-quoted: written on one source line with
    `"`, `\`, line feed and tab escaped; any column) -/
theorem C08_roundtrip_single_line (v : Bytes) (col : Nat) :
    decodePiece (.double col (escapeStr true v)) = v ∧ decodePiece (.single v) = v ∧ decodePiece (.unquoted v) = v := by
  refine ⟨?_, rfl, rfl⟩
  simp only [decodePiece]
  rw [decodeDQ_single_line _ _ (escapeStr_no10 v), unescape_escapeStr]

/-- pieces joined by '+' concatenate -/
theorem C08_concat (ps qs : List Piece) : decodeArg (ps ++ qs) = decodeArg ps ++ decodeArg qs := by
  simp [decodeArg]

/-- non-vacuity: a value with every special character -/
example : decodePiece (.double 7 (escapeStr true [97, 34, 92, 10, 9, 32, 47, 47])) = [97, 34, 92, 10, 9, 32, 47, 47] :=
  (C08_roundtrip_single_line _ 7).1

end YV.C08
