/-
  Props.C14 — config, status, if-feature and deviations shape the tree as specified.
-/
import YV.Proofs.YCfg
import YV.Proofs.YDev
namespace YV.Props.C14
open YV YV.Y YV.SC YV.C YV.CS

/-- **C14 (config false and status are inherited).** Whatever the module body, the features, the filter:
    in every tree the compiler builds, a node below a `config false` node is `config false`, and the status
    of a node is never better than its parent's.  (`config true` beneath `config false` and a status that
    overrides the parent's are the two errors `getConfig` / `getStatus` raise — `C14_config_true_rejected`.) -/
theorem C14_shape (f : Attr → Bool) (env : FeatEnv) (top : List A) (cs : List CN) (h : compile f env top = .ok cs) :
    wellShapedKids true 0 cs = true := by
  unfold compile at h
  cases hk : buildKids f env {} top with
  | error e => simp [hk] at h
  | ok ks =>
    simp only [hk, ebind_ok] at h
    cases hn : checkNames (flatNames ks) with
    | error e => simp [hn] at h
    | ok u =>
      simp only [hn, ebind_ok, epure, Except.ok.injEq] at h
      subst h
      exact buildKids_shape f env top {} ks hk

theorem C14_config_true_rejected (m : Meta) (h : m.cfg = some true) :
    getConfig m false = .error "config true node can't have a config false parent" := by
  simp [getConfig, h]

theorem C14_status_override_rejected (m : Meta) (s inh : Nat) (h : m.st = some s) (hlt : s < inh) :
    getStatus m inh = .error "Cannot override status of parent" := by
  simp [getStatus, h, hlt]

/-- **C14 (presence).** A node that is not deviated not-supported is built iff every one of its
    if-feature statements names a feature in force (when the checks raise no error) -/
theorem C14_presence (env : FeatEnv) (m : Meta) (pst : Nat) (b : Bool) (hns : m.notSupported = false)
    (h : ignoredM env m pst = .ok b) : b = false ↔ ∀ f ∈ m.iff, env.enabled.contains f = true := by
  simp only [ignoredM, hns, Bool.false_eq_true, if_false] at h
  rw [iffLoop_ok env m pst m.iff b h]
  simp

theorem C14_not_supported (env : FeatEnv) (m : Meta) (pst : Nat) (hns : m.notSupported = true) :
    ignoredM env m pst = .ok true := by
  simp [ignoredM, hns]

/-- **C14 (features, transitively).** A feature is in force iff it is enabled and every feature reachable
    from it through if-feature statements is enabled (`fuel` = the number of declared features + 1 in
    `checkFeatures`: enough for every acyclic dependency graph) -/
theorem C14_feature_in_force (decls : List FeatDecl) (raw : List Tok) (fuel : Nat) (path : List Tok) (d : FeatDecl) (b : Bool)
    (hd : findDecl decls d.key = some d) (h : featValid decls raw (fuel + 1) path d = .ok b) :
    b = inForce decls raw fuel d.key := featValid_inForce decls raw fuel path d b hd h

/-- a genuine cycle is an error; (after the repair) a diamond is not -/
example : let ds : List FeatDecl := [⟨[1], [[2]], 0⟩, ⟨[2], [[1]], 0⟩]
    featValid ds [[1], [2]] 3 [] ⟨[1], [[2]], 0⟩ = .error "Feature cyclic reference" := by
  simp [featValid, featValid.loop, findDecl, modOf]
example : let ds : List FeatDecl := [⟨[1], [[2], [3]], 0⟩, ⟨[2], [[4]], 0⟩, ⟨[3], [[4]], 0⟩, ⟨[4], [], 0⟩]
    featValid ds [[1], [2], [3], [4]] 5 [] ⟨[1], [[2], [3]], 0⟩ = .ok true := by
  simp [featValid, featValid.loop, findDecl, modOf]

/-- **C14 (deviations).** On the statement tree, the four deviate processors do what the edit of the
    source does, and refuse exactly what the edit cannot do (node level) -/
theorem C14_deviate_node (d : Dev) (a : A) (hk : d.kind ≠ .notSupported) :
    (∀ a', devNode d a = .ok a' ↔ editNode d a = some (some a')) := by
  intro a'
  cases hkind : d.kind with
  | notSupported => exact absurd hkind hk
  | add =>
    simp only [devNode, editNode, hkind]
    by_cases h1 : applicable a d.prop = true <;> by_cases h2 : (getProp a d.prop).isSome = true <;>
      simp_all [Option.isNone_iff_eq_none, Option.isSome_iff_ne_none]
  | replace =>
    simp only [devNode, editNode, hkind]
    by_cases h2 : (getProp a d.prop).isSome = true <;> simp_all [Option.isNone_iff_eq_none, Option.isSome_iff_ne_none]
  | delete =>
    simp only [devNode, editNode, hkind]
    by_cases h1 : d.prop = .dflt <;> by_cases h2 : getProp a d.prop = some d.val <;> simp_all

/-- `deviate not-supported` is carried out (the node is marked, and `C14_not_supported` removes it) iff it is the
    only deviate statement of its deviation; next to other deviate statements it is refused -/
theorem C14_deviate_not_supported (d : Dev) (a : A) (hk : d.kind = .notSupported) :
    ((∃ a', devNode d a = .ok a') ↔ editNode d a = some none) ∧
    (d.alone = false → devNode d a = .error "No other deviate statements allowed with not-supported") := by
  simp only [devNode, editNode, hk]
  cases d.alone <;> simp [pure, Except.pure]

/-- **C14 (deviations = edits of the source).** For any list of deviate add / replace / delete statements — any
    targets, at any depth, through choices and cases, in the order written — compiling the module with the
    deviations is compiling the module whose source was edited accordingly; and when the RFC forbids one of them
    (the edit does not exist) the module is refused. -/
theorem C14_deviations_are_edits (decls : List FeatDecl) (raw : List Tok) (lm : Tok) (top : List A) (devs : List Dev)
    (h : ∀ d ∈ devs, d.kind ≠ .notSupported) :
    (∀ t, editAll top devs = some t → compileCfg decls raw lm top devs = compileCfg decls raw lm t []) ∧
    (editAll top devs = none → ∀ cs, compileCfg decls raw lm top devs ≠ .ok cs) := by
  constructor
  · intro t ht
    have h1 := (applyDevs_iff devs h top t).mpr ht
    simp only [compileCfg, h1, applyDevs]
    rfl
  · intro hn cs hc
    simp only [compileCfg] at hc
    cases hv : verifyFeatures decls raw lm with
    | error e => simp [hv, bind, Except.bind] at hc
    | ok env =>
      cases ha : applyDevs top devs with
      | error e => simp [hv, ha, bind, Except.bind] at hc
      | ok t => rw [(applyDevs_iff devs h top t).mp ha] at hn; cases hn

/-- **C14 (not-supported = the node is gone).** Marking the target (which is what the processor does) and
    building gives the schema of the body with the target deleted, for every filter and feature set, wherever
    the target is. -/
theorem C14_not_supported_is_removal (d : Dev) (hk : d.kind = .notSupported) (ha : d.alone = true) (top t' : List A)
    (h : devKids d d.path top = .ok t') :
    ∃ t'', editKids d d.path top = some t'' ∧ ∀ f env, compile f env t' = compile f env t'' :=
  notSupported_compile d hk ha top t' h

/-- non-vacuity: `deviate replace { default }` on a leaf inside a case inside a choice inside a container -/
example : editAll [.container [1] {} false [.choice [2] {} false none [.case [3] {} [.leaf [4] {} false (some [7])]]]]
    [{ path := [[1], [2], [3], [4]], kind := .replace, prop := .dflt, val := [8] }] =
    some [.container [1] {} false [.choice [2] {} false none [.case [3] {} [.leaf [4] {} false (some [8])]]]] := by
  simp [editAll, editKids, editInto, editNode, A.name, getProp, setProp]

end YV.Props.C14
