/-
  Props.C19 — encoders and decoders round-trip; decoding is total.

  Proved at the level of JSON values (bytes ↔ values is encoding/json's and danos/rfc7951's job): for every
  schema, every well-formed data tree and both JSON encodings, decoding what the writer produces gives the
  tree back — names, values, order of entries and values — hence both JSON encodings decode to the same
  tree; and the reader never changes a scalar: what it hands to the type is the string, the literal of the
  number, true/false, or "" for null.  The same at the level of XML elements (`C19_xml_roundtrip`: one element
  per list entry and per leaf-list value, the reader gathers the elements of one name in document order —
  every tree whose sibling names differ and whose lists / leaf-lists are not empty comes back, for any
  nesting depth, with the fuel the depth asks for), hence all three encodings decode to the same tree
  (`C19_three_encodings_agree`).  The bytes layers and totality on arbitrary bytes are compared / fuzzed by
  the correspondence streams.
-/
import YV.Proofs.YEnc
import YV.Proofs.YEncX
import YV.Proofs.YEncE
namespace YV.Props.C19
open YV YV.Y YV.SC YV.D YV.E

variable {τ : Type}

/-- **C19 (round trip, JSON and RFC 7951).** -/
theorem C19_json_roundtrip (kind : τ → VK) (rfc : Bool) (mo : List Tok → Tok) (hm : ∀ p, (mo p).contains 58 = false)
    (top : List (SN τ)) (rn : Tok) (ks : List DN) (hwf : wfKids kind top ks = true) :
    fromJ top (toJ kind rfc mo top (.mk rn ks [])) = some (.mk [] ks []) := by
  simp only [toJ, fromJ, DN.kids, dec_enc_kids kind rfc mo hm top [] [] ks hwf, Option.map_some]

/-- the two JSON encodings of a tree decode to the same tree -/
theorem C19_encodings_agree (kind : τ → VK) (mo : List Tok → Tok) (hm : ∀ p, (mo p).contains 58 = false)
    (top : List (SN τ)) (root : DN) (hv : root.vals = []) (hwf : wfKids kind top root.kids = true) :
    fromJ top (toJ kind true mo top root) = fromJ top (toJ kind false mo top root) := by
  cases root with
  | mk rn ks vs =>
    simp only [DN.vals] at hv; subst hv
    rw [C19_json_roundtrip kind true mo hm top rn ks hwf, C19_json_roundtrip kind false mo hm top rn ks hwf]

/-- **C19 (a scalar is never altered by the reader).** whatever the document holds for a leaf, the value
    handed to the leaf's type is that very string / number literal / boolean word (or "" for null): a value
    the type rejects cannot turn into one it accepts on the way -/
theorem C19_scalar_unaltered (j : J) (v : Bytes) (h : decodeValue j = some v) :
    j = .str v ∨ j = .num v ∨ (∃ b, j = .bool b ∧ v = lit b) ∨ (j = .null ∧ v = []) := by
  cases j <;> simp [decodeValue] at h
  · exact .inl (by rw [h])
  · exact .inr (.inl (by rw [h]))
  · exact .inr (.inr (.inl ⟨_, rfl, h.symm⟩))
  · exact .inr (.inr (.inr ⟨rfl, h⟩))

/-- a 64-bit number travels as a string in RFC 7951 and as a number literal in plain JSON; either way it
    comes back digit for digit (before the repair the reader went through a float64) -/
theorem C19_int64_exact (rfc : Bool) (v : Bytes) : decodeValue (writeValue rfc .num64 v) = some v := by
  cases rfc <;> simp [writeValue, decodeValue]

/-- **C19 (round trip, XML).** -/
theorem C19_xml_roundtrip (top : List (SN τ)) (rn : Tok) (ks : List DN) (hwf : xwfKids top ks)
    (fuel : Nat) (hf : dDepthL ks < fuel) :
    fromX top fuel (toX top (.mk rn ks [])) = some (.mk rn ks []) := by
  cases fuel with
  | zero => omega
  | succ f =>
    have hall := xdec_all top ks hwf f (by omega) (xencKids top ks)
      (fun e he => by rw [xencKids_flatMap]; exact gather_blocks _ _ (blocks_of_wf top ks hwf) e he)
    simp only [toX, fromX, DN.kids, DN.name, xdec_whole top ks f hwf hall, Option.map_some]

/-- **C19 (round trip, XML, lists and leaf-lists without entries).** The decoders return a list or leaf-list node without
    entries for `"l": []`; the JSON writers write it back as an empty array (`C19_json_roundtrip` covers such trees), the
    XML writer has no element to write for it.  For every schema and every tree that is well-formed but for such nodes,
    at any depth, the XML encoding decodes to the tree without them (`dropEmpty`): nothing else is lost or changed. -/
theorem C19_xml_roundtrip_modulo_empty (top : List (SN τ)) (rn : Tok) (ks : List DN) (hwf : xwfKids0 top ks)
    (fuel : Nat) (hf : dDepthL ks < fuel) :
    fromX top fuel (toX top (.mk rn ks [])) = some (.mk rn (dropEmpty top ks) []) :=
  xml_roundtrip_dropEmpty top rn ks hwf fuel hf

/-- a tree without such nodes is left as it is -/
theorem C19_dropEmpty_writes_the_same (top : List (SN τ)) (ks : List DN) :
    xencKids top (dropEmpty top ks) = xencKids top ks := xencKids_dropEmpty top ks

/-! non-vacuity: container c { leaf-list ll; leaf x; } with ll present and empty, x = "v" -/
def exTop : List (SN Unit) := [.container [99] false [.leafList [108] () 0 none, .leaf [120] () none false]]
def exKs : List DN := [.mk [99] [.mk [108] [] [], .mk [120] [] [[118]]] []]
example : xwfKids0 exTop exKs := by
  unfold exTop exKs
  rw [xwfKids0.eq_def]
  simp only [lookup, dataKids, SN.name, DN.name]
  refine ⟨by simp, ⟨rfl, ?_⟩, by rw [xwfKids0.eq_def]; trivial⟩
  rw [xwfKids0.eq_def]
  simp only [lookup, dataKids, SN.name, DN.name]
  refine ⟨by simp [DN.name], by simp, ?_⟩
  rw [xwfKids0.eq_def]
  simp only [lookup, dataKids, SN.name, DN.name]
  refine ⟨by simp, by simp, by rw [xwfKids0.eq_def]; trivial⟩

/-- all three encodings of a tree decode to the same children, in the same order -/
theorem C19_three_encodings_agree (kind : τ → VK) (mo : List Tok → Tok) (hm : ∀ p, (mo p).contains 58 = false)
    (top : List (SN τ)) (rn : Tok) (ks : List DN) (hj : wfKids kind top ks = true) (hx : xwfKids top ks)
    (fuel : Nat) (hf : dDepthL ks < fuel) :
    (fromJ top (toJ kind true mo top (.mk rn ks []))).map DN.kids = some ks ∧
    (fromJ top (toJ kind false mo top (.mk rn ks []))).map DN.kids = some ks ∧
    (fromX top fuel (toX top (.mk rn ks []))).map DN.kids = some ks := by
  rw [C19_json_roundtrip kind true mo hm top rn ks hj, C19_json_roundtrip kind false mo hm top rn ks hj,
    C19_xml_roundtrip top rn ks hx fuel hf]
  simp [DN.kids]

/-- **C19 (the three encodings, lists and leaf-lists without entries admitted).** Both JSON encodings decode to the tree,
    XML to the tree without its empty list / leaf-list nodes: up to those nodes — which say what their absence says —
    all three encodings of a tree decode to the same tree. -/
theorem C19_three_encodings_agree_modulo_empty (kind : τ → VK) (mo : List Tok → Tok) (hm : ∀ p, (mo p).contains 58 = false)
    (top : List (SN τ)) (rn : Tok) (ks : List DN) (hj : wfKids kind top ks = true) (hx : xwfKids0 top ks)
    (fuel : Nat) (hf : dDepthL ks < fuel) :
    (fromJ top (toJ kind true mo top (.mk rn ks []))).map (fun d => dropEmpty top d.kids) = some (dropEmpty top ks) ∧
    (fromJ top (toJ kind false mo top (.mk rn ks []))).map (fun d => dropEmpty top d.kids) = some (dropEmpty top ks) ∧
    (fromX top fuel (toX top (.mk rn ks []))).map DN.kids = some (dropEmpty top ks) := by
  rw [C19_json_roundtrip kind true mo hm top rn ks hj, C19_json_roundtrip kind false mo hm top rn ks hj,
    C19_xml_roundtrip_modulo_empty top rn ks hx fuel hf]
  simp [DN.kids]

/-! non-vacuity: container c { leaf x (int64) ; leaf-list l (string) } with x = "9223372036854775807" -/
def demoTop : List (SN VK) := [.container [99] false [.leaf [120] .num64 none false, .leafList [108] .other 0 none]]
def demoData : List DN := [.mk [99] [.mk [120] [] [[57, 50, 50, 51]], .mk [108] [] [[97], [98]]] []]
example : wfKids id demoTop demoData = true := by
  unfold demoTop demoData
  rw [wfKids.eq_def]; simp only [DN.name, lookup, dataKids, SN.name, if_true]
  rw [wfKids.eq_def]; simp only [DN.name, lookup, dataKids, SN.name]
  rw [wfKids.eq_def, wfKids.eq_def]; simp [DN.name, lookup, dataKids, SN.name, validValue, wfKids]

example : xwfKids demoTop demoData := by
  unfold demoTop demoData
  rw [xwfKids.eq_def]; simp only [DN.name, lookup, dataKids, SN.name, if_true]
  refine ⟨by simp, ⟨trivial, ?_⟩, by rw [xwfKids.eq_def]; trivial⟩
  rw [xwfKids.eq_def]; simp only [DN.name, lookup, dataKids, SN.name]
  refine ⟨by simp, by simp, ?_⟩
  rw [xwfKids.eq_def]; simp only [DN.name, lookup, dataKids, SN.name]
  refine ⟨by simp, by simp, ?_⟩
  rw [xwfKids.eq_def]; trivial

end YV.Props.C19
