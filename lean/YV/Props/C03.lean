/-
  C03 — operator precedence, associativity and whitespace are honoured.  Headline theorems.

  Full statement (kept visible): for every expression tree `e` and every two admissible renderings
  (parenthesisation respecting precedence/left-associativity, any whitespace at token boundaries)
  `a`, `b` of `e`:  build a = build b = machine (XC.program e).
  Proved here: the grammar the parser model transcribes is the grammar of the source, production by
  production (regenerated obligation); **precedence and associativity** (`C03_precedence`,
  `C03_parenthesisation_irrelevant`): for every expression over numbers, literals, unary minus, the
  thirteen binary operators, parentheses and function calls with up to three argument expressions (each
  argument again any such expression) — any operator mix, any depth — that carries at least the
  parentheses its shape needs (`PE.fits 0`: a left operand may be of the operator's own level, a right
  operand must bind tighter, the operand of unary minus is unary), the parser returns the postfix code of
  the tree, so two ways of writing one tree compile to the same program, and explicit parentheses around
  any sub-expression change nothing; whitespace in front of any token is insignificant for the lexer
  (`C03_leading_ws`, all grammars, any amount); the program of a tree runs to a value or an error
  whatever tree it is.  NOT proved: the same with location paths as operands, and the
  lexer's part of token-level correctness (text → tokens: the operator-name disambiguation) — held by the
  correspondence stream c03 (two renderings of the same tree, compared with each other and with
  `XC.program`), i.e. by testing.
-/
import YV.Proofs.XLexWS
import YV.Proofs.XRun
import YV.Proofs.XPrec
import YV.Spec.XCompile
import YV.Model.XTables
import YV.Gen.XPath
namespace YV.C03
open YV YV.X YV.XL YV.XP YV.XM YV.XC

theorem C03_grammar_is_source : Gen.exprRules = XT.exprRules := by decide +kernel

/-- precedence and associativity are read off the productions; no conflict is resolved by yacc defaults -/
theorem C03_no_conflicts : Gen.yaccConflicts.lookup "xpath.y" = some "0/0" := by decide

theorem C03_leading_ws_partial (strict : Bool) (g : Grammar) (pm : PfxMap) (ws l : List SrcRune)
    (h : AllWS ws) (s : LexSt) (hp : s.peek = 0) :
    lexCommon strict g pm { s with line := ws ++ l } = lexCommon strict g pm { s with line := l } :=
  lexCommon_leading_ws strict g pm ws l h s hp

/-- **C03 (precedence, associativity).** the parser turns the tokens of a written expression into the
    postfix code of its tree followed by `store`, and records no error -/
theorem C03_precedence (e : PE) (hf : e.fits 0) (toks : List LexedTok)
    (ht : toks.map (·.tok) = e.toks ++ [.eof]) :
    ∃ s', parseExprToks false toks = .ok s' ∧ s'.out.reverse = e.tree.code ++ [.store] ∧ s'.perr = none :=
  parseExprToks_spec e hf toks ht

/-- two ways of writing the same tree — the minimal parentheses, explicit parentheses everywhere, anything
    in between — compile to the same program -/
theorem C03_parenthesisation_irrelevant (e1 e2 : PE) (h : e1.tree = e2.tree) (h1 : e1.fits 0) (h2 : e2.fits 0)
    (t1 t2 : List LexedTok) (ht1 : t1.map (·.tok) = e1.toks ++ [.eof]) (ht2 : t2.map (·.tok) = e2.toks ++ [.eof]) :
    ∃ s1 s2, parseExprToks false t1 = .ok s1 ∧ parseExprToks false t2 = .ok s2 ∧ s1.out = s2.out := by
  obtain ⟨s1, p1, o1, _⟩ := parseExprToks_spec e1 h1 t1 ht1
  obtain ⟨s2, p2, o2, _⟩ := parseExprToks_spec e2 h2 t2 ht2
  refine ⟨s1, s2, p1, p2, ?_⟩
  have : s1.out.reverse = s2.out.reverse := by rw [o1, o2, h]
  simpa using congrArg List.reverse this

/-- non-vacuity: 1 - 2 - 3 * -4 = 5 or x — written bare, and with every parenthesis made explicit — both fit -/
def exBare : PE :=
  .bin .or (.bin .eq (.bin .sub (.bin .sub (.num SF.one) (.num SF.one)) (.bin .mul (.num SF.one) (.neg (.num SF.one)))) (.num SF.one)) (.lit [120])
def exFull : PE :=
  .bin .or (.paren (.bin .eq (.paren (.bin .sub (.paren (.bin .sub (.num SF.one) (.num SF.one))) (.paren (.bin .mul (.num SF.one) (.paren (.neg (.num SF.one))))))) (.num SF.one))) (.lit [120])
example : exBare.fits 0 ∧ exFull.fits 0 ∧ exBare.tree = exFull.tree := by
  refine ⟨?_, ?_, rfl⟩ <;> simp [exBare, exFull, PE.fits, level]
/-- … with function calls: concat('x', 1 - 1 * 1) or not((1 = 1)) -/
def exCall : PE :=
  .bin .or (.call2 .concat (.lit [120]) (.bin .sub (.num SF.one) (.bin .mul (.num SF.one) (.num SF.one))))
    (.call1 .not (.paren (.bin .eq (.num SF.one) (.num SF.one))))
example : exCall.fits 0 := by simp [exCall, PE.fits, level, Fn.sig]
/-- and a shape that needs its parentheses does not fit without them: 1 - (2 - 3) written as 1 - 2 - 3 is
    another tree -/
example : ¬ (PE.bin .sub (.num SF.one) (.bin .sub (.num SF.one) (.num SF.one))).fits 0 := by
  simp [PE.fits, level]

/-- the program of any tree ends in `store`, hence runs to a value xor an error -/
theorem C03_program_runs (t : Tree) (e : XE) :
    let o := run true t (program e)
    (o.value.isSome = true ∧ o.err.isNone = true) ∨ (o.value.isNone = true ∧ o.err.isSome = true) :=
  run_value_xor_error true t (code e)

/-- non-vacuity: whitespace is a non-empty class, and the lemma applies at the start of any input -/
example : AllWS [⟨32, 1⟩, ⟨9, 1⟩, ⟨10, 1⟩, ⟨13, 1⟩] ∧ ({ line := [] } : LexSt).peek = 0 := by
  constructor
  · intro r hr; simp at hr; rcases hr with h | h | h | h <;> subst h <;> rfl
  · rfl

end YV.C03
