/-
  C03 — operator precedence, associativity and whitespace are honoured.  Headline theorems.

  Full statement (kept visible): for every expression tree `e` and every two admissible renderings
  (parenthesisation respecting precedence/left-associativity, any whitespace at token boundaries)
  `a`, `b` of `e`:  build a = build b = machine (XC.program e).
  Proved here: the grammar the parser model transcribes is the grammar of the source, production by
  production (regenerated obligation); **precedence and associativity** (`C03_precedence`,
  `C03_parenthesisation_irrelevant`): for every expression over numbers, literals, location paths (absolute,
  relative, current()-rooted; name, `..` and `.` steps; any number of predicates on a name step, each
  containing any expression of this kind again — `blk_of`), unary minus, the
  thirteen binary operators, parentheses and function calls with up to three argument expressions (each
  argument again any such expression) — any operator mix, any depth — that carries at least the
  parentheses its shape needs (`PE.fits 0`: a left operand may be of the operator's own level, a right
  operand must bind tighter, the operand of unary minus is unary), the parser returns the postfix code of
  the tree, so two ways of writing one tree compile to the same program, and explicit parentheses around
  any sub-expression change nothing; whitespace in front of any token is insignificant for the lexer
  (`C03_leading_ws`, all grammars, any amount); the program of a tree runs to a value or an error
  whatever tree it is; and the **lexer's part** (`C03_text_to_program`, `C03_texts_agree`): the text of such an
  expression, written as its tokens with any white space between them (none where the next character cannot
  continue the token: `1-1*1`, `not(1)`), is turned by `build` — decode, lex, parse, CreateProgram — into the machine of the
  tree, the operator names and `*` being told apart by the preceding token and function names by the `(`
  that follows; so two such texts of one tree build the same machine.  NOT proved: the same with
  deref() and unions; at the text level, numerals with an exponent — held by the correspondence stream c03 (two renderings of the same tree, compared
  with each other and with `XC.program`), i.e. by testing.
-/
import YV.Proofs.XLexWS
import YV.Proofs.XRun
import YV.Proofs.XPrec
import YV.Proofs.XText
import YV.Spec.XCompile
import YV.Model.XTables
import YV.Gen.XPath
namespace YV.C03
open YV YV.X YV.XL YV.XP YV.XM YV.XC

theorem C03_grammar_is_source : Gen.exprRules = XT.exprRules := by decide +kernel

/-- precedence and associativity are read off the productions; no conflict is resolved by yacc defaults -/
theorem C03_no_conflicts : Gen.yaccConflicts.lookup "xpath.y" = some "0/0" := by decide

theorem C03_leading_ws_partial (strict : Bool) (g : Grammar) (pm : PfxMap) (ws l : List SrcRune)
    (h : AllWS ws) (s : LexSt) (hp : s.peek = 0) :
    lexCommon strict g pm { s with line := ws ++ l } = lexCommon strict g pm { s with line := l } :=
  lexCommon_leading_ws strict g pm ws l h s hp

/-- **C03 (precedence, associativity).** the parser turns the tokens of a written expression into the
    postfix code of its tree followed by `store`, and records no error -/
theorem C03_precedence (e : PE) (hf : e.fits 0) (toks : List LexedTok)
    (ht : toks.map (·.tok) = e.toks ++ [.eof]) :
    ∃ s', parseExprToks false toks = .ok s' ∧ s'.out.reverse = e.tree.code ++ [.store] ∧ s'.perr = none :=
  parseExprToks_spec e hf toks ht

/-- two ways of writing the same tree — the minimal parentheses, explicit parentheses everywhere, anything
    in between — compile to the same program -/
theorem C03_parenthesisation_irrelevant (e1 e2 : PE) (h : e1.tree = e2.tree) (h1 : e1.fits 0) (h2 : e2.fits 0)
    (t1 t2 : List LexedTok) (ht1 : t1.map (·.tok) = e1.toks ++ [.eof]) (ht2 : t2.map (·.tok) = e2.toks ++ [.eof]) :
    ∃ s1 s2, parseExprToks false t1 = .ok s1 ∧ parseExprToks false t2 = .ok s2 ∧ s1.out = s2.out := by
  obtain ⟨s1, p1, o1, _⟩ := parseExprToks_spec e1 h1 t1 ht1
  obtain ⟨s2, p2, o2, _⟩ := parseExprToks_spec e2 h2 t2 ht2
  refine ⟨s1, s2, p1, p2, ?_⟩
  have : s1.out.reverse = s2.out.reverse := by rw [o1, o2, h]
  simpa using congrArg List.reverse this

/-- non-vacuity: 1 - 2 - 3 * -4 = 5 or x — written bare, and with every parenthesis made explicit — both fit -/
def exBare : PE :=
  .bin .or (.bin .eq (.bin .sub (.bin .sub (.num SF.one) (.num SF.one)) (.bin .mul (.num SF.one) (.neg (.num SF.one)))) (.num SF.one)) (.lit [120])
def exFull : PE :=
  .bin .or (.paren (.bin .eq (.paren (.bin .sub (.paren (.bin .sub (.num SF.one) (.num SF.one))) (.paren (.bin .mul (.num SF.one) (.paren (.neg (.num SF.one))))))) (.num SF.one))) (.lit [120])
example : exBare.fits 0 ∧ exFull.fits 0 ∧ exBare.tree = exFull.tree := by
  refine ⟨?_, ?_, rfl⟩ <;> simp [exBare, exFull, PE.fits, level]
/-- … with function calls: concat('x', 1 - 1 * 1) or not((1 = 1)) -/
def exCall : PE :=
  .bin .or (.call2 .concat (.lit [120]) (.bin .sub (.num SF.one) (.bin .mul (.num SF.one) (.num SF.one))))
    (.call1 .not (.paren (.bin .eq (.num SF.one) (.num SF.one))))
example : exCall.fits 0 := by simp [exCall, PE.fits, level, Fn.sig]
/-- … with location paths as operands: ../a/b + /c * current()/d = . -/
def exPath : PE :=
  .bin .eq (.bin .add (.path (.rel .up) [.name [] [97] [], .name [] [98] []])
      (.bin .mul (.path .abs [.name [] [99] []]) (.path .cur [.name [] [100] []])))
    (.path (.rel .dot) [])
example : exPath.fits 0 := by simp [exPath, PE.fits, level, pathOK, PStep.ok, PStep.preds]
/-- … with predicates, whose contents are expressions of the same kind (`blk_of`), to any depth:
    a[k = 1][../x]/b -/
def exKey : PE := .bin .eq (.path (.rel (.name [] [107] [])) []) (.num SF.one)
def exUp : PE := .path (.rel .up) [.name [] [120] []]
def exPred : PE := .path (.rel (.name [] [97] [⟨exKey.toks, exKey.code⟩, ⟨exUp.toks, exUp.code⟩])) [.name [] [98] []]
example : exPred.fits 0 := by
  have h1 : exKey.fits 0 := by simp [exKey, PE.fits, level, pathOK, PStep.ok, PStep.preds]
  have h2 : exUp.fits 0 := by simp [exUp, PE.fits, pathOK, PStep.ok, PStep.preds]
  refine ⟨?_, ?_⟩
  · intro b hb
    simp only [PStep.preds, List.mem_cons, List.mem_nil_iff, or_false] at hb
    rcases hb with rfl | rfl
    · exact blk_of exKey h1
    · exact blk_of exUp h2
  · intro st hst
    simp only [List.mem_cons, List.mem_nil_iff, or_false] at hst
    subst hst
    intro b hb
    simp [PStep.preds] at hb
/-- … and with unions, which bind tighter than unary minus and associate to the left: - a | /c | count(b) + 1
    is ((-((a | /c) | count(b))) + 1) -/
def exUnion : PE :=
  .bin .add (.neg (.union (.union (.path (.rel (.name [] [97] [])) []) (.path .abs [.name [] [99] []]))
      (.call1 .count (.path (.rel (.name [] [98] [])) [])))) (.num SF.one)
example : exUnion.fits 0 := by simp [exUnion, PE.fits, PE.ul, PE.pl, level, pathOK, PStep.ok, PStep.preds, Fn.sig]
example : exUnion.tree.code =
    [.namePush [] [97], .evalLocPath, .pathRoot, .namePush [] [99], .evalLocPath, .union,
     .namePush [] [98], .evalLocPath, .bltin .count, .union, .negate, .num SF.one, .add, ] := by
  simp [exUnion, PE.tree, ET.code, XP.pathCode, XP.stepsCode, PStep.code, blkCode, binPI]
/-- a union operand is a path-level expression: `a | -b` is not a union (the parser refuses it, too) -/
example : ¬ (PE.union (.path (.rel (.name [] [97] [])) []) (.neg (.path (.rel (.name [] [98] [])) []))).fits 0 := by
  simp [PE.fits, PE.pl]
/-- and a shape that needs its parentheses does not fit without them: 1 - (2 - 3) written as 1 - 2 - 3 is
    another tree -/
example : ¬ (PE.bin .sub (.num SF.one) (.bin .sub (.num SF.one) (.num SF.one))).fits 0 := by
  simp [PE.fits, level]

/-- the program of any tree ends in `store`, hence runs to a value xor an error -/
theorem C03_program_runs (t : Tree) (e : XE) :
    let o := run true t (program e)
    (o.value.isSome = true ∧ o.err.isNone = true) ∨ (o.value.isNone = true ∧ o.err.isSome = true) :=
  run_value_xor_error true t (code e)

/-- non-vacuity: whitespace is a non-empty class, and the lemma applies at the start of any input -/
example : AllWS [⟨32, 1⟩, ⟨9, 1⟩, ⟨10, 1⟩, ⟨13, 1⟩] ∧ ({ line := [] } : LexSt).peek = 0 := by
  constructor
  · intro r hr; simp at hr; rcases hr with h | h | h | h <;> subst h <;> rfl
  · rfl

/-! ### from the text: lexer and parser together -/

/-- **C03 (text → program).**  An expression of the operator fragment written as its tokens — numerals, literals
    in either kind of quotes, operator signs and names, parentheses, commas, function names, and location paths
    of unprefixed names, `..`, `.`, `/` and `current()` (a bare `/` excepted: after it the lexer takes an operator
    name for a name, XPath 1.0 §3.7) — with any white space
    (any amount and mix of blank, tab, CR, LF) after each of them and in front of the first, and none at all
    wherever the next character cannot be taken for a continuation of the token (`glued`: a digit, `.`, `e`, `E`
    after a numeral; a name character after a name; `=` after `<` or `>`; `/` after `/`; `.` or a digit after `.`):
    `build` (= NewExpressionMachine of the
    model: decode, lex, parse, CreateProgram) returns the machine whose program is the postfix code of the
    expression's tree.  `*`, `and`, `or`, `mod`, `div` are read as operators because of the token before them, a
    function name because of the `(` after it (XPath 1.0 §3.7). -/
theorem C03_text_to_program (e : PE) (hf : e.fits 0) (hn : e.lexable) (items : List Item) (hi : items.map (·.tok) = e.toks)
    (hok : ∀ i ∈ items, i.ok) (hgl : glued items) (lead : List Rune) (hl : ∀ x ∈ lead, isWS x = true) (pm : PfxMap)
    (hpf : ∀ i ∈ items, ∀ p l, i.tok = .nametest p l → pfxOk pm p = true)
    (fixed : Bool) (bs : List Nat) (hbs : (decode bs).map (·.cp) = lead ++ renderX items) :
    build false fixed .expr pm bs = .machine (e.tree.code ++ [.store]) :=
  text_to_program e hf hn items hi hok hgl lead hl pm hpf fixed bs hbs

/-- … for a text of ASCII bytes the decoding is the identity -/
theorem C03_text_to_program_ascii (e : PE) (hf : e.fits 0) (hn : e.lexable) (items : List Item) (hi : items.map (·.tok) = e.toks)
    (hok : ∀ i ∈ items, i.ok) (hgl : glued items) (lead : List Rune) (hl : ∀ x ∈ lead, isWS x = true) (pm : PfxMap)
    (hpf : ∀ i ∈ items, ∀ p l, i.tok = .nametest p l → pfxOk pm p = true)
    (fixed : Bool) (ha : ∀ b ∈ lead ++ renderX items, b < 128) :
    build false fixed .expr pm (lead ++ renderX items) = .machine (e.tree.code ++ [.store]) :=
  text_to_program e hf hn items hi hok hgl lead hl pm hpf fixed _ (decode_ascii _ ha)

/-- … and white space after every token is always enough -/
theorem C03_text_to_program_spaced (e : PE) (hf : e.fits 0) (hn : e.lexable) (items : List Item) (hi : items.map (·.tok) = e.toks)
    (hok : ∀ i ∈ items, i.ok ∧ i.sep ≠ []) (lead : List Rune) (hl : ∀ x ∈ lead, isWS x = true) (pm : PfxMap)
    (hpf : ∀ i ∈ items, ∀ p l, i.tok = .nametest p l → pfxOk pm p = true)
    (fixed : Bool) (bs : List Nat) (hbs : (decode bs).map (·.cp) = lead ++ renderX items) :
    build false fixed .expr pm bs = .machine (e.tree.code ++ [.store]) :=
  text_to_program e hf hn items hi (fun i h => (hok i h).1) (glued_of_spaced items hok) lead hl pm hpf fixed bs hbs

/-- **C03 (white space, parentheses: texts).**  Two texts of the same tree — whatever white space separates their
    tokens, whatever redundant parentheses they carry, whichever quotes and numeral spellings they use — build the
    same machine. -/
theorem C03_texts_agree (e1 e2 : PE) (h : e1.tree = e2.tree) (h1 : e1.fits 0) (h2 : e2.fits 0)
    (n1 : e1.lexable) (n2 : e2.lexable)
    (i1 i2 : List Item) (t1 : i1.map (·.tok) = e1.toks) (t2 : i2.map (·.tok) = e2.toks)
    (ok1 : ∀ i ∈ i1, i.ok) (ok2 : ∀ i ∈ i2, i.ok) (g1 : glued i1) (g2 : glued i2) (l1 l2 : List Rune)
    (w1 : ∀ x ∈ l1, isWS x = true) (w2 : ∀ x ∈ l2, isWS x = true) (pm : PfxMap)
    (p1 : ∀ i ∈ i1, ∀ p l, i.tok = .nametest p l → pfxOk pm p = true)
    (p2 : ∀ i ∈ i2, ∀ p l, i.tok = .nametest p l → pfxOk pm p = true) (fixed : Bool) (b1 b2 : List Nat)
    (d1 : (decode b1).map (·.cp) = l1 ++ renderX i1) (d2 : (decode b2).map (·.cp) = l2 ++ renderX i2) :
    build false fixed .expr pm b1 = build false fixed .expr pm b2 := by
  rw [text_to_program e1 h1 n1 i1 t1 ok1 g1 l1 w1 pm p1 fixed b1 d1, text_to_program e2 h2 n2 i2 t2 ok2 g2 l2 w2 pm p2 fixed b2 d2, h]

/-- **C03 (the lexer reads back what was written).**  Not only expressions: ANY sequence of written tokens —
    numerals (digits and points, also beginning with the point), literals, the operator signs and names, `( ) , [ ] | @`, `/`, `//`, `..`, `.`, `*` as operator or
    as wildcard, names with or without a prefix, function names, `current` — with any white space between them (none where
    the next character cannot continue the token) that respects the §3.7 context conditions (`ctxOK`) lexes to
    exactly those tokens followed by the end-of-input token: white space between tokens is insignificant. -/
theorem C03_lexer_reads_back (strict : Bool) (pm : PfxMap) (items : List Item) (lead : List Rune)
    (hl : ∀ x ∈ lead, isWS x = true) (hok : ∀ i ∈ items, i.ok) (hgl : glued items)
    (hctx : ctxOK none (items.map (·.tok))) (hpf : ∀ i ∈ items, ∀ p l, i.tok = .nametest p l → pfxOk pm p = true) (runes : List SrcRune)
    (hr : runes.map (·.cp) = lead ++ renderX items) :
    (lexAllAux strict .expr pm (runes.length + 2) { line := runes }).1.map (·.tok) = items.map (·.tok) ++ [.eof] := by
  have hlen : items.length < runes.length + 2 := by
    have h1 := renderX_length items hok
    have h2 := congrArg List.length hr
    simp at h2
    omega
  exact lex_items strict pm items (runes.length + 2) { line := runes } lead hlen hl (by simpa [strm] using hr) rfl hok hgl hctx hpf

/-- every function of the table but `current` (a token of its own) has a written form -/
theorem C03_function_names (fn : Fn) (h : fn ≠ .current) : Writes (.func fn) (strR fn.name) := by
  apply Writes.func
  cases fn <;> first | exact absurd rfl h | decide +kernel

/-- non-vacuity: `1-1*1` (nothing between the tokens) and `1 - 1 * 1\n` are texts of one tree -/
def exE1 : PE := .bin .sub (.num SF.one) (.bin .mul (.num SF.one) (.num SF.one))
def exT1 : List Item :=
  [⟨.num SF.one, [49], []⟩, ⟨.ch (chr '-'), [45], []⟩, ⟨.num SF.one, [49], []⟩, ⟨.ch (chr '*'), [42], []⟩,
   ⟨.num SF.one, [49], []⟩]
def exT2 : List Item :=
  [⟨.num SF.one, [49], [32]⟩, ⟨.ch (chr '-'), [45], [32]⟩, ⟨.num SF.one, [49], [32]⟩, ⟨.ch (chr '*'), [42], [9, 32]⟩,
   ⟨.num SF.one, [49], [10]⟩]
theorem one_written : Writes (.num SF.one) [49] := Writes.num 49 [] SF.one (by decide) (by simp) (by decide +kernel)
theorem exT1_ok : exT1.map (·.tok) = exE1.toks ∧ (∀ i ∈ exT1, i.ok) ∧ glued exT1 ∧ exE1.fits 0 := by
  refine ⟨rfl, ?_, ?_, by simp [exE1, PE.fits, level]⟩
  · intro i hi
    simp only [exT1, List.mem_cons, List.mem_nil_iff, or_false] at hi
    rcases hi with rfl | rfl | rfl | rfl | rfl
    · exact ⟨one_written, by simp⟩
    · exact ⟨Writes.sym _ (by decide), by simp⟩
    · exact ⟨one_written, by simp⟩
    · exact ⟨Writes.star, by simp⟩
    · exact ⟨one_written, by simp⟩
  · simp [exT1, glued, renderX, After, follow, isNumChar, isDigitR, chr]
theorem exT2_ok : exT2.map (·.tok) = exE1.toks ∧ (∀ i ∈ exT2, i.ok ∧ i.sep ≠ []) := by
  refine ⟨rfl, ?_⟩
  intro i hi
  simp only [exT2, List.mem_cons, List.mem_nil_iff, or_false] at hi
  rcases hi with rfl | rfl | rfl | rfl | rfl
  · exact ⟨⟨one_written, by simp [isWS]⟩, by simp⟩
  · exact ⟨⟨Writes.sym _ (by decide), by simp [isWS]⟩, by simp⟩
  · exact ⟨⟨one_written, by simp [isWS]⟩, by simp⟩
  · exact ⟨⟨Writes.star, by simp [isWS]⟩, by simp⟩
  · exact ⟨⟨one_written, by simp [isWS]⟩, by simp⟩
/-- the text "1-1*1" builds the program  1 1 1 mul sub store -/
example (pm : PfxMap) (fixed : Bool) :
    build false fixed .expr pm [49, 45, 49, 42, 49] = .machine (exE1.tree.code ++ [.store]) :=
  C03_text_to_program_ascii exE1 exT1_ok.2.2.2 (by simp [exE1, PE.lexable]) exT1 exT1_ok.1 exT1_ok.2.1 exT1_ok.2.2.1 [] (by simp) pm
    (by intro i hi p l e; simp only [exT1, List.mem_cons, List.mem_nil_iff, or_false] at hi; rcases hi with rfl | rfl | rfl | rfl | rfl <;> simp at e) fixed
    (by simp [exT1, renderX])

/-- … and with a path: the text "../a+1" builds  .. a evalLocPath 1 add store -/
def exE2 : PE := .bin .add (.path (.rel .up) [.name [] [97] []]) (.num SF.one)
def exT3 : List Item :=
  [⟨.dotdot, [46, 46], []⟩, ⟨.ch (chr '/'), [47], []⟩, ⟨.nametest [] [97], [97], []⟩, ⟨.ch (chr '+'), [43], []⟩,
   ⟨.num SF.one, [49], []⟩]
theorem exT3_ok : exT3.map (·.tok) = exE2.toks ∧ (∀ i ∈ exT3, i.ok) ∧ glued exT3 ∧ exE2.fits 0 ∧ exE2.lexable := by
  refine ⟨rfl, ?_, ?_, by simp [exE2, PE.fits, level, pathOK, PStep.ok, PStep.preds],
    by simp [exE2, PE.lexable, pathCtx, PStep.preds]⟩
  · intro i hi
    simp only [exT3, List.mem_cons, List.mem_nil_iff, or_false] at hi
    rcases hi with rfl | rfl | rfl | rfl | rfl
    · exact ⟨Writes.dotdot, by simp⟩
    · exact ⟨Writes.slash, by simp⟩
    · exact ⟨Writes.name [97] (by decide), by simp⟩
    · exact ⟨Writes.sym _ (by decide), by simp⟩
    · exact ⟨one_written, by simp⟩
  · simp [exT3, glued, renderX, After, follow, isNumChar, isDigitR, nameCharCommon, nameStartCommon, chr]
example (pm : PfxMap) (fixed : Bool) :
    build false fixed .expr pm [46, 46, 47, 97, 43, 49] = .machine (exE2.tree.code ++ [.store]) :=
  C03_text_to_program_ascii exE2 exT3_ok.2.2.2.1 exT3_ok.2.2.2.2 exT3 exT3_ok.1 exT3_ok.2.1 exT3_ok.2.2.1 [] (by simp) pm
    (by intro i hi p l e; simp only [exT3, List.mem_cons, List.mem_nil_iff, or_false] at hi
        rcases hi with rfl | rfl | rfl | rfl | rfl <;> simp at e
        rw [e.1]; exact pfxOk_nil pm) fixed (by simp [exT3, renderX])

end YV.C03
