import YV.Spec.XCompile
namespace YV.C03
theorem placeholder : True := trivial
end YV.C03
