/-
  C03 — operator precedence, associativity and whitespace are honoured.  Headline theorems.

  Full statement (kept visible): for every expression tree `e` and every two admissible renderings
  (parenthesisation respecting precedence/left-associativity, any whitespace at token boundaries)
  `a`, `b` of `e`:  build a = build b = machine (XC.program e).
  Proved here: the grammar the parser model transcribes is the grammar of the source, production by
  production (regenerated obligation); whitespace in front of any token is insignificant for the lexer
  (`C03_leading_ws`, all grammars, any amount); the program of a tree runs to a value or an error
  whatever tree it is.  NOT yet proved: parse ∘ render = program (token-level parser correctness) —
  that part is held by the correspondence stream c03 (two renderings of the same tree, compared with
  each other and with `XC.program`), i.e. by testing.
-/
import YV.Proofs.XLexWS
import YV.Proofs.XRun
import YV.Spec.XCompile
import YV.Model.XTables
import YV.Gen.XPath
namespace YV.C03
open YV YV.X YV.XL YV.XP YV.XM YV.XC

theorem C03_grammar_is_source : Gen.exprRules = XT.exprRules := by decide +kernel

/-- precedence and associativity are read off the productions; no conflict is resolved by yacc defaults -/
theorem C03_no_conflicts : Gen.yaccConflicts.lookup "xpath.y" = some "0/0" := by decide

theorem C03_leading_ws_partial (strict : Bool) (g : Grammar) (pm : PfxMap) (ws l : List SrcRune)
    (h : AllWS ws) (s : LexSt) (hp : s.peek = 0) :
    lexCommon strict g pm { s with line := ws ++ l } = lexCommon strict g pm { s with line := l } :=
  lexCommon_leading_ws strict g pm ws l h s hp

/-- the program of any tree ends in `store`, hence runs to a value xor an error -/
theorem C03_program_runs (t : Tree) (e : XE) :
    let o := run true t (program e)
    (o.value.isSome = true ∧ o.err.isNone = true) ∨ (o.value.isNone = true ∧ o.err.isSome = true) :=
  run_value_xor_error true t (code e)

/-- non-vacuity: whitespace is a non-empty class, and the lemma applies at the start of any input -/
example : AllWS [⟨32, 1⟩, ⟨9, 1⟩, ⟨10, 1⟩, ⟨13, 1⟩] ∧ ({ line := [] } : LexSt).peek = 0 := by
  constructor
  · intro r hr; simp at hr; rcases hr with h | h | h | h <;> subst h <;> rfl
  · rfl

end YV.C03
