/-
  C01 — XPath scalar evaluation follows XPath 1.0 semantics.  Headline theorems.
  (helper lemmas live in YV/Proofs/XEval.lean)
-/
import YV.Proofs.XEval
import YV.Spec.XSem
import YV.Model.XTables
import YV.Gen.XPath
namespace YV.C01
open YV YV.X YV.XS

/-- Compiler correctness, any nesting depth: running the postfix program the grammar actions emit
    for `e`, followed by `store`, yields exactly the bottom-up value of the tree (or the same error). -/
theorem C01_machine_eq_tree (env : Env) (e : Expr) (hw : WellFormed e) :
    run env (compile e ++ [.store]) = (evalM env e >>= fun v => pure (some v)) := by
  unfold run
  rw [exec_compile env e hw [.store] {}]
  cases h : evalM env e with
  | error x => simp
  | ok v => simp [exec, step, pop]

/-- the function table of the source (names, arities, argument kinds, return kinds) is the one the
    model's `Fn.sig` and `WellFormed` range over — regenerated from xpath/symbol.go on every run -/
theorem C01_fn_table : Gen.fnTable = XT.fnTableSorted := by decide

/-- non-vacuity: a nested, well-formed expression -/
example : WellFormed (.call .substring [.lit "12345".toList, .bin .div (.num SF.one) (.num SF.zero), .neg (.env 0)]) := by
  simp [WellFormed, WellFormedList, Fn.sig]

end YV.C01
