/-
  C01 — XPath scalar evaluation follows XPath 1.0 semantics.  Headline theorems.
  (helper lemmas live in YV/Proofs/XEval.lean)
-/
import YV.Proofs.XEval
import YV.Proofs.XCmp
import YV.Proofs.XSpec
import YV.Spec.XSem
import YV.Model.XTables
import YV.Gen.XPath
namespace YV.C01
open YV YV.X YV.XS

/-- Compiler correctness, any nesting depth: running the postfix program the grammar actions emit
    for `e`, followed by `store`, yields exactly the bottom-up value of the tree (or the same error). -/
theorem C01_machine_eq_tree (env : Env) (e : Expr) (hw : WellFormed e) :
    run env (compile e ++ [.store]) = (evalM env e >>= fun v => pure (some v)) := by
  unfold run
  rw [exec_compile env e hw [.store] {}]
  cases h : evalM env e with
  | error x => simp
  | ok v => simp [exec, step, pop]

/-- **C01 (machine = XPath 1.0).** For every well-formed expression tree — any nesting depth — over numbers, literals,
    data operands that are absent or single-valued, unary minus, the thirteen binary operators and the core
    functions boolean not true false number string ceiling floor concat contains starts-with string-length
    normalize-space substring-before substring-after translate last position, the compiled program runs without
    error and stores the value the XPath 1.0 specification (`XS.eval`: §3.4 comparisons, §3.5 arithmetic in
    binary64, §4 conversions and function definitions) gives.  (`eval true`: the variant that reads the spelled
    infinities, see C01_number_of_string.  round() and substring() are outside `PureX`: their IEEE formulation
    against the exact one is compared by the streams; multi-valued leaf-lists: C01_compare / C01_existential.) -/
theorem C01_machine_is_xpath (env : Env) (henv : SimpleEnv env) (e : Expr) (hw : WellFormed e) (hp : PureX e) :
    ∃ d, run env (compile e ++ [.store]) = .ok (some d) ∧ eval true env e = some (ofDatum d) := by
  obtain ⟨d, h1, _, h3⟩ := evalM_spec env henv e hw hp
  exact ⟨d, by rw [C01_machine_eq_tree env e hw, h1]; rfl, h3⟩

/-- the function table of the source (names, arities, argument kinds, return kinds) is the one the
    model's `Fn.sig` and `WellFormed` range over — regenerated from xpath/symbol.go on every run -/
theorem C01_fn_table : Gen.fnTable = XT.fnTableSorted := by decide

/-- string → number (datum.go numberFromString) reads exactly the §4.4 grammar
    `Number ::= Digits ('.' Digits?)? | '.' Digits` with optional minus and surrounding XPath whitespace —
    in the variant that also reads the two spelled infinities (`numOfStr true`; the open finding
    C01-number-of-Infinity-string is exactly the difference between `numOfStr true` and `numOfStr false`) -/
theorem C01_number_of_string (s : Str) : numberFromString s = numOfStr true s := numberFromString_eq s

/-- every comparison (`= != < <= > >=`) of every pair of operands — scalars of any kind, absent nodes,
    single leaves, multi-valued leaf-lists — is the §3.4 comparison of the specification: booleans win over
    numbers win over strings for (in)equality, numbers for the relational operators, and a node-set
    compares existentially over the string-values of its nodes -/
theorem C01_compare (op : BinOp) (hop : cmpOp op = true) (a b : Datum)
    (ha : a ≠ .invalid) (hb : b ≠ .invalid) :
    X.compare op a b = .ok (cmp true op (ofDatum a) (ofDatum b)) := compare_spec op hop a b ha hb

/-- an absent node is false in every comparison, on either side, against anything -/
theorem C01_absent_false (op : BinOp) (hop : cmpOp op = true) (b : Datum) (hb : b ≠ .invalid) :
    X.compare op .emptyNodeset b = .ok false ∧ X.compare op b .emptyNodeset = .ok false := by
  constructor
  · rw [compare_spec op hop _ b (by simp) hb]; simp [ofDatum, cmp]
  · rw [compare_spec op hop b _ hb (by simp)]
    cases b <;> simp [ofDatum, cmp]
    rename_i ds; cases ds <;> simp [cmp]

/-- a multi-valued leaf-list compares existentially: against a string or number operand the result is
    true iff some entry compares true -/
theorem C01_existential (op : BinOp) (hop : cmpOp op = true) (entries : List Str) (t : Str) :
    X.compare op (.slice entries) (.lit t) = .ok (entries.any fun s => cmpScalar true op (.str s) (.str t)) := by
  rw [compare_spec op hop _ _ (by simp) (by simp)]
  cases entries <;> simp [ofDatum, cmp]

example : X.compare .eq (.slice ["a".toList, "b".toList]) (.lit "b".toList) = .ok true := by
  rw [C01_existential .eq rfl]; simp [cmpScalar, isRel, stringOf]

/-- non-vacuity: a nested, well-formed expression -/
example : WellFormed (.call .substring [.lit "12345".toList, .bin .div (.num SF.one) (.num SF.zero), .neg (.env 0)]) := by
  simp [WellFormed, WellFormedList, Fn.sig]

/-- non-vacuity of `PureX` / `SimpleEnv`: translate(concat(x, 'b'), 'ab', 'AB') = 'AB' and not(-(1 div 0) < x) over
    an environment with an absent node, a leaf and a one-entry leaf-list -/
example : PureX (.bin .and (.call .not [.bin .lt (.neg (.bin .div (.num SF.one) (.num SF.zero))) (.env 1)])
    (.bin .eq (.call .translate [.call .concat [.env 2, .lit "b".toList], .lit "ab".toList, .lit "AB".toList]) (.lit "AB".toList))) := by
  simp [PureX, PureXs, pureFn]
example : SimpleEnv (fun id => match id with | 0 => .emptyNodeset | 1 => .lit "7".toList | 2 => .slice ["a".toList] | _ => .num SF.one) := by
  intro id
  match id with
  | 0 => trivial
  | 1 => trivial
  | 2 => simp [Simple]
  | _ + 3 => trivial

end YV.C01
