/-
  C01 — XPath scalar evaluation follows XPath 1.0 semantics.  Headline theorems.
-/
import YV.Spec.XSem
namespace YV.C01
open YV YV.X YV.XS

theorem placeholder : True := trivial

end YV.C01
