/-
  Props.C20 — schema filters prune top-down and change nothing else.
-/
import YV.Proofs.YCompile
namespace YV.Props.C20
open YV YV.Y YV.SC YV.C

/-- **C20.** For every module body (any nesting of containers, lists, choices, cases; any placement of
    config / status / if-feature), every set of enabled features and every filter that looks at `config`
    (IsConfig, IsState and their Include / Exclude combinations): if the unfiltered compile succeeds, the
    filtered compile succeeds and yields exactly the unfiltered tree pruned top-down — every surviving node
    with the same attributes, no error for a choice whose default case went away with the choice. -/
theorem C20_filter_is_prune (f : Attr → Bool) (hf : CfgOnly f) (env : FeatEnv) (top : List A) (full : List CN)
    (hw : wfKids top = true) (h : compile keepAll env top = .ok full) :
    compile f env top = .ok (pruneKids f full) := by
  unfold compile at h ⊢
  cases hk : buildKids keepAll env {} top with
  | error e => simp [hk] at h
  | ok ks =>
    simp only [hk, ebind_ok] at h
    cases hn : checkNames (flatNames ks) with
    | error e => simp [hn] at h
    | ok u =>
      simp only [hn, ebind_ok, epure, Except.ok.injEq] at h
      subst h
      rw [buildKids_prune f hf env top {} ks hw hk]
      simp only [ebind_ok, checkNames_prune hn, epure]

/-- **C20 (rpcs and notifications).** The input and output of an rpc and a notification are trees of their own, built like
    the data tree (configuration and current at their roots, `buildSchemaTree`): for every list of such bodies, each one
    compiles under the filter to its unfiltered tree pruned top-down. -/
theorem C20_operation_trees (f : Attr → Bool) (hf : CfgOnly f) (env : FeatEnv) (bodies : List (List A))
    (hw : ∀ b ∈ bodies, wfKids b = true) (fulls : List (List CN))
    (h : bodies.mapM (compile keepAll env) = .ok fulls) :
    bodies.mapM (compile f env) = .ok (fulls.map (pruneKids f)) := by
  induction bodies generalizing fulls with
  | nil => simp [List.mapM_nil] at h ⊢; subst h; rfl
  | cons b r ih =>
    rw [List.mapM_cons] at h ⊢
    cases hb : compile keepAll env b with
    | error e => rw [hb] at h; cases h
    | ok fb =>
      rw [hb] at h
      cases hr : r.mapM (compile keepAll env) with
      | error e => rw [hr] at h; cases h
      | ok fr =>
        rw [hr] at h
        have hfl : fulls = fb :: fr := by cases h; rfl
        subst hfl
        rw [C20_filter_is_prune f hf env b fb (hw b (by simp)) hb, ih (fun x hx => hw x (by simp [hx])) fr hr]
        rfl

/-- the filters of compile_filters.go are of that form -/
theorem C20_filters_cfgOnly :
    CfgOnly (fun a => a.cfg) ∧ CfgOnly (fun a => !a.cfg) ∧ CfgOnly (fun _ => true) ∧ CfgOnly (fun _ => false) := by
  refine ⟨?_, ?_, ?_, ?_⟩ <;> intro a b h <;> simp [h]

/-- pruning is top-down: a node below a removed node is gone whatever it is -/
theorem C20_prune_topdown (f : Attr → Bool) (a : Attr) (kids r : List CN) (h : f a = false) :
    pruneKids f (.mk a kids :: r) = pruneKids f r := by
  simp [pruneKids, h]

/-! non-vacuity: container c { config true; choice ch { default ca; case ca { leaf x { config false } } } }
    compiles; the state-only filter removes c with everything below it; the config-only filter keeps
    c / ch / ca and removes x -/
def demo : List A :=
  [.container [99] {} false [.choice [1] {} false (some [2]) [.case [2] {} [.leaf [3] { cfg := some false } false none]]]]

example : (compile keepAll {} demo).isOk = true := by
  simp [compile, demo, buildKids, build, ignoredM, iffLoop, A.meta, inherit, getStatus, getConfig, keepAll, checkNames, firstDup,
    flatNames, flatCaseNames, caseKidNames, choiceMarks, kidMarks, mark, dataNames, dataCaseNames, CN.attr, Except.isOk, Except.toBool]
example : compile (fun a => !a.cfg) {} demo = .ok [] := by
  simp [compile, demo, buildKids, build, ignoredM, iffLoop, A.meta, inherit, getStatus, getConfig, checkNames, firstDup,
    flatNames, flatCaseNames, caseKidNames, choiceMarks, kidMarks, mark, dataNames, dataCaseNames, CN.attr]

end YV.Props.C20
