import YV.Spec.XCompile
namespace YV.C05
theorem placeholder : True := trivial
end YV.C05
