/-
  C05 — XPath compilation and execution are total and report failures faithfully.  Headline theorems.
-/
import YV.Proofs.XRun
import YV.Proofs.XTotal
import YV.Proofs.XBytes
namespace YV.C05
open YV YV.X YV.XP YV.XM YV.XL

/-- Running any compiled machine (every program the builders emit ends with `store`) on any tree with any
    injected fault yields a value or an error, never both and never neither. -/
theorem C05_run_value_xor_error (fx : Bool) (t : Tree) (p : List PI) :
    let o := run fx t (p ++ [.store])
    (o.value.isSome = true ∧ o.err.isNone = true) ∨ (o.value.isNone = true ∧ o.err.isSome = true) :=
  run_value_xor_error fx t p

/-- The error of the first failing instruction is the error of the run: once the data tree has reported
    an error no later instruction replaces it with an unrelated internal one. -/
theorem C05_first_error_wins (fx : Bool) (t : Tree) (p q : List PI) (i : PI) (s : MSt) (f : Fail)
    (hp : execTrace fx t p {} = (s, none)) (hi : step fx t i s = .error f) :
    (run fx t (p ++ i :: q)).err = some f.err ∧ (run fx t (p ++ i :: q)).value = none :=
  run_first_error fx t p q i s f hp hi

/-- A failing data-tree callback is reported as the tree's error. -/
theorem C05_callback_error (t : Tree) (what : String) (s : MSt) (f : Fail)
    (h : callback t what s = .error f) : f.err = .tree s!"injected-fault-{t.failAt}" := by
  simp only [callback] at h
  split at h
  · injection h with h; simp [← h]
  · simp [pure, Except.pure] at h

/-- **building a machine is total**: for every byte string, every grammar and every prefix map the outcome
    is a machine, an error, or the modelled panic of the unrepaired position arithmetic — never a parser
    that runs on: every call that recurses without having consumed a token is one of a bounded chain
    (eleven mutually recursive functions for must/when, six for leafref paths; invariant carried by
    induction on the fuel) -/
theorem C05_build_total (strict fixed : Bool) (g : Grammar) (pm : PfxMap) (bs : List Nat) :
    build strict fixed g pm bs ≠ .diverge := by
  unfold build
  split
  · simp
  · simp only []
    split
    · rename_i heq
      exfalso
      cases g
      all_goals first
        | exact parseLeafrefToks_nofuel _ heq
        | exact parseExprToks_nofuel strict _ heq
    · generalize (Int.ofNat bs.length - Int.ofNat _ : Int) = mark
      by_cases hm : mark < 0 <;> simp [hm]
    · split <;> simp

/-- **the error marks a position inside the expression** (after the repair of `CommonLex.Error`): for every
    byte string, every grammar and prefix map, building never hits the out-of-range slice of `CreateProgram`,
    and the index at which an error splits the expression lies between 0 and its length — the lexer never
    claims more unread bytes than the expression has (byte accounting through every lexer function: what
    `next` hands out it has taken off the account, what is put back was handed out just before, a decoded
    rune re-encodes to at most the bytes it was read from) -/
theorem C05_error_position_inside (strict : Bool) (g : Grammar) (pm : PfxMap) (bs : List Nat) :
    (∀ why, build strict true g pm bs ≠ .panic why) ∧
    (∀ mark kind, build strict true g pm bs = .error mark kind → 0 ≤ mark ∧ mark ≤ bs.length) :=
  build_mark strict g pm bs

/-- non-vacuity: a tree whose first callback fails makes `evalLocPath` fail with the tree's error -/
example : (run true { value := fun _ => .emptyNodeset, failAt := 1, derefTarget := id }
            [.namePush [] [97], .evalLocPath, .store]).err = some (.tree "injected-fault-1") := by decide

end YV.C05
