/-
  Props.C17 — schema path validation walks the tree exactly.
-/
import YV.Proofs.YPath
namespace YV.Props.C17
open YV YV.Y YV.SC YV.SS

variable {τ : Type}

/-- acceptance, stated as a relation: which token paths walk a data view -/
inductive Accepts (sem : TySem τ) (ai : Bool) : V τ → List Tok → Prop
  | leafEnd {ty} : (sem.isEmpty ty = true ∨ ai = true) → Accepts sem ai (.leaf ty) []
  | leafValue {ty v} : valueOK sem ty v = true → Accepts sem ai (.leaf ty) [v]
  | leafListEnd {ty} : ai = true → Accepts sem ai (.leafList ty) []
  | leafListValue {ty v} : valueOK sem ty v = true → Accepts sem ai (.leafList ty) [v]
  | contEnd {pr kids} : (pr = true ∨ ai = true) → Accepts sem ai (.cont pr kids) []
  | contStep {pr kids h c t} : assoc h kids = some c → Accepts sem ai c t → Accepts sem ai (.cont pr kids) (h :: t)
  | listEnd {key kids} : ai = true → Accepts sem ai (.list key kids) []
  | listEntry {kty kids kv} : valueOK sem kty kv = true → Accepts sem ai (.list (some kty) kids) [kv]
  | listStep {kty kids kv h c t} : valueOK sem kty kv = true → assoc h kids = some c → Accepts sem ai c t →
      Accepts sem ai (.list (some kty) kids) (kv :: h :: t)

theorem walkS_ok_of_accepts (sem : TySem τ) (ai : Bool) {v : V τ} {p : List Tok} (h : Accepts sem ai v p) :
    ∀ k, walkS sem ai v k p = .ok := by
  induction h with
  | leafEnd h => intro k; rw [walkS]; rcases h with h | h <;> simp [leafS, h]
  | leafValue h => intro k; rw [walkS]; simp [leafS, h]
  | leafListEnd h => intro k; rw [walkS]; simp [leafS, h]
  | leafListValue h => intro k; rw [walkS]; simp [leafS, h]
  | contEnd h => intro k; rw [walkS.eq_def]; rcases h with h | h <;> simp [h]
  | contStep ha _ ih => intro k; rw [walkS.eq_def]; simp [ha, ih]
  | listEnd h => intro k; rw [walkS.eq_def]; simp [h]
  | listEntry h => intro k; rw [walkS.eq_def]; simp [h]
  | listStep hv ha _ ih => intro k; rw [walkS.eq_def]; simp [hv, ha, ih]

theorem accepts_of_walkS_ok (sem : TySem τ) (ai : Bool) :
    ∀ (n : Nat) (p : List Tok), p.length = n → ∀ (v : V τ) (k : Nat), walkS sem ai v k p = .ok → Accepts sem ai v p := by
  intro n
  induction n using Nat.strongRecOn with
  | _ n ih =>
    intro p hp v k hw
    cases v with
    | notData => rw [walkS] at hw; cases hw
    | leaf ty =>
      rw [walkS] at hw
      match p, hw with
      | [], hw =>
        simp only [leafS] at hw
        by_cases h : (!!sem.isEmpty ty || ai) = true
        · simp at h; exact .leafEnd h
        · rw [if_neg h] at hw; cases hw
      | [v], hw =>
        simp only [leafS] at hw
        by_cases h : valueOK sem ty v = true
        · exact .leafValue h
        · simp [h] at hw
      | v :: _ :: _, hw =>
        simp only [leafS] at hw
        by_cases h : valueOK sem ty v = true <;> simp [h] at hw
    | leafList ty =>
      rw [walkS] at hw
      match p, hw with
      | [], hw =>
        simp only [leafS] at hw
        by_cases h : ai = true
        · exact .leafListEnd h
        · simp [h] at hw
      | [v], hw =>
        simp only [leafS] at hw
        by_cases h : valueOK sem ty v = true
        · exact .leafListValue h
        · simp [h] at hw
      | v :: _ :: _, hw =>
        simp only [leafS] at hw
        by_cases h : valueOK sem ty v = true <;> simp [h] at hw
    | cont pr kids =>
      rw [walkS.eq_def] at hw
      match p, hp, hw with
      | [], _, hw =>
        by_cases h : (pr || ai) = true
        · simp at h; exact .contEnd h
        · simp [h] at hw
      | h :: t, hp, hw =>
        simp only [] at hw
        cases ha : assoc h kids with
        | none => simp [ha] at hw
        | some c =>
          simp only [ha] at hw
          exact .contStep ha (ih t.length (by simp at hp; omega) t rfl c _ hw)
    | list key kids =>
      rw [walkS.eq_def] at hw
      match p, hp, hw with
      | [], _, hw =>
        by_cases h : ai = true
        · exact .listEnd h
        · simp [h] at hw
      | kv :: rest, hp, hw =>
        simp only [] at hw
        cases key with
        | none => simp at hw
        | some kty =>
          simp only [] at hw
          by_cases hv : valueOK sem kty kv = true
          · simp only [hv, Bool.not_true, Bool.false_eq_true, if_false] at hw
            match rest, hp, hw with
            | [], _, _ => exact .listEntry hv
            | h :: t, hp, hw =>
              simp only [] at hw
              cases ha : assoc h kids with
              | none => simp [ha] at hw
              | some c =>
                simp only [ha] at hw
                exact .listStep hv ha (ih t.length (by simp at hp; omega) t rfl c _ hw)
          · simp [hv] at hw

/-- **C17 (specification = relation).** The left-to-right judgement accepts exactly the paths that walk
    the data view. -/
theorem C17_spec_iff (sem : TySem τ) (ai : Bool) (v : V τ) (k : Nat) (p : List Tok) :
    walkS sem ai v k p = .ok ↔ Accepts sem ai v p :=
  ⟨accepts_of_walkS_ok sem ai p.length p rfl v k, fun h => walkS_ok_of_accepts sem ai h k⟩

/-- **C17 (the error names the first offending element).** When the specification rejects a path at
    index `k`, the tokens before `k` are themselves a path that walks the view (as an incomplete path):
    nothing before the reported element is wrong. -/
theorem C17_first_offender (sem : TySem τ) (ai : Bool) :
    ∀ (n : Nat) (p : List Tok), p.length = n → ∀ (v : V τ) (k0 k : Nat) (why : Why),
      walkS sem ai v k0 p = .bad k why →
        k0 ≤ k ∧ k ≤ k0 + p.length ∧ walkS sem true v k0 (p.take (k - k0)) = .ok := by
  intro n
  induction n using Nat.strongRecOn with
  | _ n ih =>
    intro p hp v k0 k why hw
    cases v with
    | notData => rw [walkS] at hw; cases hw
    | leaf ty =>
      rw [walkS] at hw
      match p, hw with
      | [], hw =>
        simp only [leafS] at hw
        split at hw
        · cases hw
        · cases hw; refine ⟨Nat.le_refl _, by simp, ?_⟩; simp [walkS, leafS]
      | [v], hw =>
        simp only [leafS] at hw
        split at hw
        · cases hw
        · cases hw; refine ⟨Nat.le_refl _, by simp, ?_⟩; simp [walkS, leafS]
      | v :: x :: r, hw =>
        simp only [leafS] at hw
        split at hw
        · rename_i hv; cases hw; refine ⟨by omega, by simp, ?_⟩
          simp [walkS, leafS, hv]
        · cases hw; refine ⟨Nat.le_refl _, by simp, ?_⟩; simp [walkS, leafS]
    | leafList ty =>
      rw [walkS] at hw
      match p, hw with
      | [], hw =>
        simp only [leafS] at hw
        split at hw
        · cases hw
        · cases hw; refine ⟨Nat.le_refl _, by simp, ?_⟩; simp [walkS, leafS]
      | [v], hw =>
        simp only [leafS] at hw
        split at hw
        · cases hw
        · cases hw; refine ⟨Nat.le_refl _, by simp, ?_⟩; simp [walkS, leafS]
      | v :: x :: r, hw =>
        simp only [leafS] at hw
        split at hw
        · rename_i hv; cases hw; refine ⟨by omega, by simp, ?_⟩
          simp [walkS, leafS, hv]
        · cases hw; refine ⟨Nat.le_refl _, by simp, ?_⟩; simp [walkS, leafS]
    | cont pr kids =>
      rw [walkS.eq_def] at hw
      match p, hp, hw with
      | [], _, hw =>
        simp only [] at hw
        split at hw
        · cases hw
        · cases hw; refine ⟨Nat.le_refl _, by simp, ?_⟩; rw [walkS.eq_def]; simp
      | h :: t, hp, hw =>
        simp only [] at hw
        cases ha : assoc h kids with
        | none =>
          simp only [ha] at hw; cases hw
          refine ⟨Nat.le_refl _, by simp, ?_⟩; rw [walkS.eq_def]; simp
        | some c =>
          simp only [ha] at hw
          obtain ⟨h1, h2, h3⟩ := ih t.length (by simp at hp; omega) t rfl c (k0 + 1) k why hw
          refine ⟨by omega, by simp; omega, ?_⟩
          have : k - k0 = (k - (k0 + 1)) + 1 := by omega
          rw [this, List.take_succ_cons, walkS.eq_def]
          simp [ha, h3]
    | list key kids =>
      rw [walkS.eq_def] at hw
      match p, hp, hw with
      | [], _, hw =>
        simp only [] at hw
        split at hw
        · cases hw
        · cases hw; refine ⟨Nat.le_refl _, by simp, ?_⟩; rw [walkS.eq_def]; simp
      | kv :: rest, hp, hw =>
        simp only [] at hw
        cases key with
        | none => simp at hw
        | some kty =>
          simp only [] at hw
          by_cases hv : valueOK sem kty kv = true
          · simp only [hv, Bool.not_true, Bool.false_eq_true, if_false] at hw
            match rest, hp, hw with
            | [], _, hw => cases hw
            | h :: t, hp, hw =>
              simp only [] at hw
              cases ha : assoc h kids with
              | none =>
                simp only [ha] at hw; cases hw
                refine ⟨by omega, by simp, ?_⟩
                have : k0 + 1 - k0 = 1 := by omega
                rw [this, walkS.eq_def]; simp [hv]
              | some c =>
                simp only [ha] at hw
                obtain ⟨h1, h2, h3⟩ := ih t.length (by simp at hp; omega) t rfl c (k0 + 2) k why hw
                refine ⟨by omega, by simp; omega, ?_⟩
                have : k - k0 = (k - (k0 + 2)) + 1 + 1 := by omega
                rw [this, List.take_succ_cons, List.take_succ_cons, walkS.eq_def]
                simp [hv, ha, h3]
          · have hv' : valueOK sem kty kv = false := by simpa using hv
            simp only [hv', Bool.not_false, if_true] at hw
            cases hw
            refine ⟨Nat.le_refl _, by simp, ?_⟩; rw [walkS.eq_def]; simp

/-- **C17.** For every schema, every token path and both modes, the walker over the compiled child maps
    (`tree.Validate` and the per-node `Validate` methods) gives the verdict of the specification over the
    data view — acceptance, and for a rejection the index of the offending token and the reason.  Choice
    and case nodes are transparent because the view has none. -/
theorem C17_walk (sem : TySem τ) (ai : Bool) (top : List (SN τ)) (p : List Tok) :
    proj (vtree sem ai top p) = walkTop sem ai top p := by
  cases p with
  | nil => simp [vtree, walkTop, proj]
  | cons h t =>
    simp only [vtree, walkTop, assoc_viewKids]
    cases hl : lookup h (dataKids top) with
    | none => simp [proj]
    | some c =>
      have := proj_vnode sem ai t.length t rfl c [h]
      simpa using this

/-- the same with unions as leaf types (a value is accepted iff a member accepts it: `unionSem`): the theorem is about
    any type semantics -/
theorem C17_walk_union (sem : TySem τ) (ai : Bool) (top : List (SN (List τ))) (p : List Tok) :
    proj (vtree (unionSem sem) ai top p) = walkTop (unionSem sem) ai top p := C17_walk (unionSem sem) ai top p

/-- accepted by the code iff it walks the data view -/
theorem C17_accept_iff (sem : TySem τ) (ai : Bool) (top : List (SN τ)) (p : List Tok) :
    vtree sem ai top p = .ok () ↔ walkTop sem ai top p = .ok := by
  rw [← C17_walk]
  cases h : vtree sem ai top p with
  | ok u => cases u; simp [proj]
  | error e => simp [proj_error_ne_ok]

/-! non-vacuity: a schema with a leaf inside a case of a choice inside a container; the choice and case
    names are not path elements, the leaf is reached directly, a wrong value is reported at index 2 -/
def boolSem : TySem Bool := { accepts := fun _ v => v = [1], isEmpty := fun b => b }
def demo : List (SN Bool) :=
  [.container [10] false [.choice [20] false none [.case [30] [.leaf [40] false none false]]]]

example : vtree boolSem false demo [[10], [40], [1]] = .ok () := by
  simp [vtree, vnode, demo, lookup, dataKids, caseKids, SN.children, SN.kids, SN.name, leafTail, typeCheck, boolSem]
example : walkTop boolSem false demo [[10], [40], [2]] = .bad 2 .value := by
  simp [walkTop, walkS, demo, viewKids, viewCases, view, assoc, SN.name, leafS, valueOK, boolSem]
example : walkTop boolSem false demo [[10], [20]] = .bad 1 .unknown := by
  simp [walkTop, walkS, demo, viewKids, viewCases, view, assoc, SN.name, leafS, valueOK, boolSem]
example : walkTop boolSem false demo [[10]] = .bad 1 .incomplete ∧ walkTop boolSem true demo [[10]] = .ok := by
  simp [walkTop, walkS, demo, viewKids, viewCases, view, assoc, SN.name, leafS, valueOK, boolSem]

end YV.Props.C17
