/-
  Props.C11 — schema compilation is total and deterministic (the part a theorem can carry).

  The compiler's cycle checks for features, groupings and typedefs are (after the repairs) one scheme: a
  depth-first walk that remembers the chain of references leading to the definition it looks at.  For that
  scheme, over every reference graph: it reports a cycle only if the definition really reaches one (no
  acyclic input — diamonds included — is rejected), and it accepts only if no cycle can be reached (every
  cycle is reported).  The walk's depth is bounded by the length of the chain, which holds distinct
  definitions: that is why the repaired code terminates where the old code overflowed the stack.
  On a finite set of definitions the walk always answers (`C11_walk_total`, with the fuel it needs), and what
  it answers is a property of the reference graph alone (`C11_verdict_is_graph_property`): the order in
  which a definition lists its references — which is where the order of modules, statements and Go map
  iteration enters these checks — cannot change it (`C11_order_independent`).
  Determinism of the rest of the compiler across Go map orders is not a property of a Lean function (every
  Lean function is one): it is checked by repeated compiles of the same module set in the correspondence stream.
-/
import YV.Proofs.YCycleT
namespace YV.Props.C11
open YV.Cyc

variable {α : Type} [DecidableEq α]

/-- **C11 (no false cycle).** -/
theorem C11_cycle_sound (succ : α → List α) (fuel : Nat) (n : α) (h : walk succ fuel [] n = .cycle) :
    ReachesCycle succ n := walk_sound succ fuel n h

/-- **C11 (every cycle is reported).** -/
theorem C11_cycle_complete (succ : α → List α) (fuel : Nat) (n : α) (h : walk succ fuel [] n = .ok) :
    ¬ ReachesCycle succ n := walk_ok_acyclic succ fuel [] n h

/-- the chain never repeats a definition: the depth of the walk is at most the number of definitions -/
theorem C11_chain_nodup (succ : α → List α) (fuel : Nat) (chain : List α) (n : α) (hc : chain.Nodup)
    (h : walk succ (fuel + 1) chain n ≠ .cycle) : (n :: chain).Nodup := by
  simp only [walk] at h
  by_cases hn : n ∈ chain
  · simp [hn] at h
  · exact List.nodup_cons.2 ⟨hn, hc⟩

/-- **C11 (total).** Over a finite set of definitions closed under references, none of which lists more than
    `D` references, the walk answers "cycle" or "no cycle" once it has `1 + |definitions|·(D+2)` units of
    fuel: the depth is bounded by the chain of distinct definitions -/
theorem C11_walk_total (succ : α → List α) (univ : List α) (D : Nat)
    (hu : ∀ n ∈ univ, ∀ m ∈ succ n, m ∈ univ) (hD : ∀ n ∈ univ, (succ n).length ≤ D)
    (fuel : Nat) (hf : 1 + univ.length * (D + 2) ≤ fuel) (n : α) (hn : n ∈ univ) :
    walk succ fuel [] n ≠ .outOfFuel :=
  walk_enough succ univ D hu hD univ.length fuel [] n List.nodup_nil (by simp) hn (by simp) hf

/-- **C11 (the verdict is the graph's).** -/
theorem C11_verdict_is_graph_property (succ : α → List α) (univ : List α) (D : Nat)
    (hu : ∀ n ∈ univ, ∀ m ∈ succ n, m ∈ univ) (hD : ∀ n ∈ univ, (succ n).length ≤ D)
    (fuel : Nat) (hf : 1 + univ.length * (D + 2) ≤ fuel) (n : α) (hn : n ∈ univ) :
    (walk succ fuel [] n = .cycle ↔ ReachesCycle succ n) ∧ (walk succ fuel [] n = .ok ↔ ¬ ReachesCycle succ n) :=
  walk_verdict succ univ D hu hD fuel hf n hn

/-- **C11 (order independence of the cycle verdict).** Two listings of the same references — any
    reordering or repetition inside each definition — get the same verdict whenever both walks answer (and by
    `C11_walk_total` they do) -/
theorem C11_order_independent (succ succ' : α → List α) (hsame : ∀ n m, m ∈ succ n ↔ m ∈ succ' n)
    (fuel fuel' : Nat) (n : α) (h : walk succ fuel [] n ≠ .outOfFuel) (h' : walk succ' fuel' [] n ≠ .outOfFuel) :
    walk succ fuel [] n = walk succ' fuel' [] n := by
  cases hw : walk succ fuel [] n with
  | outOfFuel => exact absurd hw h
  | ok =>
    cases hw' : walk succ' fuel' [] n with
    | outOfFuel => exact absurd hw' h'
    | ok => rfl
    | cycle =>
      exact absurd ((walk_sound succ' fuel' n hw').congr fun a b hb => (hsame a b).2 hb)
        (walk_ok_acyclic succ fuel [] n hw)
  | cycle =>
    cases hw' : walk succ' fuel' [] n with
    | outOfFuel => exact absurd hw' h'
    | cycle => rfl
    | ok =>
      exact absurd ((walk_sound succ fuel n hw).congr fun a b hb => (hsame a b).1 hb)
        (walk_ok_acyclic succ' fuel' [] n hw')

/-! non-vacuity: a diamond is accepted, a two-cycle and a self reference are reported -/
def diamond : Nat → List Nat | 1 => [2, 3] | 2 => [4] | 3 => [4] | _ => []
def twoCycle : Nat → List Nat | 1 => [2] | 2 => [1] | _ => []
example : walk diamond 10 [] 1 = .ok := by decide
example : walk twoCycle 10 [] 1 = .cycle := by decide
example : walk (fun _ => [7]) 10 [] 7 = .cycle := by decide
def diamond' : Nat → List Nat | 1 => [3, 2, 3] | 2 => [4] | 3 => [4] | _ => []
example : walk diamond 10 [] 1 = walk diamond' 12 [] 1 :=
  C11_order_independent diamond diamond' (by intro n m; unfold diamond diamond'; split <;> simp; omega) 10 12 1
    (by decide) (by decide)
example : walk diamond 17 [] 1 ≠ .outOfFuel :=
  C11_walk_total diamond [1, 2, 3, 4] 2 (by decide) (by decide) 17 (by decide) 1 (by decide)

end YV.Props.C11
