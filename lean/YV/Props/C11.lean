/-
  Props.C11 — schema compilation is total and deterministic (the part a theorem can carry).

  The compiler's cycle checks for features, groupings and typedefs are (after the repairs) one scheme: a
  depth-first walk that remembers the chain of references leading to the definition it looks at.  For that
  scheme, over every reference graph: it reports a cycle only if the definition really reaches one (no
  acyclic input — diamonds included — is rejected), and it accepts only if no cycle can be reached (every
  cycle is reported).  The walk's depth is bounded by the length of the chain, which holds distinct
  definitions: that is why the repaired code terminates where the old code overflowed the stack.
  Determinism across Go map orders is not a property of a Lean function (every Lean function is one): it is
  checked by repeated compiles of the same module set in the correspondence stream.
-/
import YV.Proofs.YCycle
namespace YV.Props.C11
open YV.Cyc

variable {α : Type} [DecidableEq α]

/-- **C11 (no false cycle).** -/
theorem C11_cycle_sound (succ : α → List α) (fuel : Nat) (n : α) (h : walk succ fuel [] n = .cycle) :
    ReachesCycle succ n := walk_sound succ fuel n h

/-- **C11 (every cycle is reported).** -/
theorem C11_cycle_complete (succ : α → List α) (fuel : Nat) (n : α) (h : walk succ fuel [] n = .ok) :
    ¬ ReachesCycle succ n := walk_ok_acyclic succ fuel [] n h

/-- the chain never repeats a definition: the depth of the walk is at most the number of definitions -/
theorem C11_chain_nodup (succ : α → List α) (fuel : Nat) (chain : List α) (n : α) (hc : chain.Nodup)
    (h : walk succ (fuel + 1) chain n ≠ .cycle) : (n :: chain).Nodup := by
  simp only [walk] at h
  by_cases hn : n ∈ chain
  · simp [hn] at h
  · exact List.nodup_cons.2 ⟨hn, hc⟩

/-! non-vacuity: a diamond is accepted, a two-cycle and a self reference are reported -/
def diamond : Nat → List Nat | 1 => [2, 3] | 2 => [4] | 3 => [4] | _ => []
def twoCycle : Nat → List Nat | 1 => [2] | 2 => [1] | _ => []
example : walk diamond 10 [] 1 = .ok := by decide
example : walk twoCycle 10 [] 1 = .cycle := by decide
example : walk (fun _ => [7]) 10 [] 7 = .cycle := by decide

end YV.Props.C11
