/-
  SF64 — a soft IEEE-754 binary64, integers only (core Lean, no Mathlib).

  A value is `nan`, `inf neg`, or `fin neg m e` meaning (-1)^neg · m · 2^e in canonical form:
  m < 2^53, e ≥ -1074, e ≤ 971, and (2^52 ≤ m  or  e = -1074).  Zero is `fin neg 0 (-1074)`.
  Every arithmetic operation computes the exact rational result and rounds it once with
  `roundQ` (round to nearest, ties to even), which is what IEEE-754 prescribes and what
  Go's float64 `+ - * /`, `math.Mod/Floor/Ceil/Trunc`, `strconv.ParseFloat` (correctly rounded)
  do on amd64/arm64.  That agreement is *checked* by the correspondence harness (bit patterns).
-/
namespace YV

inductive SF where
  | nan
  | inf (neg : Bool)
  | fin (neg : Bool) (m : Nat) (e : Int)
  deriving DecidableEq, Repr, Inhabited

namespace SF

def minE : Int := -1074
def maxE : Int := 971
def two52 : Nat := 4503599627370496
def two53 : Nat := 9007199254740992

def zero (neg : Bool := false) : SF := .fin neg 0 minE
def one : SF := .fin false two52 (-52)

def isNaN : SF → Bool | .nan => true | _ => false
def isInf : SF → Bool | .inf _ => true | _ => false
def isZero : SF → Bool | .fin _ 0 _ => true | _ => false
def signBit : SF → Bool | .nan => false | .inf s => s | .fin s _ _ => s

/-- round-half-even of a/b (b > 0) -/
def rne (a b : Nat) : Nat :=
  let q := a / b
  let r := a % b
  if 2 * r < b then q
  else if 2 * r > b then q + 1
  else if q % 2 = 0 then q else q + 1

/-- 2^k for integer k ≥ 0 as Nat (0 for negative — never used that way) -/
def pow2 (k : Int) : Nat := 2 ^ k.toNat

/-- scale the fraction n/d by 2^s, keeping numerator and denominator natural -/
def scaleFrac (n d : Nat) (s : Int) : Nat × Nat :=
  if s ≥ 0 then (n * pow2 s, d) else (n, d * pow2 (-s))

/-- Given value v = (n/d)·2^e > 0 and a candidate exponent E, adjust E so that
    2^52 ≤ v/2^E < 2^53 (one step down or up), then clamp at `minE`. -/
def fixExp (n d : Nat) (e : Int) (E : Int) : Int :=
  let (num, den) := scaleFrac n d (e - E)
  let E1 := if num < two52 * den then E - 1 else if num ≥ two53 * den then E + 1 else E
  let (num1, den1) := scaleFrac n d (e - E1)
  let E2 := if num1 < two52 * den1 then E1 - 1 else if num1 ≥ two53 * den1 then E1 + 1 else E1
  if E2 < minE then minE else E2

/-- Round the exact non-negative rational (n/d)·2^e (d > 0) to binary64, nearest-even. -/
def roundQ (neg : Bool) (n d : Nat) (e : Int) : SF :=
  if n = 0 then .fin neg 0 minE
  else
    let k : Int := (Int.ofNat n.log2) - (Int.ofNat d.log2) + e
    let E := fixExp n d e (k - 52)
    let (num, den) := scaleFrac n d (e - E)
    let q := rne num den
    let (q, E) := if q = two53 then (two52, E + 1) else (q, E)
    if E > maxE then .inf neg else .fin neg q E

def ofNat (n : Nat) : SF := roundQ false n 1 0
def ofInt (i : Int) : SF := roundQ (i < 0) i.natAbs 1 0

def neg : SF → SF
  | .nan => .nan
  | .inf s => .inf (!s)
  | .fin s m e => .fin (!s) m e

def abs : SF → SF
  | .nan => .nan
  | .inf _ => .inf false
  | .fin _ m e => .fin false m e

/-- signed integer numerator of a finite value over the common scale 2^emin -/
def scaledInt (s : Bool) (m : Nat) (e emin : Int) : Int :=
  let v : Int := Int.ofNat (m * pow2 (e - emin))
  if s then -v else v

def add : SF → SF → SF
  | .nan, _ => .nan
  | _, .nan => .nan
  | .inf s, .inf t => if s = t then .inf s else .nan
  | .inf s, .fin .. => .inf s
  | .fin .., .inf t => .inf t
  | .fin s1 m1 e1, .fin s2 m2 e2 =>
    let emin := if e1 ≤ e2 then e1 else e2
    let N := scaledInt s1 m1 e1 emin + scaledInt s2 m2 e2 emin
    if N = 0 then
      -- exact zero: -0 only when both addends are negative (zeros or not; only zeros can be)
      .fin (s1 && s2) 0 minE
    else roundQ (N < 0) N.natAbs 1 emin

def sub (a b : SF) : SF := add a (neg b)

def mul : SF → SF → SF
  | .nan, _ => .nan
  | _, .nan => .nan
  | .inf s, .inf t => .inf (s != t)
  | .inf s, .fin t m _ => if m = 0 then .nan else .inf (s != t)
  | .fin s m _, .inf t => if m = 0 then .nan else .inf (s != t)
  | .fin s1 m1 e1, .fin s2 m2 e2 => roundQ (s1 != s2) (m1 * m2) 1 (e1 + e2)

def div : SF → SF → SF
  | .nan, _ => .nan
  | _, .nan => .nan
  | .inf _, .inf _ => .nan
  | .inf s, .fin t _ _ => .inf (s != t)
  | .fin s _ _, .inf t => .fin (s != t) 0 minE
  | .fin s1 m1 e1, .fin s2 m2 e2 =>
    if m2 = 0 then (if m1 = 0 then .nan else .inf (s1 != s2))
    else roundQ (s1 != s2) m1 m2 (e1 - e2)

/-- C `fmod` / Go `math.Mod`: exact remainder with the sign of the dividend. -/
def fmod : SF → SF → SF
  | .nan, _ => .nan
  | _, .nan => .nan
  | .inf _, _ => .nan
  | .fin s m e, .inf _ => .fin s m e
  | .fin s1 m1 e1, .fin _ m2 e2 =>
    if m2 = 0 then .nan
    else if m1 = 0 then .fin s1 0 minE
    else
      let emin := if e1 ≤ e2 then e1 else e2
      let a := m1 * pow2 (e1 - emin)
      let b := m2 * pow2 (e2 - emin)
      roundQ s1 (a % b) 1 emin

/-- integer part toward zero, as (magnitude, exact?) -/
def truncMag (m : Nat) (e : Int) : Nat × Bool :=
  if e ≥ 0 then (m * pow2 e, true)
  else
    let p := pow2 (-e)
    (m / p, m % p = 0)

def trunc : SF → SF
  | .fin s m e => let (i, _) := truncMag m e; roundQ s i 1 0
  | x => x

def floor : SF → SF
  | .fin s m e =>
    let (i, exact) := truncMag m e
    if s && !exact then roundQ true (i + 1) 1 0 else roundQ s i 1 0
  | x => x

def ceil : SF → SF
  | .fin s m e =>
    let (i, exact) := truncMag m e
    if !s && !exact then roundQ false (i + 1) 1 0 else roundQ s i 1 0
  | x => x

/-- exact comparison of finite values as signed integers over a common scale -/
def cmpFin (s1 : Bool) (m1 : Nat) (e1 : Int) (s2 : Bool) (m2 : Nat) (e2 : Int) : Ordering :=
  let emin := if e1 ≤ e2 then e1 else e2
  compare (scaledInt s1 m1 e1 emin) (scaledInt s2 m2 e2 emin)

/-- IEEE ordered comparison; `none` when unordered (a NaN is involved). -/
def cmp : SF → SF → Option Ordering
  | .nan, _ => none
  | _, .nan => none
  | .inf s, .inf t => some (if s = t then .eq else if s then .lt else .gt)
  | .inf s, .fin .. => some (if s then .lt else .gt)
  | .fin .., .inf t => some (if t then .gt else .lt)
  | .fin s1 m1 e1, .fin s2 m2 e2 => some (cmpFin s1 m1 e1 s2 m2 e2)

def feq (a b : SF) : Bool := cmp a b == some .eq      -- Go `==`
def flt (a b : SF) : Bool := cmp a b == some .lt      -- Go `<`
def fle (a b : SF) : Bool := match cmp a b with | some .lt => true | some .eq => true | _ => false
def fgt (a b : SF) : Bool := cmp a b == some .gt
def fge (a b : SF) : Bool := match cmp a b with | some .gt => true | some .eq => true | _ => false
def fne (a b : SF) : Bool := !(feq a b)               -- Go `!=` (true when unordered)

/-! ### bits -/

def toBits : SF → Nat
  | .nan => 0x7ff8000000000001      -- Go's math.NaN() pattern; all NaNs are identified on input
  | .inf s => (if s then 2^63 else 0) + 0x7ff0000000000000
  | .fin s m e =>
    (if s then 2^63 else 0) +
      (if m < two52 then m else ((e + 1075).toNat) * two52 + (m - two52))

def ofBits (b : Nat) : SF :=
  let s := (b / 2^63) % 2 = 1
  let ex := (b / two52) % 2048
  let fr := b % two52
  if ex = 2047 then (if fr = 0 then .inf s else .nan)
  else if ex = 0 then .fin s fr minE
  else .fin s (two52 + fr) (Int.ofNat ex - 1075)

/-! ### decimal conversion -/

/-- value of the decimal `digits · 10^exp10` (digits as a natural number), correctly rounded -/
def ofDecimal (neg : Bool) (digits : Nat) (exp10 : Int) : SF :=
  if exp10 ≥ 0 then roundQ neg (digits * 10 ^ exp10.toNat) 1 0
  else roundQ neg digits (10 ^ (-exp10).toNat) 0

/-- number of decimal digits of n (n > 0); 0 for 0 -/
def ndigits (n : Nat) : Nat := (toString n).length

/-- For positive finite x = m·2^e: the `k`-significant-digit decimals just below / above:
    returns (dlo, dhi, p) meaning dlo·10^p ≤ x ≤ dhi·10^p with dlo,dhi having ≤ k digits (dhi may be 10^k). -/
def kDigitBracket (m : Nat) (e : Int) (k : Nat) (p : Int) : Nat × Nat :=
  -- x / 10^p as a fraction num/den
  let (n0, d0) := if e ≥ 0 then (m * pow2 e, 1) else (m, pow2 (-e))
  let (num, den) := if p ≥ 0 then (n0, d0 * 10 ^ p.toNat) else (n0 * 10 ^ (-p).toNat, d0)
  let lo := num / den
  let hi := if num % den = 0 then lo else lo + 1
  let _ := k
  (lo, hi)

/-- decimal exponent p10 with 10^p10 ≤ x < 10^(p10+1), for positive finite x = m·2^e -/
def decExp (m : Nat) (e : Int) : Int :=
  let (n0, d0) := if e ≥ 0 then (m * pow2 e, 1) else (m, pow2 (-e))
  if n0 ≥ d0 then Int.ofNat (ndigits (n0 / d0)) - 1
  else
    -- x < 1: find smallest j ≥ 1 with x·10^j ≥ 1
    let approx := ndigits d0 - ndigits n0      -- j is approx or approx+1 (or approx-1)
    let j0 := if approx = 0 then 1 else approx - 1
    let j0 := if j0 = 0 then 1 else j0
    let ok (j : Nat) : Bool := n0 * 10 ^ j ≥ d0
    let j := if ok j0 then j0 else if ok (j0 + 1) then j0 + 1 else if ok (j0 + 2) then j0 + 2 else j0 + 3
    Int.neg (Int.ofNat j)

/-- distance-comparison helper: |x - a·10^p| ≤ |x - b·10^p| for x=m·2^e (all exact) -/
def closerOrEq (m : Nat) (e : Int) (p : Int) (a b : Nat) : Bool :=
  let (n0, d0) := if e ≥ 0 then (m * pow2 e, 1) else (m, pow2 (-e))
  let (num, den) := if p ≥ 0 then (n0, d0 * 10 ^ p.toNat) else (n0 * 10 ^ (-p).toNat, d0)
  -- compare |num - a·den| and |num - b·den|
  let da := (Int.ofNat num - Int.ofNat (a * den)).natAbs
  let db := (Int.ofNat num - Int.ofNat (b * den)).natAbs
  da ≤ db

/-- Shortest decimal digits that round-trip (closest to x among the shortest): returns
    (digits d, exponent p) with x ≈ d·10^p, d having no trailing zeros, for positive finite x. -/
def shortestAux (m : Nat) (e : Int) (x : SF) (p10 : Int) : Nat → Nat → Nat × Int
  | 0, _ => (m, e)   -- unreachable: 17 digits always round-trip
  | fuel + 1, k =>
    let p : Int := p10 - (Int.ofNat k) + 1
    let (lo, hi) := kDigitBracket m e k p
    let okLo := lo > 0 && ofDecimal false lo p == x
    let okHi := ofDecimal false hi p == x
    if okLo && okHi then
      (if closerOrEq m e p lo hi && closerOrEq m e p hi lo then (if lo % 2 = 0 then (lo, p) else (hi, p))  -- tie: even digit
       else if closerOrEq m e p lo hi then (lo, p) else (hi, p))
    else if okLo then (lo, p)
    else if okHi then (hi, p)
    else shortestAux m e x p10 fuel (k + 1)

def stripZeros : Nat → Nat → Int → Nat × Int
  | 0, d, p => (d, p)
  | f + 1, d, p => if d ≠ 0 && d % 10 = 0 then stripZeros f (d / 10) (p + 1) else (d, p)

def shortest (m : Nat) (e : Int) : Nat × Int :=
  let x := SF.fin false m e
  let (d, p) := shortestAux m e x (decExp m e) 18 1
  stripZeros 20 d p

end SF
end YV
