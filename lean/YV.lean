import YV.Base.SF64
import YV.Model.XEval
import YV.Model.XLex
import YV.Model.XParse
import YV.Spec.XSem
import YV.Model.XPathM
import YV.Model.YParse
