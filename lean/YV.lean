import YV.Base.SF64
import YV.Model.XEval
import YV.Spec.XSem
