/- yvdrv — line-protocol driver: one JSON case per stdin line, one JSON result per stdout line. -/
import YV.Drv.C01
import YV.Drv.XB
import YV.Drv.C02
import YV.Drv.C03
import YV.Drv.Y
import YV.Drv.T
import YV.Drv.S
import YV.Drv.V
import YV.Drv.Cm
import YV.Drv.Md
import YV.Drv.Xp
import YV.Drv.En
open Lean YV.Drv

def dispatch (j : Json) : List (String × Json) :=
  match jstr j "k" with
  | "c01" => C01.handle j
  | "sf" => C01.handleSF j
  | "xbuild" => XB.handle j
  | "c02" => C02.handle j
  | "c03" => C03.handle j
  | "yparse" => Y.handle j
  | "ytypes" => T.handle j
  | "ypath" => S.handlePath j
  | "ydata" => S.handleData j
  | "yfilter" => Cm.handleFilter j
  | "ycfg" => Cm.handleCfg j
  | "yuses" => Cm.handleUses j
  | "ymods" => Md.handle j
  | "yxp" => Xp.handle j
  | "yenc" => En.handle j
  | "yencfuzz" => En.handleFuzz j
  | "yvals" => V.handle j
  | "rm" =>
    -- re-match() with a plain alphanumeric pattern (unanchored): the subject contains the pattern
    let r := if ((jstr j "s").splitOn (jstr j "p")).length > 1 then "rm:true" else "rm:false"
    [("m", Json.str r), ("s", Json.str r)]
  | "ymkey" =>
    -- lists with several keys are outside the model: the expectation comes with the (fixed) case
    let r := "mk:" ++ jstr j "expect"
    [("m", Json.str r), ("s", Json.str r)]
  | "ydeep" =>
    -- the parser's two recursions are bounded (parse/parse.go maxStmtDepth, maxArgPieces = 10000): a block nested deeper,
    -- an argument of more '+' pieces is refused where the bound is passed; the statement parser of the model has no stack
    let n := jnat j "n"
    let depth := (YV.YT.parseLimits.lookup "maxStmtDepth").getD 0
    let pieces := (YV.YT.parseLimits.lookup "maxArgPieces").getD 0
    let r := match jstr j "shape" with
      | "blocks" => if n > depth then "deep:refused" else "deep:err"       -- (never closed)
      | "closed" => if n - 1 > depth then "deep:refused" else "deep:ok"    -- (n statements, n - 1 blocks)
      | "pieces" => if n > pieces then "deep:refused" else "deep:ok"
      | _ => "deep:ok"
    [("m", Json.str r), ("s", Json.str r)]
  | "un" =>
    -- a union over node sets that are slices of arrays the tree keeps: a new set, the arrays untouched
    [("m", Json.str "un:tree-untouched"), ("s", Json.str "un:tree-untouched")]
  | k => [("m", Json.str ("unknown-kind:" ++ k)), ("s", Json.str "unknown-kind")]

/-- C06: the sub-cases are ordinary c01 / c02 cases; the model's prediction is what each gives in isolation -/
def handleConc (j : Json) : List (String × Json) :=
  let subs := jarr j "subs"
  let outs := subs.map dispatch
  let field (k : String) (o : List (String × Json)) : String :=
    match o.lookup k with | some (.str s) => s | _ => (match o.lookup "m" with | some (.str s) => s | _ => "")
  [("m", Json.str ("\n".intercalate (outs.map (field "m") ++ ["conc:same"]))),
   -- whether the isolated result is the XPath 1.0 value is C01's question; here the specification is
   -- "every run gives what the machine gives in isolation"
   ("s", Json.str ("\n".intercalate (outs.map (field "m") ++ ["conc:same"])))]

def dispatch2 (j : Json) : List (String × Json) :=
  if jstr j "k" = "yconc" then handleConc j else dispatch j

partial def loop (hin : IO.FS.Stream) (hout : IO.FS.Stream) : IO Unit := do
  let line ← hin.getLine
  if line.isEmpty then return ()
  let out := match Json.parse line with
    | .ok j => mkOut (jnat j "id") (dispatch2 j)
    | .error e => mkOut 0 [("m", Json.str ("json-error:" ++ e)), ("s", Json.str "json-error")]
  hout.putStrLn out.compress
  loop hin hout

def main : IO Unit := do
  let hin ← IO.getStdin
  let hout ← IO.getStdout
  loop hin hout
  hout.flush
