#!/bin/bash
# seedtest.sh <patch.diff> <PROP>... : apply a seeded change to /repo, run the quick checks, undo it.
p=$1; shift
cd /repo && git apply "$p" || { echo "patch does not apply"; exit 2; }
for P in "$@"; do
  (cd /verif && timeout 1800 bin/check $P --tier quick 2>&1 | grep "VIOLATION\|done rc" | head -4)
done
cd /repo && git checkout -- . && git status --short | head -3
