#!/usr/bin/env python3
"""Regenerates MANIFEST.json from bin/manifest_src.py (kept as a script so the file is always schema-valid)."""
import json, os, sys
VERIF = os.path.dirname(os.path.dirname(os.path.abspath(__file__)))
sys.path.insert(0, os.path.join(VERIF, "bin"))
import manifest_src as M
props = [json.loads(l)["id"] for l in open(os.path.join(VERIF, "properties.jsonl"))]
checks = []
for pid in props:
    if pid in M.CLAIMED:
        c = M.CLAIMED[pid]
        checks.append({
            "property_id": pid,
            "quick_cmd": f"bin/check {pid} --tier quick",
            "thorough_cmd": f"bin/check {pid} --tier thorough",
            "evidence_file": f"/verif/evidence/{pid}.json",
            "replay_cmd_template": f"bin/check {pid} --replay {{path}}",
            "engine": "lean4+diff",
            "level_claimed": {"category": "proof", "text": c["text"], "design_ref": c.get("design_ref", f"DESIGN.md §6 {pid}")},
            "level_note": c["note"],
            "technique": c["technique"],
        })
na = [{"property_id": p, "reason": M.NOT_APPLICABLE.get(p, "not claimed yet: the Lean model and correspondence stream for this property are still being built")}
      for p in props if p not in M.CLAIMED]
man = {
    "version": 1,
    "setup_cmd": "bin/setup.sh",
    "hooks": {
        "guard": "verif",
        "enable": "go build -tags verif -overlay /verif/build/overlay.json (overlay only injects the goyacc output for leafref.y, which the repository does not ship; no hook files exist in /repo)",
        "baseline_off_cmd": "cd /repo && go test -mod=mod -json -vet=off -count=1 -timeout 25m ./...",
        "source_commits": M.SOURCE_COMMITS,
        "add_only": True,
    },
    "engines": [{"name": "lean4+diff", "path": "/verif/lean", "serves_properties": sorted(M.CLAIMED.keys()),
                 "kind_free_text": "Lean 4 theorems over hand-written executable models + regenerated tables (tools/gen) + differential correspondence (harness/ vs lean/Driver.lean)"}],
    "checks": checks,
    "notes": M.NOTES,
    "not_applicable": na,
}
json.dump(man, open(os.path.join(VERIF, "MANIFEST.json"), "w"), indent=1)
print("claimed:", sorted(M.CLAIMED.keys()))
