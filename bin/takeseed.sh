#!/bin/bash
# takeseed.sh <id> <pkg-with-demo> <TestRegex> : confirm the seeded change of /tmp/seed/<id>, store it under seeded/<id>, remove the worktree
id=$1; pkg=$2; rx=$3; wt=/tmp/seed/$id
demo=$(ls $wt/out/*_test.go | head -1)
cp $demo /tmp/seed_demo_$id.go
/verif/bin/verify_seed.sh $wt $pkg "$rx" > /tmp/verify_$id.log 2>&1
cat /tmp/verify_$id.log
mkdir -p /verif/seeded/$id
cp $wt/out/patch.diff /verif/seeded/$id/patch.diff
cp /tmp/seed_demo_$id.go /verif/seeded/$id/seed_demo_test.go
python3 - "$id" <<'PY'
import json,sys
i=sys.argv[1]
m=json.load(open(f'/tmp/seed/{i}/out/meta.json'))
log=open(f'/tmp/verify_{i}.log').read()
m['confirmed_by_framework_author']=["git apply patch.diff in a scratch worktree of /repo HEAD (plus generated leafref.go)","go build ./... ok","pinned baseline (bin/baseline.py): "+[l for l in log.splitlines() if 'pass' in l.lower() or '133' in l][:1].__str__(),"demo test FAILS with the change","demo test passes with the patch reversed"]
json.dump(m,open(f'/verif/seeded/{i}/meta.json','w'),indent=1,ensure_ascii=False)
PY
