CLAIMED = {
    "C01": {
        "text": "Lean 4 theorems over an executable model of the scalar stack machine (compiler correctness of the postfix code for every nesting depth; conversions/functions as Lean definitions mirroring the Go code) with an independent denotational XPath 1.0 semantics over a soft IEEE-754 binary64 (SF64) as oracle; the model is tied to /repo on every run by differential execution of the real compiler+machine against model and spec (typed random expressions, boundary operands, absent/multi-valued leaves) and of Go float64 primitives against SF64 bit-for-bit.",
        "note": "Trusted: Lean kernel; harness+driver; SF64 = Go float64 (checked by stream 'sf', not proved); mock Entry contract. M = S for round()/number()/string() primitives is checked by correspondence, the machine-vs-tree theorem is proved. Known finding: number('Infinity').",
        "technique": "Lean 4 proof (compiler correctness by structural induction) + differential correspondence model/spec vs real code",
    },
}
NOT_APPLICABLE = {}
SOURCE_COMMITS = []  # no hook commits: all observation points are public API
NOTES = "See DESIGN.md. Every check: regenerate facts from /repo, lake build the property's theorems (+ #print axioms audit), run correspondence streams real-code vs Lean model vs Lean spec."
