CLAIMED = {
    "C01": {
        "text": "Lean 4 theorems over an executable model of the scalar stack machine (compiler correctness of the postfix code for every nesting depth; conversions/functions as Lean definitions mirroring the Go code) with an independent denotational XPath 1.0 semantics over a soft IEEE-754 binary64 (SF64) as oracle; the model is tied to /repo on every run by differential execution of the real compiler+machine against model and spec (typed random expressions, boundary operands, absent/multi-valued leaves) and of Go float64 primitives against SF64 bit-for-bit.",
        "note": "Trusted: Lean kernel; harness+driver; SF64 = Go float64 (checked by stream 'sf', not proved); mock Entry contract. M = S for round()/number()/string() primitives is checked by correspondence, the machine-vs-tree theorem is proved. Known finding: number('Infinity').",
        "technique": "Lean 4 proof (compiler correctness by structural induction) + differential correspondence model/spec vs real code",
    },
    "C02": {
        "text": "Lean 4 theorem that the path/predicate stack machine, run on the code of any supported location path (any number of steps, '..' steps, predicates per step, absolute / current() / '..'-rooted operand paths, nested deref()), issues exactly the Navigate/GetValue/FollowLeafRef requests the specification lists and returns the value of the designated node (invariant over path stack, predicate stack, predicateCount/predicateEvalPath parity); plus predicate-order independence (sorted key map, permutation lemma) and prefix irrelevance. The machine model is tied to /repo by differential execution of the real compiler+machine against a recording mock Entry (model runs through the Lean lexer+parser model of the same text; spec is computed from the syntax tree).",
        "note": "Trusted: Lean kernel; harness+driver; sdcpb.Path helpers modelled; mock Entry contract. Proved for literal/number/path operands with distinct keys per step (C02_nav_partial); function-result operands only tested.",
        "technique": "Lean 4 proof (machine invariant by induction over steps/predicates/operands) + differential correspondence against a recording mock tree",
    },
    "C03": {
        "text": "Regenerated obligation that the productions and actions of xpath.y are those the Lean parser model transcribes (precedence/associativity are read off the productions; goyacc reports no conflicts), Lean lemma that whitespace in front of any token is insignificant, and differential correspondence: each random expression tree is rendered twice (minimal vs full parentheses, two admissible parenthesisations, two whitespace layouts) and the real compiler's two listings and run results are compared with each other, with the Lean lexer+parser model and with the program of the tree.",
        "note": "Trusted: Lean kernel; goyacc LALR driver; harness+driver. Token-level parser correctness (parse∘render = program) is NOT yet a theorem: held by the correspondence stream (testing).",
        "technique": "Lean 4 (regenerated grammar obligation, lexer whitespace lemma) + differential correspondence on paired renderings",
    },
    "C04": {
        "text": "Regenerated Lean obligations (decide) that the function table, token constants, the three token maps, node-type/axis/operator name lists, the tokenCanBeOperator set and every production+action of xpath.y and leafref.y are those the Lean lexer/parser models were transcribed from, that goyacc reports no conflicts and the checked-in tables are fresh; acceptance is then decided by exhaustive small-scope correspondence (EVERY token sequence up to length 3/4 over the full token alphabet, with and without separating blanks, for both grammars) and fuzzing, against the model (exact outcome) and against the strict specification variant (accept/reject).",
        "note": "Trusted: Lean kernel; goyacc LALR driver implements the extracted grammar; harness+driver. The specification is the model with the strictness switches of XPath 1.0 (no exponent, no '( )', no blanks in QNames) — three open known findings. An independent declarative grammar with a soundness/completeness theorem is not yet built.",
        "technique": "Lean 4 (regenerated table/grammar obligations by decide) + exhaustive small-scope differential correspondence",
    },
    "C07": {
        "text": "Lean 4 theorem that the (repaired) YANG lexer state machine terminates on every byte string and always ends its item stream with EOF or Error (induction with the measure 'remaining input', the only loop that had no measure — lexString at end of input — is the defect that was repaired; the unrepaired machine provably diverges on \"module\"), that the parser model never diverges; tied to /repo by differential execution of parse.Parse under a watchdog with a goroutine dump (leaks), over all texts <=3/4 bytes, every prefix of generated modules and random bytes.",
        "note": "Trusted: Lean kernel; harness+driver; Go runtime reaping a finished goroutine. Parser fuel sufficiency and the line:col bounds are not yet theorems (correspondence only).",
        "technique": "Lean 4 proof (lexer termination by induction on remaining input) + exhaustive small-scope / prefix / fuzz differential correspondence with watchdog and goroutine dump",
    },
    "C08": {
        "text": "Lean 4 theorems: the code's Split-on-backslash escape substitution equals the left-to-right scan of the RFC's escapes for every text; escaping a value and decoding it gives the value back for every value (all three quotings, any quote column); the code's column stripping equals the specification's for every line and column. Tied to /repo by (value, quoting, layout) triples spelled into source text, parsed by the real parser and compared with the model and with an independent RFC 6020 §6.1.3 decoder written on the source pieces.",
        "note": "Trusted: Lean kernel; harness+driver. The multi-line composition over all layouts is tested, not proved. RFC 6020 leaves the order of trimming and substitution open: such texts are compared implementation-vs-model only.",
        "technique": "Lean 4 proof (algorithm = specification lemmas, round trip) + differential correspondence on generated source layouts",
    },
    "C09": {
        "text": "Regenerated Lean obligations that every table the checker uses is the one in /repo; a kernel-checked comparison of the code's cardinality table with the RFC 6020 substatement tables cell by cell (decide over the whole table); iff-theorems for the cardinality checker, the section-order automaton and the revision-order check; and an exhaustive correspondence over EVERY (parent, child, multiplicity) triple, all section orders and per-kind argument probes on the real parser, compared with the model and with the RFC table / ABNF.",
        "note": "Trusted: Lean kernel; the hand-written RFC tables; harness+driver; regexp / net/url. Open known finding: nested key paths. Argument lexers: model = ABNF by definition (the repaired code implements the ABNF); the tie is the probe stream.",
        "technique": "Lean 4 (regenerated table obligations, decide +kernel table-vs-RFC comparison, iff proofs) + exhaustive differential correspondence",
    },
    "C10": {
        "text": "Lean 4 lemmas that separators are invisible to the parser (any run of separator items), with the lexer-termination and argument-decoding theorems of C07/C08; tied to /repo by random statement trees spelled with trivia (blanks, line breaks, both comment forms containing statement punctuation) at every token boundary and a random quoting of every argument, the real parser's tree walk compared with the model and with the generated tree including line:column of every keyword.",
        "note": "Trusted: Lean kernel; harness+driver. The full round-trip theorem parse∘spell = id is not proved: held by the correspondence stream (testing).",
        "technique": "Lean 4 (separator-blindness lemma) + differential correspondence on generated trees x layouts x quotings",
    },
    "C05": {
        "text": "Lean 4 theorems over the machine model: every program ending in store runs to a value xor an error; the error of the first failing instruction is the error of the run (a data-tree error is never replaced); a failing callback is reported as the tree's error. Tied to /repo by differential execution: all 1-2 byte inputs and random/mutated byte strings through the three New*Machine constructors under recover (a panic is an observation), and every supported path with the k-th data-tree callback failing for every k.",
        "note": "Trusted: Lean kernel; harness+driver. Build totality (no panic, mark inside the expression) is modelled with explicit panic/diverge outcomes and checked by correspondence; the Lean proof that these outcomes are unreachable (lexer byte-accounting invariant, parser fuel) is not yet done. path_eval: construction totality only.",
        "technique": "Lean 4 proof (run outcome lemmas) + byte-level fuzz and exhaustive fault-position differential correspondence",
    },
    "C13": {
        "text": "Lean 4 theorems over a model of createRangeBdry/validateRangeBoundaries/getDefault/validateRestrictions and the Validate methods: every successful narrowing step yields a subset of its base for any number of parts and any base (fits_sound / stepPart_sound / restrict_sound, generic in the boundary order, contiguity only for integers), lifted over chains of any depth (C13_chain); the default in force is the nearest one and the final type accepts it; restriction kinds per base; regenerated obligations that inttab/uinttab/fdtab/validRestrictions are the tables in /repo. Tied to /repo by compiling generated typedef chains with the real compiler and probing Type.Validate / Type.Default, compared with the model and with an exact value-space specification.",
        "note": "Trusted: Lean kernel; harness+driver; SF64 = float64. Completeness (every subset restriction is accepted) is checked by correspondence only. Patterns are counted, not interpreted. Open known finding: decimal64 boundaries compared as binary64.",
        "technique": "Lean 4 proof (narrowing soundness by induction over parts and chain levels) + regenerated table obligations + differential correspondence on compiled typedef chains",
    },
    "C16": {
        "text": "Lean 4 iff-theorems characterising the model of integer/uinteger/boolean/empty/enumeration/string Validate as exactly the YANG lexical value space (sign, digits, width bounds, multi-part ranges, length in characters), with kernel-checked witnesses for the decimal64 boundary behaviour; model tied to /repo by probing Type.Validate of compiled types with every bound +/- one unit, 18-19 digit values and malformed lexemes, compared with the model (exact outcome) and the exact specification.",
        "note": "Trusted: Lean kernel; harness+driver; SF64 = float64. Not yet modelled: patterns, union, identityref, error path/app-tag. Open known finding: decimal64 ranges compared as binary64.",
        "technique": "Lean 4 proof (value-space characterisation per base type) + differential correspondence on boundary probes",
    },
    "C17": {
        "text": "Lean 4 theorem that, for every schema tree, every token path and both modes, the path walker over the compiled child maps (tree/container/list/leaf/leaf-list Validate, with addChildren flattening choices and cases into the maps) returns exactly the verdict of a specification written over the data view in which choice and case nodes do not exist: acceptance, and for a rejection the index of the offending token and the reason (C17_walk, by induction on the path with a mutual-induction lemma relating map lookup to the view); the specification is shown equal to an inductive acceptance relation (C17_spec_iff) and to name the first offending element (every token before it walks the view: C17_first_offender). Tied to /repo by compiling generated schemas with the real compiler and validating generated/corrupted paths in both modes.",
        "note": "Trusted: Lean kernel; harness+driver; the error projection in bin/check. One fix commit (value checked before a trailing token). Multi-key lists and opd nodes are outside the model.",
        "technique": "Lean 4 proof (walker = specification over the data view, by induction over the path and mutual induction over the schema) + differential correspondence on compiled schemas x corrupted paths",
    },
}
NOT_APPLICABLE = {}
SOURCE_COMMITS = []  # no hook commits: all observation points are public API
NOTES = "See DESIGN.md. Every check: regenerate facts from /repo, lake build the property's theorems (+ #print axioms audit), run correspondence streams real-code vs Lean model vs Lean spec."
