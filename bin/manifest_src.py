CLAIMED = {}
NOT_APPLICABLE = {}
SOURCE_COMMITS = []
NOTES = "See DESIGN.md. Every check: regenerate facts from /repo, lake build the property's theorems (+ #print axioms audit), run correspondence streams real-code vs Lean model vs Lean spec."
