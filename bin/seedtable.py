#!/usr/bin/env python3
"""seedtable.py : rewrites the table of DESIGN.md §9 from seeded/*/meta.json"""
import json,glob,os,re
rows=[]
for d in sorted(glob.glob('/verif/seeded/C*/')):
    sid=os.path.basename(d.rstrip('/'))
    m=json.load(open(d+'meta.json'))
    what=' '.join(m['what_it_breaks'].split())
    if len(what)>230: what=what[:227]+'…'
    det=' '.join(m.get('detection','').split())
    rows.append(f"| {sid} | {m['property']} | {what.replace('|','/')} | {det.replace('|','/')} |")
p='/verif/DESIGN.md'
s=open(p).read()
a=s.index('| id | property | what it breaks | caught by |')
b=s.index('\n\n',a)
s=s[:a]+'| id | property | what it breaks | caught by |\n|---|---|---|---|\n'+'\n'.join(rows)+s[b:]
open(p,'w').write(s)
print(len(rows),'rows')
