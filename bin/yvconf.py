"""Per-property configuration of bin/check: streams with their budgets, trusted base, notes."""

TRUSTED_BASE = [
    "Lean 4.33.0 kernel (lake build); axioms allowed in property theorems: propext, Classical.choice, Quot.sound — audited with #print axioms on every run",
    "no sorry/admit/axiom/native_decide/bv_decide/implemented_by/unsafe in YV/Base, YV/Model, YV/Spec, YV/Proofs, YV/Props (grep on every run)",
    "tools/gen (Go, go/ast): prints the tables/literals of /repo as Lean data; refuses shapes it does not recognise",
    "correspondence harness (Go) + yvdrv (Lean exe): differential execution of the real code vs the Lean model; bounds what is seen",
    "goyacc-generated LALR drivers implement the grammar they were given",
]

# stream -> {quick: n, thorough: n}
PROPS = {
    "C01": {
        "streams": {"sf": {"quick": 20000, "thorough": 400000}, "c01": {"quick": 20000, "thorough": 400000}},
        "trusted": [
            "Go float64 hardware arithmetic, math.Floor/Ceil/Trunc/Mod, strconv.ParseFloat/FormatFloat = SF64 (soft IEEE-754 in Lean): checked bit-for-bit by stream 'sf', not proved",
            "mock xpath.Entry contract: absent node -> empty node-set datum, leaf -> literal datum, leaf-list -> datum slice of literals",
        ],
        "modelled": ["re-match (RE2) excluded", "count/sum/local-name/current take node-sets the navigation engine never produces: excluded from the scalar sub-language"],
        "rule": "typed random XPath expressions over the function table with forced conversions and boundary operands (depth<=5 quick, <=9 thorough), "
                "plus SF64-vs-float64 primitive operations on boundary/random bit patterns; distinct = distinct (case, model output); "
                "non-trivial = compiled by the real compiler",
    },
}

STREAMS = {}
