"""Per-property configuration of bin/check: streams with their budgets, trusted base, notes."""

TRUSTED_BASE = [
    "Lean 4.33.0 kernel (lake build); axioms allowed in property theorems: propext, Classical.choice, Quot.sound — audited with #print axioms on every run",
    "no sorry/admit/axiom/native_decide/bv_decide/implemented_by/unsafe in YV/Base, YV/Model, YV/Spec, YV/Proofs, YV/Props (grep on every run)",
    "tools/gen (Go, go/ast): prints the tables/literals of /repo as Lean data; refuses shapes it does not recognise",
    "correspondence harness (Go) + yvdrv (Lean exe): differential execution of the real code vs the Lean model; bounds what is seen",
    "goyacc-generated LALR drivers implement the grammar they were given",
]

# stream -> {quick: n, thorough: n}
PROPS = {
    "C01": {
        "streams": {"sf": {"quick": 20000, "thorough": 400000}, "c01": {"quick": 20000, "thorough": 400000}},
        "trusted": [
            "Go float64 hardware arithmetic, math.Floor/Ceil/Trunc/Mod, strconv.ParseFloat/FormatFloat = SF64 (soft IEEE-754 in Lean): checked bit-for-bit by stream 'sf', not proved",
            "mock xpath.Entry contract: absent node -> empty node-set datum, leaf -> literal datum, leaf-list -> datum slice of literals",
        ],
        "modelled": ["re-match (RE2) excluded", "count/sum/local-name/current take node-sets the navigation engine never produces: excluded from the scalar sub-language"],
        "rule": "typed random XPath expressions over the function table with forced conversions and boundary operands (depth<=5 quick, <=9 thorough), "
                "plus SF64-vs-float64 primitive operations on boundary/random bit patterns; distinct = distinct (case, model output); "
                "non-trivial = compiled by the real compiler",
    },
    "C02": {
        "streams": {"c02": {"quick": 20000, "thorough": 500000}},
        "trusted": ["sdcpb.Path helpers (AddPathElem, DeepCopy, AddKey, LastPathElem) are modelled, not verified",
                    "mock xpath.Entry: Navigate is a function of the path only; values are a deterministic hash of the canonical path (shared with the Lean driver)"],
        "modelled": ["two predicates with the same key on one step, and multi-valued operands of a predicate: outside what the property fixes (compared impl-vs-model only)"],
        "rule": "random location paths of the supported grammar (absolute/relative/current()/deref() roots, '..' steps, prefixes, <=2 predicates per step with literal, "
                "number, function-call and path operands), three whitespace spellings; the real compiler+machine run against a recording mock Entry; compared: the exact "
                "sequence of Navigate/GetValue/FollowLeafRef requests and the value; distinct = distinct (text, model output)",
    },
    "C03": {
        "streams": {"c03": {"quick": 10000, "thorough": 300000}},
        "trusted": [],
        "modelled": [],
        "rule": "random operator mixes (all 13 binary operators, unary minus) over numbers, literals, function calls and location paths with predicates, depth <=4 quick / <=7 "
                "thorough; each tree rendered twice (minimal vs fully parenthesised; two random admissible parenthesisations; same tokens with different whitespace at every "
                "boundary); compared: PrintMachine listings of the two variants with each other and with the program of the tree, and the run results; distinct = distinct case",
    },
    "C05": {
        "streams": {"xfuzz": {"quick": 30000, "thorough": 1000000, "spec_proj": "total"},
                    "c05fault": {"quick": 2500, "thorough": 60000}},
        "trusted": ["path_eval machines run on the legacy node-set engine: only construction totality is claimed for that grammar"],
        "modelled": [],
        "rule": "xfuzz: all 1-2 byte inputs over a 33-byte alphabet x 3 grammars, random bytes, mutated valid expressions (under recover: any panic is an observation); "
                "c05fault: random supported paths x the k-th data-tree callback failing for every k in 1..8; compared: the error that reaches GetError/Get*Result",
    },
    "C07": {
        "streams": {"yfuzz": {"quick": 10000, "thorough": 400000}, "ydeep": {"quick": 1, "thorough": 1}},
        "trusted": ["the Go runtime reaps a goroutine whose function returned (observed by goroutine dumps, not proved)"],
        "modelled": ["statement checks (cardinality/arguments, C09) are outside this model: the streams use prefixed extension keywords, for which the parser applies none",
                     "the goroutine stack: the model's parser is a fuelled function, the code's recursion is bounded by two constants (10000 levels of nesting, 10000 '+' pieces) that the model does not have; stream ydeep compares the behaviour at and beyond the bounds with what the driver predicts from the constants"],
        "rule": "every text of length <=3 (quick) / <=4 (thorough) over a 16-byte alphabet (exhaustive), every prefix of generated modules (every way a text can end inside a "
                "token, string, comment or block), random bytes; parse.Parse under a watchdog, then a goroutine dump filtered for parse.(*lexer).run; compared: ok / err line:col, leaked goroutines",
    },
    "C08": {
        "streams": {"yarg": {"quick": 20000, "thorough": 500000}},
        "trusted": [],
        "modelled": ["RFC 6020 does not fix the order of whitespace trimming and escape substitution: texts with \\n/\\t escapes in multi-line strings are compared implementation-vs-model only",
                     "the pair \\r, which the code substitutes by a carriage return (deliberately: its own test expects it) and RFC 6020 does not define, is compared implementation-vs-model only; every other backslash pair is kept as it stands by code, model and specification"],
        "rule": "(value, quoting, layout) triples: values over an alphabet with quotes, backslashes, //, /*, +, ;{}, tabs, CR, LF, multi-byte runes; 1-3 pieces joined by '+'; unquoted / single / "
                "double quoting; indentation by blanks and tabs to the exact quote column, blank lines, CRLF, comments between tokens; 12 % of the double-quoted pieces written directly as source text over an alphabet of defined and undefined backslash pairs; compared: Node.Argument().String() with the model and with Spec.decodeArg",
    },
    "C09": {
        "streams": {"ytriples": {"quick": 1, "thorough": 1}, "yorder": {"quick": 300, "thorough": 20000}, "yargs": {"quick": 3000, "thorough": 200000}},
        "trusted": ["pattern arguments: the regexp dialect (XSD vs RE2) is outside the model; namespace arguments: net/url is trusted",
                    "Spec.YRfc (the RFC 6020 substatement tables) is written from the RFC by hand"],
        "modelled": ["typedef/grouping shadowing (buildSymbols) is not part of this property's model: generators use distinct names",
                     "vendor vocabularies configd:* / opd:* are modelled as they are and excluded from the RFC comparison"],
        "rule": "ytriples: EVERY (parent keyword, child keyword, multiplicity 0/1/2) over 47 parents x 65 RFC keywords (exhaustive: the complete space the cardinality table encodes), "
                "each as a root statement with otherwise valid content, plus prefixed/unprefixed unknown keywords under every parent; yorder: all orders of the five module sections with optional "
                "sections dropped, split headers, all pairs of 14 revision dates, random revision sequences; yargs: per argument kind a list of valid and one-edit-away invalid lexemes on every "
                "keyword of that kind plus random mutations; compared: verdict and error line:col against the model (code's table) and the RFC table / ABNF",
    },
    "C10": {
        "streams": {"ytree": {"quick": 10000, "thorough": 200000}, "yreal": {"quick": 1500, "thorough": 40000},
                    "yarg": {"quick": 8000, "thorough": 150000}},
        "trusted": [],
        "modelled": ["the parser's one normalisation of the tree (a short-hand case is wrapped in a case node of the same name and position) is applied to the model's tree by the driver (Drv/Y.lean wrapCases), outside the theorems"],
        "rule": "yreal: generated YANG modules with real keywords (containers, lists, leaves, choices with explicit and short-hand cases, statements written after the children): walk of Tree.Root against the model's tree; "
                "ytree: random statement trees (prefixed extension keywords, depth <=3/6, fan-out <=4) spelled with random trivia (blanks, tabs, LF, CRLF, /* */ and // comments containing statement "
                "punctuation) at every token boundary and a random quoting of every argument; compared: walk of Tree.Root (keyword, argument, line:col of every keyword) with the model and with the generated tree; "
                "yarg (the stream of C08: one value in every quoting form and as '+' pieces, a piece's source text repeated character for character at another column): another quoting form of a value gives the same argument",
    },
    "C13": {
        "streams": {"ytypes": {"quick": 4000, "thorough": 200000}, "yvals": {"quick": 2000, "thorough": 100000, "spec_proj": "verdicts"}},
        "trusted": ["Go float64 comparison / strconv.ParseFloat = SF64 (checked bit-for-bit by C01's stream 'sf')",
                    "patterns (RE2) are opaque: only their accumulation along the chain is observed (count), not their language"],
        "modelled": ["union / identityref / leafref / bits / instance-identifier members of a chain are outside this model",
                     "decimal64 boundaries are binary64 in the code and in the model; the specification is exact: open known finding"],
        "rule": "random typedef chains (depth 0-4) over int8..64, uint8..64, decimal64 fd 1..18, string, boolean, empty, enumeration; each level with an optional range/length "
                "(1-3 parts, min/max keywords, adjacent and overlapping parts, boundaries at the base's bounds +/- 1, wrong restriction kind) and an optional default; the module is "
                "compiled by the real compiler and the leaf's Type.Validate is probed with boundary +/- 1 values and malformed lexemes; compared: compile verdict, Type.Default(), verdict per probe; "
                "yvals (shared with C16): chains whose levels each add patterns, lengths and ranges with their error statements — the patterns of every level must all hold",
    },
    "C16": {
        "streams": {"ytypes": {"quick": 4000, "thorough": 200000}, "yvals": {"quick": 3000, "thorough": 150000}},
        "trusted": ["Go float64 comparison / strconv.ParseFloat = SF64 (checked bit-for-bit by C01's stream 'sf')"],
        "modelled": ["patterns: the regular fragment the generator writes (literals, '.', character classes, concatenation, alternation, * + ?), on which RE2 and XSD agree; RE2 itself is trusted on it",
                     "leafref, bits, instance-identifier, binary are not modelled; identity status (obsolete identities in the help text) is not modelled",
                     "decimal64 ranges are binary64 in the code and in the model; the specification is exact: open known finding"],
        "rule": "the probes of stream ytypes: for every generated type, every bound of every range part +/- one unit, the width bounds +/- 1, 18-19 digit values, signs, leading zeros, "
                "blanks, hex/exponent forms, multi-byte strings at the length bounds; compared: Type.Validate verdict per probe with the model and with the exact value-space specification; "
                "yvals: typedef chains (all in the leaf's module, or spread over three modules one of which imports the first under another prefix) with error-message / error-app-tag on range, length and pattern statements, 1-2 random patterns per level (alternation at top level, nested quantifiers, negated classes), "
                "unions nested to depth 2, identityrefs over a random identity forest spread over three modules (values with and without module name); ~60 probes per case; compared: verdict, app-tag, custom message and error path per probe",
    },
    "C17": {
        "streams": {"ypath": {"quick": 3000, "thorough": 150000, "spec_proj": "path"}},
        "trusted": ["the projection of an implementation error (tag, path, message class) onto (index, reason) is done by bin/check (project 'path'), mirroring Spec.YPathS.proj",
                    "leaf types are those of C13/C16 (Model.YTypes / Spec.YTypesS)"],
        "modelled": ["lists with more than one key: the code validates only the first key (its own TODO); generated lists have one key",
                     "opd:command / opd:option / opd:argument nodes (vendor operational vocabulary) are outside the model",
                     "choice.Validate / ycase.Validate are unreachable from a tree (choices are never in a child map) and modelled as such"],
        "rule": "random schemas (containers with and without presence, single-key lists, leaves and leaf-lists of nine types, choices with 1-3 cases nested to depth 2-4) compiled by the real compiler; "
                "12 token paths per schema: random valid walks, then truncated / extended by one or two tokens / one token replaced by a foreign node name, a choice or case name, junk, or a value of another type / "
                "a token inserted or deleted; each validated with and without AllowIncompletePaths; compared: ok or (error tag, error path, bad element, message class) with the model, and (index of the offending token, reason) with the specification",
    },
    "C18": {
        "streams": {"ydata": {"quick": 3000, "thorough": 150000}},
        "trusted": ["Go map iteration decides the order of reported errors and of appended defaults: both sides are compared as sorted lists (multisets)",
                    "the canonical form of an error (kind, path, node name / entry names) is extracted from the message text by the harness"],
        "modelled": ["must / when / leafref checks during validation are not part of this model (no such statements are generated)",
                     "a list whose size violates min/max is reported as such and its entries are not examined further (code and specification)",
                     "data in two cases of one choice at once is generated rarely; the validator has no rule for it and none is specified",
                     "the equality of the decoration with the specification of defaults in use, idempotence and the unique check are compared by correspondence, not proved"],
        "rule": "random schemas (non-presence/presence containers nested to depth 2-4, single-key lists with min/max-elements, ordered-by, unique sets over direct and descendant leaves, mandatory leaves, "
                "leaves with defaults, leaf-lists with min/max, choices — mandatory or with a default case — with 1-3 cases nested inside cases) compiled by the real compiler, with a random data tree "
                "(inclusion probability 30/55/80/95 %, 0-3 list entries, values from small sets so that unique collisions occur, empty-string values); compared: the multiset of ValidateSchema errors "
                "(mandatory / choice / cardinality / unique with path), the canonical walk of AddDefaults(schema, data), and whether decorating twice equals decorating once",
    },
    "C20": {
        "streams": {"yfilter": {"quick": 2000, "thorough": 100000}},
        "trusted": ["the canonical dump of a compiled ModelSet (harness): kind, name, namespace, module, config, status, presence/mandatory, default, keys, min/max, ordered-by, unique, type name, when/must texts, children with choices and cases in place",
                    "pruning of the unfiltered dump is done by the harness on that dump (the direct statement of the property on the real code); the Lean model states the same on its own tree"],
        "modelled": ["the opd vocabulary (opd:command / option / argument) is outside the model: IsOpd is constantly false on the node kinds generated",
                     "when the unfiltered compile fails the property says nothing: only 'the filtered compile fails with the same error or succeeds' is recorded",
                     "the Lean compile model covers config/status inheritance, if-feature, name clashes, the choice-default check and the filter; types, must/when, groupings are outside it (the harness comparison still sees every attribute)"],
        "rule": "random module bodies (containers, single-key lists, leaves, leaf-lists, choices with 1-3 cases nested to depth 2-4) with config false / explicit config true / status statements placed at random (including placements the compiler must reject), "
                "compiled without a filter and with each of ten filters (config, state, Exclude(state), Exclude(config), Include(config, IncludeState(true/false)), IsConfigOrState, IsOpd, Exclude(IsOpd), Include()); compared: for every filter, "
                "dump(filtered compile) = prune(dump(unfiltered compile)) on the real code (all attributes), and the unfiltered dump (core attributes) and every error with the Lean compile model",
    },
    "C14": {
        "streams": {"ycfg": {"quick": 2500, "thorough": 120000},
                    "yuses": {"quick": 1000, "thorough": 40000},
                    "ymodsst": {"quick": 800, "thorough": 30000}},
        "trusted": ["the canonical dump of a compiled ModelSet and the classification of compile errors into classes (harness)",
                    "'editing the target's source accordingly' is performed by the harness on the generator's AST (and independently by Spec.YCfgS.editNode in Lean)"],
        "modelled": ["deviations of default / config / mandatory / min-elements / max-elements and not-supported; units, must, unique, type and extension properties are not generated",
                     "one deviation per node and none nested in another one's target (how several deviations of one subtree combine is not compared)",
                     "grouping / identity reference-status checks are not generated (if-feature references in ycfg, typedef references in ymods)",
                     "when several errors apply, which one is reported first depends on Go map order across modules; single-error cases dominate"],
        "rule": "random module bodies with config / status statements (as for C20), 0-5 features in the module and 0-3 in an imported module with a random dependency graph (forward edges, rare back edges, "
                "cross-module edges, rare deprecated/obsolete features), a random enabled set, if-feature statements (1-2 per node, local and imported features) on 18 % of the nodes, and 0-3 deviations "
                "(not-supported; add / replace / delete of default, config, mandatory, min-elements, max-elements; 12 % chosen against what the RFC allows for the node); compared: the compile verdict and error class, "
                "the dump of the compiled tree, and — on the real code — dump(module + deviations) = dump(module edited accordingly); "
                "yuses (the stream of C12, here for status and config handed down by uses / augment statements that carry a status of their own, to nodes that state one too); "
                "ymodsst (the modules of C11's stream with no other fault than 'ref-status': status statements on the typedefs of three modules and on the leaves that use them, chains within and across modules: a definition may refer to a definition of its own module that is no more obsolete than itself)",
    },
    "C12": {
        "streams": {"yuses": {"quick": 6000, "thorough": 150000},
                    # submodules: what is written in one belongs to its module; augments into notifications
                    "ymodsst": {"quick": 400, "thorough": 20000}},
        "trusted": ["the generator writes the inline module first and factors parts of it out (groupings, refines, augments under uses, module-level augments): the two modules are equivalent by construction of the factoring steps",
                    "the canonical dump of a compiled ModelSet and the error classes (harness)"],
        "modelled": ["refines of must / description / reference, submodules, opd:augment are not generated",
                     "a name is used once per module (plus the copies a second uses of a grouping makes): the namespace of a node is looked up by name",
                     "augments are applied in the order written (an augment whose target is added by a later augment is not generated)"],
        "rule": "random inline modules; 1-3 groupings factored out of random child ranges (module body, containers, lists, cases), 30 % into an imported module, 40 % factored again inside (nesting depth <= 3), "
                "with refines (default, mandatory, presence, min/max-elements) removed from the grouping and written under the uses, an augment under the uses taking part of a container two or more levels down, "
                "an if-feature on the uses, and in 30 % a second uses of the same grouping elsewhere without the refines; 0-2 module-level augments, 45 % of them in another module (namespace of the added nodes); "
                "when statements (plain and prefixed) and status statements on uses and augments, including on nodes that state a status themselves; groupings defined inside containers, lists and other groupings (scoped, shadowing excluded), chains of uses through them; "
                "status / description on groupings; short-hand cases added to choices by augments; a deliberate name clash (4 %) between a choice, a case and a data node; "
                "compared on the real code: dump(factored) = dump(inline) without namespaces, and the namespace of every node; compared with the Lean expansion model: verdict, error class, dump",
    },
    "C11": {
        "streams": {"ymods": {"quick": 1500, "thorough": 60000}},
        "trusted": ["github.com/danos/utils/tsort (Tarjan SCC) for import / include cycles is outside the model",
                    "the generator knows which references it wrote: the Lean driver rebuilds the reference graphs (features, identities, typedefs, groupings, imports) from the case and decides cycles with the proved walk",
                    "Go's randomised map iteration is what the repeated compiles sample: 8 compiles per case, modules supplied in 8 different orders"],
        "modelled": ["which error is reported when several apply is not compared (only that the outcome is an error); a module importing itself and two modules deviating one node in an order-dependent way are compared for stability only",
                     "submodule include cycles are checked by the probe list in DESIGN.md, not generated"],
        "rule": "three modules ma <- mb <- mc full of cross references (features on features, identity bases, typedef chains, groupings using groupings nested in containers, identityref / typedef leaves with if-features, augments and deviations of ma's nodes from mb and mc); "
                "45 % of the cases carry one fault out of 20 kinds (cycle among features / identities / used typedefs / unused typedefs / groupings direct or nested / imports, self import, missing module, unknown prefix / typedef / grouping / feature / identity, "
                "duplicate feature / identity / typedef / grouping, bad augment path, two modules deviating one leaf in an order-dependent way); each case is compiled 8 times with the modules supplied in different orders; "
                "compared: the verdict and its class with the Lean decision (cycle walk over the reference graphs), and that verdict and dump never change between the 8 compiles",
    },
    "C15": {
        "streams": {"yxp": {"quick": 2500, "thorough": 100000}},
        "trusted": ["the Lean XPath lexer + parser model is the one tied to /repo by C03 / C04 / C05 (regenerated grammar obligations, exhaustive small-scope correspondence)",
                    "the listing of a compiled machine (PrintMachine) with the namespace of every name test is the observation of prefix resolution"],
        "modelled": ["the namespace an unprefixed name resolves to (the using module for copies of a grouping, the module of the text for a typedef and for an augment's nodes) is modelled as the code has it; the property only fixes prefixed names",
                     "configd:must / path-evaluation machines (warnings) are outside the model",
                     "the general statement 'every name test of a compiled program carries a prefix of the textual module' is compared, not proved"],
        "rule": "five modules: c, d plain; b imports c as x; m imports b, c as y, d as x (the same prefix as in b for another module); a2 imports m and c as z. Random must / when / leafref path expressions (the generators of C02 / C03 / C04 with the prefixes of "
                "the module the text is written in) are placed in a grouping and a typedef of b that m uses, directly in m, and on a leaf and on the augment statement of an augment of m written in a2; 3 % use a prefix the textual module does not import "
                "(though the using module does), 2 % are mutated into syntax errors; compared: the compile verdict, that the error names the statement and quotes the expression, and for every compiled node the expression text and the machine listing with resolved namespaces",
    },
    "C06": {
        "streams": {"yconc": {"quick": 600, "thorough": 20000, "race": True}},
        "trusted": ["the Go race detector (go build -race) observes the executions that happen; it proves nothing about interleavings that did not occur",
                    "mock xpath.Entry trees are built per run (independent contexts)"],
        "modelled": ["the Lean machine model is a function of (program, tree): history independence is by construction there; that the real machine behaves like that function after any history and under concurrency is what the stream samples",
                     "plugin loading (pluginsLoaded / openPlugins) reads a directory that does not exist in the sandbox: the first-call path is exercised, plugin registration is not"],
        "rule": "2-4 expressions per case (typed scalar expressions over leaf values, location paths with predicates over the recording mock tree); each machine is compiled once and run once in isolation, then 3 more times sequentially, "
                "then by 4 goroutines x 5 runs each at once while 3 goroutines compile and run the same and other expressions (18 compiles); every result must equal the isolated one and the Lean model's; the harness is built with the race detector and any report fails the batch",
    },
    "C19": {
        "streams": {"ymkey": {"quick": 1, "thorough": 1}, "yenc": {"quick": 2000, "thorough": 100000},
                    "yencfuzz": {"quick": 4000, "thorough": 300000, "spec_proj": "encfuzz", "proj_model": True}},
        "trusted": ["encoding/json, danos/encoding/rfc7951 and encoding/xml (bytes <-> values, escaping) are trusted: the Lean model starts at JSON values / XML elements; the harness re-parses the produced bytes with encoding/json to obtain the value tree it compares",
                    "the conformance checker of decoded trees (harness) uses the real Type.Validate of the compiled schema"],
        "modelled": ["a list or leaf-list node without entries is not part of a valid tree and is not generated for the round trip",
                     "XML namespaces / prefixes of identityref values are exercised (identities of another module) but only the decoded value is compared",
                     "for mutated documents the model predicts nothing but 'an error or a conforming tree'; for the tamper table it predicts the exact outcome"],
        "rule": "yenc: random schemas (twelve leaf types: 8..64-bit integers with extremes and 2^53+1, decimal64 extremes, strings needing escaping in JSON and XML, boolean, enumeration, empty, identityref across modules; ordered-by user lists and leaf-lists) "
                "with random valid trees; the tree is encoded as RFC 7951, JSON and XML by the real encoders, the JSON bytes are re-parsed and compared with the Lean writer model value by value, each encoding is decoded by the real decoder and the tree compared with the original and with the Lean reader model; "
                "yencfuzz: the whole tamper table first (9 leaf types x 29 literals x 2 JSON encodings: fractions, exponents, out-of-range and 64-bit numbers, booleans, null, [null], strings for numbers ...) with the exact outcome predicted by the Lean reader + type model, "
                "then valid encodings with 1-3 mutations (byte deletion / duplication / swap, value replaced by another JSON shape, digits changed, truncation, trailing data) decoded under recover and checked for conformance with the schema",
    },
    "C04": {
        "streams": {"xsmall": {"quick": 1, "thorough": 1, "spec_proj": "accept"},
                    "xfuzz": {"quick": 30000, "thorough": 1000000, "spec_proj": "accept"}},
        "trusted": ["the goyacc LALR(1) driver implements the grammar of xpath.y / leafref.y (no conflicts reported: checked on every run); "
                    "the small-scope exhaustive token-sequence stream is the evidence for that"],
        "modelled": ["PfxMapFn is modelled as 'the empty prefix and a given set of prefixes resolve'",
                     "plugin-registered custom functions are not modelled (none are loaded in the harness)"],
        "rule": "xsmall: EVERY token sequence of length <=3 (quick) / <=4 (thorough) over a 47-lexeme XPath alphabet and <=4/5 over a 20-lexeme "
                "leafref alphabet, spelled with and without separating blanks (exhaustive); xfuzz: all 1-2 byte inputs over a 33-byte alphabet for the "
                "three grammars + random bytes + mutated valid expressions / leafref paths; distinct = distinct (input, model output)",
    },
}

STREAMS = {}
