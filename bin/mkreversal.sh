#!/bin/bash
# mkreversal.sh <seed-id> <commit> <property> <what> : stores the reversal of a fix commit of /repo as a seed
set -e
id=$1; c=$2; prop=$3; what=$4
d=/verif/seeded/$id
mkdir -p $d
git -C /repo diff $c $c^ > $d/patch.diff
files=$(git -C /repo diff --name-only $c $c^ | python3 -c "import sys,json; print(json.dumps(sys.stdin.read().split()))")
python3 - "$d" "$c" "$prop" "$what" "$files" <<'PY'
import sys,json
d,c,prop,what,files=sys.argv[1:6]
json.dump({"property":prop,"origin":f"the repair {c} of a genuine defect, reversed (not produced by a sub-agent): the defect returns",
 "what_it_breaks":what,"files_changed":json.loads(files),"detection":""},open(d+"/meta.json","w"),indent=1)
PY
echo stored $d
