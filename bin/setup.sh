#!/bin/bash
# Builds the framework offline from files on disk: goyacc, harness, translator, Lean library + driver.
set -e
cd "$(dirname "$0")/.."
export GOFLAGS=-mod=mod GOPROXY=off
unset GOSUMDB
mkdir -p build evidence replays
(cd tools/goyacc && go build -o ../../build/goyacc .)
if [ ! -f /repo/xpath/grammars/leafref/leafref.go ]; then
  (cd build && ./goyacc -o leafref.go -v leafref.output -p leafref /repo/xpath/grammars/leafref/leafref.y)
  echo '{"Replace":{"/repo/xpath/grammars/leafref/leafref.go":"/verif/build/leafref.go"}}' > build/overlay.json
else
  echo '{"Replace":{}}' > build/overlay.json
fi
cp /repo/go.sum harness/go.sum
(cd harness && go build -tags verif -overlay ../build/overlay.json -o ../build/yvharness .)
if [ -d tools/gen ]; then
  (cd tools/gen && go build -o ../../build/yvgen . && ../../build/yvgen -repo /repo -out ../../lean/YV/Gen -overlay ../../build/overlay.json)
fi
(cd lean && lake build yvdrv YV)
echo setup-ok
