#!/usr/bin/env python3
"""Runs ALL packages of a repo dir with the leafref overlay (incl. parse/compile/schema, which the pinned baseline cannot
build) and prints / compares the set of failing tests.  usage: exttests.py [repo] [--save FILE | --compare FILE]"""
import json, subprocess, sys, os
repo = sys.argv[1] if len(sys.argv) > 1 and not sys.argv[1].startswith("--") else "/repo"
env = dict(os.environ, GOFLAGS="-mod=mod", GOPROXY="off"); env.pop("GOSUMDB", None)
ov = "/verif/build/overlay.json"
if repo != "/repo":
    o = json.load(open(ov)); o2 = {"Replace": {k.replace("/repo", repo): v for k, v in o["Replace"].items()}}
    ov = "/tmp/exttests_overlay.json"; json.dump(o2, open(ov, "w"))
r = subprocess.run(["go", "test", "-overlay", ov, "-json", "-vet=off", "-count=1", "./..."], cwd=repo, env=env, stdout=subprocess.PIPE, stderr=subprocess.DEVNULL)
fail, ok = set(), set()
for l in r.stdout.decode().split("\n"):
    try: j = json.loads(l)
    except Exception: continue
    if j.get("Test") and "/" not in j["Test"]:
        k = j["Package"].split("yang-parser/")[-1] + "::" + j["Test"]
        if j.get("Action") == "fail": fail.add(k)
        if j.get("Action") == "pass": ok.add(k)
print(f"passed {len(ok)} failed {len(fail)}")
if "--save" in sys.argv:
    json.dump({"fail": sorted(fail), "pass": sorted(ok)}, open(sys.argv[sys.argv.index("--save") + 1], "w"), indent=0)
if "--compare" in sys.argv:
    base = json.load(open(sys.argv[sys.argv.index("--compare") + 1]))
    newfail = sorted(set(base["pass"]) - ok)
    print("tests that passed at the pin and do not pass now:", len(newfail))
    for t in newfail: print("  REGRESSED", t)
    sys.exit(1 if newfail else 0)
