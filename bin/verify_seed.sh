#!/bin/bash
# verify_seed.sh <worktree> <pkg-with-demo> <TestRegex> : confirms a seeded change: builds, baseline ok, demo fails with / passes without
wt=$1; pkg=$2; rx=$3
export GOFLAGS=-mod=mod GOPROXY=off
cd $wt || exit 2
rm -rf out/*.go out/go.mod 2>/dev/null   # copies under out/ would be picked up by ./...
echo "== with change: build"; go build ./... 2>&1 | tail -2
echo "== with change: baseline"; /verif/bin/baseline.py $wt | tail -2
echo "== with change: demo (expect FAIL)"; go test -vet=off -count=1 -run "$rx" $pkg 2>&1 | tail -3
git apply -R out/patch.diff || { echo "cannot reverse"; exit 2; }
echo "== without change: demo (expect ok)"; go test -vet=off -count=1 -run "$rx" $pkg 2>&1 | tail -2
git apply out/patch.diff
