#!/usr/bin/env python3
"""triage <stream> [-n N] [-seed S]: run one stream and print disagreeing cases grouped (dev helper)."""
import sys, os, json, subprocess, collections
V=os.path.dirname(os.path.dirname(os.path.abspath(__file__)))
s=sys.argv[1]; n=sys.argv[2] if len(sys.argv)>2 else "5000"; seed=sys.argv[3] if len(sys.argv)>3 else "1"
tier=sys.argv[4] if len(sys.argv)>4 else "quick"
H=V+"/build/yvharness"; D=V+"/lean/.lake/build/bin/yvdrv"
cases=subprocess.run([H,"gen",s,"-n",n,"-seed",seed,"-tier",tier,"-corpus",V+"/corpus/"+s+".jsonl"],stdout=subprocess.PIPE).stdout
impl=subprocess.run([H,"run",s],input=cases,stdout=subprocess.PIPE).stdout.decode()
mod=subprocess.run([D],input=cases,stdout=subprocess.PIPE).stdout.decode()
I={json.loads(l)["id"]:json.loads(l)["i"] for l in impl.split("\n") if l}
M={json.loads(l)["id"]:json.loads(l) for l in mod.split("\n") if l}
import importlib.machinery, importlib.util
_l=importlib.machinery.SourceFileLoader("yvcheck",V+"/bin/check"); _sp=importlib.util.spec_from_loader("yvcheck",_l); chk=importlib.util.module_from_spec(_sp); _l.exec_module(chk)
PROJ=os.environ.get("PROJ")
groups=collections.defaultdict(list)
tot=0
for l in cases.decode().split("\n"):
    if not l: continue
    c=json.loads(l); tot+=1
    i=I.get(c["id"],"MISSING"); m=M.get(c["id"],{}); mm=m.get("m","MISSING"); ss=m.get("s",mm); dc=m.get("dc",False)
    ip=chk.project(PROJ,i) if PROJ else i
    if i!=mm or (not dc and ip!=ss):
        key=("M" if i!=mm else "")+("S" if (not dc and ip!=ss) else "")
        groups[key].append((c,i,mm,ss))
print("total",tot,{k:len(v) for k,v in groups.items()})
for k,v in groups.items():
    v.sort(key=lambda x:len(json.dumps(x[0])))
    for c,i,mm,ss in v[:int(os.environ.get("SHOW","12"))]:
        if "paths" in c and os.environ.get("ITEM","1")=="1":
            ii=i.split(";"); mi=mm.split(";"); si=ss.split(";"); pi=(chk.project(PROJ,i) if PROJ else i).split(";")
            for x in range(len(ii)):
                if x<len(mi) and x<len(si) and (ii[x]!=mi[x] or pi[x]!=si[x]):
                    print(k,"path",c["paths"][x//2],"allowInc",x%2==1); print("    impl :",ii[x],"=>",pi[x]); print("    model:",mi[x]); print("    spec :",si[x]); break
            else: print(k,"(length mismatch)",i[:200],mm[:200],ss[:200])
            continue
        if "probes" in c and os.environ.get("ITEM","1")=="1":
            ii=i.split(";"); mi=mm.split(";"); si=ss.split(";"); pi=(chk.project(PROJ,i) if PROJ else i).split(";")
            if len(ii)==len(mi)==len(si):
                for x in range(len(ii)):
                    if ii[x]!=mi[x] or pi[x]!=si[x]:
                        print(k,"probe",repr(c["probes"][x]),json.dumps({a:b for a,b in c.items() if a not in("id","k","probes")},ensure_ascii=False)[:int(os.environ.get("W","600"))]); print("    impl :",ii[x],"=>",pi[x]); print("    model:",mi[x]); print("    spec :",si[x]); break
                continue
            print(k,"(shape)",i[:150],"|",mm[:150],"|",ss[:150]); continue
        if ("data" in c or c.get("k") in ("yfilter","ycfg","yuses","ymods","yxp","yconc","yenc")) and os.environ.get("ITEM","1")=="1":
            il=i.split("\n"); ml=mm.split("\n"); sl=ss.split("\n")
            for x in range(max(len(il),len(ml),len(sl))):
                a=il[x] if x<len(il) else "-"; b=ml[x] if x<len(ml) else "-"; d=sl[x] if x<len(sl) else "-"
                if a!=b or a!=d:
                    print(k,"line",x,"case-bytes",len(json.dumps(c))); print("    impl :",a[:300]); print("    model:",b[:300]); print("    spec :",d[:300]); break
            continue
        print(k, c.get("text") or json.dumps({a:b for a,b in c.items() if a not in("id","k")},ensure_ascii=False)); print("    impl :",i); print("    model:",mm); 
        if ss!=mm: print("    spec :",ss)
