#!/usr/bin/env python3
"""mkseedtask.py <seed-id> <hints-file> : writes /tmp/seed/<id>/out/TASK.md (the brief a seeding sub-agent works from).
The brief contains only the property text and the worktree rules; nothing from /verif."""
import json,sys,os
sid,hf=sys.argv[1],sys.argv[2]
pid=sid[:3]
p=[json.loads(l) for l in open('/verif/properties.jsonl') if json.loads(l)['id']==pid][0]
h=json.load(open(hf))[sid]
wt='/tmp/seed/'+sid
os.makedirs(wt+'/out',exist_ok=True)
mech='; '.join(m['where'] for m in p['anchors']['mechanism'])
t=f"""You are helping test a verification framework by producing ONE realistic, subtle bug ("seeded change") in a Go repository. Work ONLY inside the git worktree {wt} (a checkout of the Go module github.com/sdcio/yang-parser). Do not touch /repo or /verif, and do not read anything under /verif.

Environment: no network. Use these env vars for every go command: `export GOFLAGS=-mod=mod GOPROXY=off` (do NOT set GOSUMDB). The existing test suite is run with: `cd {wt} && go test -mod=mod -vet=off -count=1 ./...` (a number of tests fail already on the unchanged tree; record which fail BEFORE your change with `go test -json ./...` and make sure your change does not make any previously-passing test fail). The file xpath/grammars/leafref/leafref.go is a generated, untracked file placed there so that all packages build; leave it alone and do not include it in your patch. A goyacc binary is NOT available; if you change a .y file you must hand-edit the generated .go consistently, so prefer changing hand-written Go.

The property you must break (read the files it is anchored in first):

---
{p['id']} — {p['title']}

{p['statement']}

Quantifier: {p['quantifier']['text']}
Observed at: {'; '.join(p['anchors']['observe_at'])}
Anchored in: {mech}
---

Task: make a small source change (a few lines, in non-test .go files) that BREAKS this property while (a) the repository still compiles, and (b) every test that passed before still passes. {h['target']} The change must be the kind of mistake a developer could plausibly make. IMPORTANT: it must need something SPECIFIC to manifest — not something any ordinary input would expose immediately. Prefer an area the existing tests do not pin.

Deliver, in the directory {wt}/out/ :
1. patch.diff — `git diff` of your change (tracked files only, not leafref.go, not the demo test).
2. a demo Go test (placed so that it compiles inside the module, e.g. {h['demo']}, and ALSO copied to out/seed_demo_test.go) that FAILS with your change and PASSES without it. {h.get('demohint','')}
3. meta.json — {{"property":"{pid}","what_it_breaks":"...","needs_to_manifest":"...","commands_run":["..."],"files_changed":["..."],"demo_location_in_repo":"...","demo_test_regex":"..."}}.

Verify yourself: run the demo with and without the change (apply/reverse the patch), and run the existing suite with the change comparing the set of passing tests before/after. Report in your final answer: the diff, the demo result with/without, and the before/after pass counts. Leave the worktree WITH your change applied and the demo file present. Do not leave any .go file or go.mod under out/ other than seed_demo_test.go.
"""
open(wt+'/out/TASK.md','w').write(t)
print(wt+'/out/TASK.md')
