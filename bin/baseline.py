#!/usr/bin/env python3
"""Runs the pinned test suite in a repo dir (default /repo) and compares with /root/.vp/BASELINE.json."""
import json, subprocess, sys, os
repo = sys.argv[1] if len(sys.argv) > 1 else "/repo"
env = dict(os.environ, GOFLAGS="-mod=mod", GOPROXY="off")
env.pop("GOSUMDB", None)
r = subprocess.run(["go", "test", "-mod=mod", "-json", "-vet=off", "-count=1", "-timeout", "25m", "./..."], cwd=repo, env=env,
                   stdout=subprocess.PIPE, stderr=subprocess.DEVNULL)
passed = set()
for l in r.stdout.decode().split("\n"):
    try:
        j = json.loads(l)
    except Exception:
        continue
    if j.get("Action") == "pass" and j.get("Test") and "/" not in j["Test"]:
        passed.add(j["Package"] + "::" + j["Test"])
base = set(json.load(open("/root/.vp/BASELINE.json"))["stable_pass"])
missing = sorted(base - passed)
print(f"baseline {len(base)}; passed now {len(passed)}; baseline tests not passing: {len(missing)}")
for m in missing:
    print("  MISSING", m)
sys.exit(1 if missing else 0)
