#!/bin/bash
# seedsweep.sh : every stored seed against the quick check of its property (C12g: C15 as well); prints one line per seed
cd /verif
for d in seeded/C*/; do
  s=$(basename $d); p=${s:0:3}; props=$p
  [ $s = C12g ] && props="C12 C15"
  [ $s = C10i ] && props="C10"
  [ $s = C14g ] && props="C14"
  out=$(bin/seedtest.sh /verif/seeded/$s/patch.diff $props 2>&1)
  n=$(echo "$out" | grep -c '^VIOLATION')
  echo "$s violations_lines=$n $(echo "$out" | grep 'done rc' | tr '\n' ' ')"
done
